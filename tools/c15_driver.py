"""C15 child-process driver: runs ONE history on the library (a crash of the library kills only this process) and
prints a JSON result:  {"fail": None | {key, what, step, detail}, "dumps": [...], "grav": [...], "bcases": [...], "stats": {...}}.
Usage:  python c15_driver.py  < spec.json      (PYTHONPATH = library dir; tools dir is added here)"""
import sys, os, json, math, random, ctypes
sys.path.insert(0, os.path.dirname(os.path.abspath(__file__)))
import c15_lib as L
import rebound
sys.setrecursionlimit(20000)      # trees over subnormal separations are ~1100 cells deep
clib = rebound.clibrebound


class Fail(Exception):
    def __init__(self, key, what, detail=None):
        self.key = key; self.what = what; self.detail = detail


def hx(x):
    return float(x).hex()


def rand_pos(rng, box, pts_taken, edge=False):
    while True:
        p = tuple(rng.uniform(-box.box[a] / 2., box.box[a] / 2.) for a in range(3))
        if all(-box.box[a] / 2. <= p[a] < box.box[a] / 2. for a in range(3)) and p not in pts_taken:
            return p


def setup(spec):
    sim = rebound.Simulation()
    # the library seeds its random numbers (order in which collisions are resolved) from the clock and the pid: fix it, so that a history is a
    # function of its spec
    sim.rand_seed = (int(spec.get("seed", 1)) * 2654435761 + 12345) & 0x7fffffff
    sim.integrator = "leapfrog"
    sim.dt = spec["dt"]
    sim.gravity = spec.get("gravity", "none")
    sim.collision = spec.get("collision", "none")
    sim.boundary = spec["boundary"]
    if spec["boundary"] != "none" or sim.gravity == "tree" or sim.collision in ("tree", "linetree"):
        sim.configure_box(spec["rs"], *spec["n"])
    if spec["boundary"] == "shear":
        sim.ri_sei.OMEGA = spec.get("omega", 1.0)
    sim.softening = spec.get("softening", 0.0)
    if "theta2" in spec:
        sim.opening_angle2 = spec["theta2"]
    if "N_active" in spec:
        sim.N_active = spec["N_active"]
    return sim


def state(sim):
    """(id, x,y,z,vx,vy,vz,m,r) for every slot."""
    return [(p.hash.value, p.x, p.y, p.z, p.vx, p.vy, p.vz, p.m, p.r) for p in (sim.particles[i] for i in range(sim.N))]


def drain(sim):
    for _ in range(10000):
        try:
            sim.process_messages()
            return
        except RuntimeError as e:
            if "outside of" not in str(e):
                raise


def in_box(box, p):
    return all(not (p[a] > box.box[a] / 2.) and not (p[a] < -box.box[a] / 2.) for a in range(3))


# ------------------------------------------------------------------------------------------------ tree histories
def check_tree(sim, box, where, res, spec, grav=False, want_dump=False):
    """dump the tree + particle positions and run the checker / the model comparison."""
    forest = L.dump_tree(sim)
    if forest is None and sim.N == 0:
        return None, []          # no particle, no tree (e.g. restored after every particle left an open box): nothing to account for
    if forest is None:
        raise Fail("tree:missing", "tree_root is NULL although the tree is in use (%s)" % where)
    part = [(p.x, p.y, p.z, p.m) for p in (sim.particles[i] for i in range(sim.N))]
    N = sim.N
    res["stats"]["tree_checks"] += 1
    errs = L.wfb_py(box, part, N, forest)
    if errs:
        raise Fail("tree:wf", "tree not well formed %s: %s" % (where, errs[0]), {"errors": errs[:5]})
    # particles' back pointers: particles[pt].c is the leaf that holds pt
    def backp(c):
        if c is None:
            return
        if c["pt"] >= 0 and c["pt"] < N:
            pc = sim.particles[c["pt"]].c
            if pc != c["addr"]:
                raise Fail("tree:back_pointer", "particles[%d].c = %r but the leaf holding it is at %r %s" % (c["pt"], pc, c["addr"], where))
        for d in c["oct"]:
            backp(d)
    for c in forest:
        backp(c)
    tie = L.on_border(box, part, forest)
    if not tie:
        try:
            mf = L.model_build(box, part)
            same = all(L.same_shape(a, b) for a, b in zip(mf, forest))
        except L.ModelError as e:
            same = False
        res["stats"]["shape_checks"] += 1
        if not same:
            raise Fail("tree:shape", "library tree differs from the functional model (insertion of particles 0..N-1 into an empty tree) %s" % where)
    else:
        res["stats"]["ties"] += 1
    res["stats"]["maxdepth"] = max(res["stats"]["maxdepth"], max([L.depth_of(c) for c in forest] + [0]))
    res["stats"]["cells"] += sum(L.count_cells(c) for c in forest)
    if grav:
        for ri, c in enumerate(forest):
            if c is None:
                continue
            exp = L.gravity_data_py(c, part)
            got = []
            L.gravity_dump_preorder(c, got)
            res["stats"]["grav_checks"] += 1
            for a, b in zip(exp, got):
                if any(not (x == y or (x != x and y != y)) for x, y in zip(a, b)):
                    raise Fail("tree:gravity_data", "cell m/mx/my/mz differ from the replayed sums %s: %r vs %r" % (where, b, a))
            # exact-rational judge of the root cell: m = sum m_i, m*com = sum m_i x_i
            lv = []
            L.leaves_of(c, lv)
            from fractions import Fraction as F
            M = sum(F(part[q][3]) for q in lv)
            if M > 0:
                tol = F(2.0 ** -52) * 4 * (len(lv) + 8)
                if abs(F(c["m"]) - M) > tol * M:
                    raise Fail("tree:gravity_data", "root cell mass %r is not the sum of its contents %r %s" % (c["m"], float(M), where))
                for a, key in enumerate(("mx", "my", "mz")):
                    S = sum(F(part[q][3]) * F(part[q][a]) for q in lv)
                    Sabs = sum(F(part[q][3]) * abs(F(part[q][a])) for q in lv)
                    if abs(F(c[key]) * M - S) > tol * Sabs + F(5e-324):
                        raise Fail("tree:gravity_data", "root cell %s*m %r is not sum m_i x_i %r %s" % (key, c[key], float(S / M), where))
    if want_dump and len(res["dumps"]) < spec.get("maxdumps", 2) and N <= 60:
        res["dumps"].append({"pos": [[hx(v) for v in p] for p in part], "forest": strip(forest), "grav": grav, "tie": tie,
                             "rs": hx(spec["rs"]), "n": spec["n"], "N": N, "where": where})
    return forest, part


def drain_if_none(sim, spec):
    if spec["boundary"] == "none":
        drain(sim)


def snapshot_pre(sim):
    """state before reb_simulation_update_tree: cells with addresses, particles with back pointers and NaN flags"""
    f = L.dump_tree(sim)
    def s(c):
        if c is None:
            return None
        return {"g": [hx(c["x"]), hx(c["y"]), hx(c["z"]), hx(c["w"])], "pt": c["pt"], "addr": c["addr"], "oct": [s(d) for d in c["oct"]]}
    parts = []
    for i in range(sim.N):
        q = sim.particles[i]
        parts.append({"x": hx(q.x), "y": "nan" if math.isnan(q.y) else hx(q.y), "z": hx(q.z), "c": q.c or 0})
    return {"forest": [s(c) for c in f], "parts": parts, "N": sim.N}


def strip(forest):
    def s(c):
        if c is None:
            return None
        return {"g": [hx(c["x"]), hx(c["y"]), hx(c["z"]), hx(c["w"])], "m": [hx(c["m"]), hx(c["mx"]), hx(c["my"]), hx(c["mz"])],
                "pt": c["pt"], "oct": [s(d) for d in c["oct"]]}
    return [s(c) for c in forest]


def direct_acc(st, G, soft):
    n = len(st); out = []
    for i in range(n):
        ax = ay = az = 0.0; scale = 0.0
        for j in range(n):
            if i == j:
                continue
            dx = st[i][1] - st[j][1]; dy = st[i][2] - st[j][2]; dz = st[i][3] - st[j][3]
            r2 = dx * dx + dy * dy + dz * dz + soft * soft
            pre = -G * st[j][7] / (r2 * math.sqrt(r2))
            ax += pre * dx; ay += pre * dy; az += pre * dz
            scale += abs(pre) * math.sqrt(dx * dx + dy * dy + dz * dz)
        out.append((ax, ay, az, scale))
    return out


def run_tree(spec):
    rng = random.Random(spec["seed"])
    res = {"fail": None, "dumps": [], "upd": [], "bcases": [], "stats": {"tree_checks": 0, "shape_checks": 0, "ties": 0, "maxdepth": 0, "cells": 0,
                                                             "grav_checks": 0, "root_crossings": 0, "removed": 0, "added": 0, "merged": 0,
                                                             "theta0": 0, "coll_pairs": 0, "lost_open": 0, "steps": 0}}
    box = L.Box(spec["rs"], *spec["n"])
    sim = setup(spec)
    taken = set()
    nid = [0]

    def add_one():
        p = rand_pos(rng, box, taken)
        taken.add(p)
        nid[0] += 1
        vel = spec["vel"]
        sim.add(m=rng.uniform(0.1, 1.0) * spec.get("mscale", 1e-3), x=p[0], y=p[1], z=p[2],
                vx=rng.gauss(0, vel), vy=rng.gauss(0, vel), vz=rng.gauss(0, vel) * (0.3 if spec["n"][2] == 1 else 1.0),
                r=spec.get("radius", 0.0) * rng.uniform(0.5, 1.5), hash=nid[0])
        return nid[0]
    expected = set()
    for i in range(spec["N"]):
        expected.add(add_one())
    cur = {"where": "", "midfail": None, "first_resolve": True, "pairs": []}
    use_tree = sim.gravity == "tree" or sim.collision in ("tree", "linetree")
    gravtree = sim.gravity == "tree"
    step_no = [0]

    def midstep(simp):
        if cur["midfail"] is not None:
            return
        try:
            s = simp.contents
            if use_tree:
                wd = rng.random() < 0.2
                check_tree(s, box, "mid-step %d (after tree update%s)" % (step_no[0], " + gravity data" if gravtree else ""), res, spec,
                           grav=gravtree, want_dump=wd)
            if gravtree and spec.get("theta2", 0.25) == 0.0:
                st = [(0, p.x, p.y, p.z, 0, 0, 0, p.m) for p in (s.particles[i] for i in range(s.N))]
                acc = direct_acc(st, s.G, s.softening)
                res["stats"]["theta0"] += 1
                for i in range(s.N):
                    p = s.particles[i]
                    tol = 1e-12 * (acc[i][3] + 1e-300) * (s.N + 8)
                    if abs(p.ax - acc[i][0]) > tol or abs(p.ay - acc[i][1]) > tol or abs(p.az - acc[i][2]) > tol or p.ax != p.ax:
                        raise Fail("tree:gravity_theta0", "tree gravity with opening_angle2=0 differs from the direct sum for particle %d: (%r,%r,%r) vs (%r,%r,%r)"
                                   % (i, p.ax, p.ay, p.az, acc[i][0], acc[i][1], acc[i][2]))
        except Fail as f:
            cur["midfail"] = f
        except Exception as e:
            cur["midfail"] = Fail("harness", "exception in mid-step check: %r" % (e,))
    sim.additional_forces = midstep

    recorder = spec.get("collision_resolve") == "record"
    if sim.collision != "none":
        if recorder:
            def resolve(simp, col):
                try:
                    s = simp.contents
                    if cur["first_resolve"]:
                        cur["first_resolve"] = False
                    cur["pairs"].append((col.p1, col.p2))
                except Exception as e:
                    cur["midfail"] = Fail("harness", "exception in resolve: %r" % (e,))
                return 0
            sim.collision_resolve = resolve
        else:
            sim.collision_resolve = "merge"

    try:
        for step in range(spec["steps"]):
            step_no[0] = step
            res["stats"]["steps"] += 1
            # user operations between steps
            if spec["boundary"] == "none":
                drain(sim)     # pending "outside of simulation box" messages of the previous step (designed drop)
            if rng.random() < spec.get("p_remove", 0.0) and sim.N > 4:
                idx = rng.randrange(sim.N)
                if not math.isnan(sim.particles[idx].y):
                    h = sim.particles[idx].hash.value
                    sim.remove(index=idx, keep_sorted=False)
                    expected.discard(h); res["stats"]["removed"] += 1
            if rng.random() < spec.get("p_add", 0.0) and sim.N < 80:
                expected.add(add_one()); res["stats"]["added"] += 1
            # error paths of add while a tree exists: the request must be refused AND leave the simulation unchanged; the history continues
            # (done near the end of a history, so that an open defect on this path does not hide the rest of the history)
            if use_tree and step == spec["steps"] - 3 and spec.get("badadd", True) and sim.N > 0:
                kind_bad = rng.choice(["same_coordinates", "outside_box"])
                if sim.collision != "none" and not recorder:
                    # merging moves a particle to the centre of mass AFTER the tree update of the collision search: until the next update the tree
                    # is legitimately stale for it, the insertion is routed to another cell and cannot see the coincidence: no refusal can be demanded
                    kind_bad = "outside_box"
                live_idx = [i for i in range(sim.N) if not math.isnan(sim.particles[i].y)]
                if live_idx:
                    src = sim.particles[rng.choice(live_idx)]
                    if kind_bad == "same_coordinates":
                        bx_, by_, bz_ = src.x, src.y, src.z
                    else:
                        bx_, by_, bz_ = src.x, box.box[1] * rng.choice([0.75, -3.2]), src.z
                    if kind_bad == "same_coordinates" or spec["boundary"] != "none" or True:
                        n_before = sim.N
                        raised = None
                        try:
                            sim.add(m=1e-9, x=bx_, y=by_, z=bz_, hash=999999)
                        except RuntimeError as e:
                            raised = str(e)
                        res["stats"]["bad_adds"] = res["stats"].get("bad_adds", 0) + 1
                        if raised is None:
                            raise Fail("tree:bad_add_accepted", "add of a particle with %s (%r,%r,%r) was not refused" % (kind_bad.replace("_", " "), bx_, by_, bz_))
                        if sim.N != n_before:
                            raise Fail("tree:refused_add_changes_N", "sim.add refused a particle (%s: %s) but N went %d -> %d: the rejected particle is in particles[] and in no leaf"
                                       % (kind_bad.replace("_", " "), raised, n_before, sim.N))
            before = {s[0]: s for s in state(sim)}
            mass_before = math.fsum(s[7] for s in before.values() if not math.isnan(s[2]))
            rb_before = {s[0]: box.rootbox((s[1], s[2], s[3])) for s in before.values() if not math.isnan(s[2]) and in_box(box, (s[1], s[2], s[3]))}
            cur["pairs"] = []; cur["first_resolve"] = True
            try:
                sim.step()
            except RuntimeError as e:
                # boundary 'none' + tree: a particle that leaves the box is dropped by the tree update with this message (designed)
                if not (spec["boundary"] == "none" and "outside of" in str(e)):
                    raise
                drain(sim)
            if cur["midfail"] is not None:
                raise cur["midfail"]
            # what the collision search saw: tree updated at the beginning of the search; positions unchanged since
            if sim.collision == "tree" and recorder:
                st = state(sim)
                exp_pairs = set()
                for i in range(len(st)):
                    for j in range(len(st)):
                        if i == j:
                            continue
                        dx = st[i][1] - st[j][1]; dy = st[i][2] - st[j][2]; dz = st[i][3] - st[j][3]
                        r2 = dx * dx + dy * dy + dz * dz
                        rp = st[i][8] + st[j][8]
                        if r2 > rp * rp:
                            continue
                        if (st[i][4] - st[j][4]) * dx + (st[i][5] - st[j][5]) * dy + (st[i][6] - st[j][6]) * dz > 0:
                            continue
                        exp_pairs.add((i, j))
                got = set(cur["pairs"])
                res["stats"]["coll_pairs"] += len(exp_pairs)
                if got != exp_pairs or len(got) != len(cur["pairs"]):
                    raise Fail("tree:collision_pairs", "tree collision search reports %s, brute force finds %s (step %d)"
                               % (sorted(cur["pairs"])[:8], sorted(exp_pairs)[:8], step))
            if use_tree and (spec.get("explicit_update", True) or sim.collision == "tree"):
                pre = None
                if spec.get("explicit_update", True):
                    if len(res["upd"]) < spec.get("maxupd", 2) and sim.N <= 60 and rng.random() < 0.35:
                        pre = snapshot_pre(sim)
                    clib.reb_simulation_update_tree(ctypes.byref(sim))
                    drain_if_none(sim, spec)
                    if pre is not None:
                        post_f = L.dump_tree(sim)
                        pre["post_forest"] = strip(post_f)
                        pre["post_pos"] = [[hx(sim.particles[i].x), hx(sim.particles[i].y), hx(sim.particles[i].z)] for i in range(sim.N)]
                        pre["rs"] = hx(spec["rs"]); pre["n"] = spec["n"]; pre["boxed"] = spec["boundary"] != "none"
                        if not any(math.isnan(sim.particles[i].y) for i in range(sim.N)):
                            res["upd"].append(pre)
                # for the collision tree without explicit update the tree was updated by the search; merges may have
                # flagged particles afterwards: the checker below is only run when no particle is flagged
                flagged = any(math.isnan(sim.particles[i].y) for i in range(sim.N))
                if not flagged:
                    check_tree(sim, box, "after step %d (%s)" % (step, "explicit reb_simulation_update_tree" if spec.get("explicit_update", True) else "tree as updated by the collision search"),
                               res, spec, grav=False, want_dump=rng.random() < 0.25)
            # ---- accounting
            after = state(sim)
            live = [s for s in after if not math.isnan(s[2])]
            ids = [s[0] for s in live]
            if len(set(ids)) != len(ids):
                raise Fail("tree:conservation", "a particle occurs twice after step %d" % step)
            if spec["boundary"] in ("periodic", "shear", "open"):
                for s in live:
                    if not in_box(box, (s[1], s[2], s[3])):
                        raise Fail("boundary:in_box", "particle id %d at (%r,%r,%r) outside the box after step %d (boundary %s)" % (s[0], s[1], s[2], s[3], step, spec["boundary"]))
            merging = sim.collision != "none" and not recorder
            if spec["boundary"] == "open" and not merging and len(live) != len(after):
                # the particles flagged by the end-of-step boundary check must be gone when the step returns
                raise Fail("boundary:open_flagged", "open boundary with a tree: %d particle(s) flagged for removal (y=NaN) are still in particles[0..N-1] "
                           "after step %d returned (N=%d)" % (len(after) - len(live), step, sim.N))
            if spec["boundary"] == "open" or (spec["boundary"] == "none" and use_tree):
                if not set(ids) <= expected:
                    raise Fail("tree:conservation", "unknown particle ids %s after step %d" % (sorted(set(ids) - expected)[:5], step))
                res["stats"]["lost_open"] += len(expected) - len(ids)
                if not merging and spec.get("gravity", "none") == "none" and spec["boundary"] == "open":
                    # exact oracle: leapfrog drift replay; removal iff outside at the mid-step check (tree in use) or at the end
                    for h in expected:
                        s = before[h]
                        if math.isnan(s[2]):
                            continue
                        hd = 0.5 * spec["dt"]
                        mid = (s[1] + hd * s[4], s[2] + hd * s[5], s[3] + hd * s[6])
                        end = (mid[0] + hd * s[4], mid[1] + hd * s[5], mid[2] + hd * s[6])
                        gone = (use_tree and not in_box(box, mid)) or not in_box(box, end)
                        if gone != (h not in ids):
                            raise Fail("boundary:open", "open boundary: particle id %d mid %r end %r should be %s but is %s after step %d"
                                       % (h, mid, end, "removed" if gone else "kept", "absent" if h not in ids else "present", step))
                expected = set(ids)
            elif merging:
                if not set(ids) <= expected:
                    raise Fail("tree:conservation", "unknown particle ids after step %d" % step)
                res["stats"]["merged"] += len(expected) - len(ids)
                expected = set(ids)
                mass_after = math.fsum(s[7] for s in live)
                if abs(mass_after - mass_before) > 1e-12 * mass_before:
                    raise Fail("tree:conservation", "total mass changed from %r to %r in step %d (merging, periodic box)" % (mass_before, mass_after, step))
            else:
                if set(ids) != expected:
                    raise Fail("tree:conservation", "particles lost or gained in step %d: missing %s, unexpected %s (N=%d)"
                               % (step, sorted(expected - set(ids))[:5], sorted(set(ids) - expected)[:5], sim.N))
            for s in live:
                if s[0] in rb_before and box.rootbox((s[1], s[2], s[3])) != rb_before[s[0]]:
                    res["stats"]["root_crossings"] += 1
    except Fail as f:
        res["fail"] = {"key": f.key, "what": f.what, "detail": f.detail, "step": step_no[0]}
    except RuntimeError as e:
        res["fail"] = {"key": "tree:error", "what": "library raised: %s" % e, "step": step_no[0]}
    return res


# ------------------------------------------------------------------------------------------------ boundary histories (no tree)
def run_boundary(spec):
    rng = random.Random(spec["seed"])
    res = {"fail": None, "dumps": [], "bcases": [], "stats": {"steps": 0, "wraps": 0, "multiwraps": 0, "removed": 0, "radial_wraps": 0}}
    box = L.Box(spec["rs"], *spec["n"])
    sim = setup(spec)
    twin_spec = dict(spec, boundary="none")
    twin = setup(twin_spec)
    N = spec["N"]
    for i in range(N):
        p = rand_pos(rng, box, set())
        v = [rng.gauss(0, spec["vel"]) for _ in range(3)]
        for s in (sim, twin):
            s.add(m=1.0, x=p[0], y=p[1], z=p[2], vx=v[0], vy=v[1], vz=v[2], hash=i + 1)
    bx, by, bz = box.box
    try:
        for step in range(spec["steps"]):
            res["stats"]["steps"] += 1
            # twin := current state
            while twin.N > 0:
                twin.remove(index=twin.N - 1, keep_sorted=False) if twin.N > 1 else twin.remove(index=0)
            st = state(sim)
            for s in st:
                twin.add(m=s[7], x=s[1], y=s[2], z=s[3], vx=s[4], vy=s[5], vz=s[6], hash=s[0])
            twin.t = sim.t
            nact0 = sim.N_active
            sim.step(); twin.step()
            un = state(twin)         # unwrapped
            wr = state(sim)
            if spec["boundary"] in ("periodic", "shear"):
                if len(wr) != len(un) or [s[0] for s in wr] != [s[0] for s in un]:
                    raise Fail("boundary:count", "particle count/order changed by %s boundaries in step %d: %d -> %d" % (spec["boundary"], step, len(un), len(wr)))
                omega = spec.get("omega", 1.0)
                t = sim.t
                if spec["boundary"] == "shear":
                    op1 = -math.fmod(-1.5 * omega * bx * t + by / 2., by) - by / 2.
                    om1 = -math.fmod(1.5 * omega * bx * t - by / 2., by) + by / 2.
                for u_, w_ in zip(un, wr):
                    if not in_box(box, (w_[1], w_[2], w_[3])):
                        raise Fail("boundary:in_box", "particle id %d at (%r,%r,%r) outside the box after step %d (boundary %s; unwrapped (%r,%r,%r))"
                                   % (w_[0], w_[1], w_[2], w_[3], step, spec["boundary"], u_[1], u_[2], u_[3]))
                    kx = round((u_[1] - w_[1]) / bx)
                    tolx = 1e-13 * (abs(u_[1]) + bx)
                    if abs(u_[1] - kx * bx - w_[1]) > tolx:
                        raise Fail("boundary:" + spec["boundary"], "x changed by a non-integer number of box lengths: %r -> %r (L=%r) step %d" % (u_[1], w_[1], bx, step))
                    kz = round((u_[3] - w_[3]) / bz)
                    if abs(u_[3] - kz * bz - w_[3]) > 1e-13 * (abs(u_[3]) + bz):
                        raise Fail("boundary:" + spec["boundary"], "z changed by a non-integer number of box lengths: %r -> %r (L=%r) step %d" % (u_[3], w_[3], bz, step))
                    ysh = u_[2]
                    if spec["boundary"] == "shear":
                        ysh = u_[2] + (kx * op1 if kx >= 0 else (-kx) * om1)
                        dvy = 1.5 * omega * bx
                        if abs(w_[5] - (u_[5] + kx * dvy)) > 1e-13 * (abs(u_[5]) + abs(kx * dvy)):
                            raise Fail("boundary:shear", "vy %r -> %r is not shifted by k*3/2*OMEGA*Lx with k=%d radial wraps (step %d)" % (u_[5], w_[5], kx, step))
                        if kx != 0:
                            res["stats"]["radial_wraps"] += 1
                    else:
                        if w_[5] != u_[5]:
                            raise Fail("boundary:periodic", "velocity changed by the periodic wrap")
                    ky = round((ysh - w_[2]) / by)
                    if abs(ysh - ky * by - w_[2]) > 1e-12 * (abs(ysh) + by + abs(u_[2])):
                        raise Fail("boundary:" + spec["boundary"], "y changed by a non-integer number of box lengths (after the shear offset): %r -> %r (L=%r) step %d" % (u_[2], w_[2], by, step))
                    if w_[4] != u_[4] or w_[6] != u_[6]:
                        raise Fail("boundary:" + spec["boundary"], "vx/vz changed by the wrap")
                    nw = abs(kx) + abs(ky) + abs(kz)
                    res["stats"]["wraps"] += 1 if nw else 0
                    res["stats"]["multiwraps"] += 1 if max(abs(kx), abs(ky), abs(kz)) > 1 else 0
                if len(res["bcases"]) < spec.get("maxcases", 3):
                    if spec["boundary"] == "periodic":
                        res["bcases"].append({"kind": "periodic", "box": [hx(bx), hx(by), hx(bz)],
                                              "in": [[hx(s[1]), hx(s[2]), hx(s[3])] for s in un],
                                              "out": [hx(v) for s in wr for v in (s[1], s[2], s[3])]})
                    else:
                        res["bcases"].append({"kind": "shear", "box": [hx(bx), hx(by), hx(bz)], "op1": hx(op1), "om1": hx(om1), "omega": hx(omega),
                                              "in": [[hx(s[1]), hx(s[2]), hx(s[3]), hx(s[5])] for s in un],
                                              "out": [hx(v) for s in wr for v in (s[1], s[2], s[3], s[5])]})
            else:   # open, no tree: the survivors and their order are those of the removal loop
                arr = [s for s in un]
                i = 0
                n = len(arr)
                nact = nact0
                # reference removal loop: transcription of reb_boundary_check + the keep_sorted=0, no-tree branch of
                # reb_simulation_remove_particle as of /repo 95ccee5: ONE move (last particle -> removed slot) whatever N_active is,
                # then N_active is clamped to N; N==1 shortcut: N=0 and N_active-- if index<N_active.
                while i < n:
                    p = arr[i]
                    if not in_box(box, (p[1], p[2], p[3])):
                        if n == 1:
                            n = 0; arr = []
                            if i < nact:
                                nact -= 1
                            break
                        n -= 1
                        arr[i] = arr[n]
                        arr = arr[:n]
                        if nact > n:
                            nact = n
                        continue
                    i += 1
                if sim.N_active != nact:
                    raise Fail("boundary:open_nactive", "open boundary step %d: N_active %d -> %d, removal loop gives %d (N %d -> %d)"
                               % (step, nact0, sim.N_active, nact, len(un), sim.N))
                exp_ids = [s[0] for s in arr]
                got_ids = [s[0] for s in wr]
                inb = sorted(s[0] for s in un if in_box(box, (s[1], s[2], s[3])))
                if sorted(got_ids) != inb:
                    raise Fail("boundary:open", "open boundary step %d: survivors %s but the particles inside the box are %s" % (step, sorted(got_ids), inb))
                if got_ids != exp_ids:
                    raise Fail("boundary:open_order", "open boundary step %d: survivor order %s, removal loop gives %s" % (step, got_ids, exp_ids))
                res["stats"]["removed"] += len(un) - len(wr)
                if len(res["bcases"]) < spec.get("maxcases", 3) and len(un) > 0 and len(wr) > 0:
                    res["bcases"].append({"kind": "open", "box": [hx(bx), hx(by), hx(bz)],
                                          "in": [[hx(float(s[0])), hx(s[1]), hx(s[2]), hx(s[3])] for s in un],
                                          "out": [hx(v) for s in wr for v in (float(s[0]), s[1], s[2], s[3])]})
                if sim.N < 3:
                    break
    except Fail as f:
        res["fail"] = {"key": f.key, "what": f.what, "detail": f.detail, "step": res["stats"]["steps"]}
    except RuntimeError as e:
        res["fail"] = {"key": "boundary:error", "what": "library raised: %s" % e}
    return res



# ------------------------------------------------------------------------------------------------ restore histories
def run_restore(spec):
    """build, step, restore through copy / file / archive snapshot / pickle, and continue BOTH: the restored simulation must
    have a well-formed tree over all its particles right away and after every step, and must behave like the never-restored
    twin (same particles bit for bit, same reported collision pairs)."""
    import pickle, tempfile
    rng = random.Random(spec["seed"])
    res = {"fail": None, "dumps": [], "upd": [], "bcases": [], "stats": {"tree_checks": 0, "shape_checks": 0, "ties": 0, "maxdepth": 0, "cells": 0,
                                                                         "grav_checks": 0, "steps": 0, "restores": 0, "coll_pairs": 0}}
    box = L.Box(spec["rs"], *spec["n"])
    sim = setup(spec)
    taken = set()
    for i in range(spec["N"]):
        p = rand_pos(rng, box, taken); taken.add(p)
        vel = spec["vel"]
        sim.add(m=rng.uniform(0.1, 1.0) * spec.get("mscale", 1e-3), x=p[0], y=p[1], z=p[2], vx=rng.gauss(0, vel), vy=rng.gauss(0, vel),
                vz=rng.gauss(0, vel) * (0.3 if spec["n"][2] == 1 else 1.0), r=spec.get("radius", 0.0) * rng.uniform(0.5, 1.5), hash=i + 1)
    use_tree = sim.gravity == "tree" or sim.collision in ("tree", "linetree")
    pairs = {"twin": [], "rest": []}

    def recorder(name):
        def resolve(simp, col):
            s = simp.contents
            pairs[name].append((s.particles[col.p1].hash.value, s.particles[col.p2].hash.value))   # by identity: the array order may differ
            return 0
        return resolve
    if sim.collision != "none":
        sim.collision_resolve = recorder("twin")
    tmpd = tempfile.mkdtemp(prefix="c15r_")
    fn = os.path.join(tmpd, "s.bin")
    try:
        for k in range(spec["steps_before"]):
            sim.step(); res["stats"]["steps"] += 1
            if spec["method"] == "archive" and k >= spec["steps_before"] - 2:
                sim.save_to_file(fn)
        m = spec["method"]
        if m == "copy":
            rest = sim.copy()
        elif m == "file":
            sim.save_to_file(fn, delete_file=True); rest = rebound.Simulation(fn)
        elif m == "archive":
            if spec["steps_before"] == 0:
                sim.save_to_file(fn)
            sa = rebound.Simulationarchive(fn); rest = sa[-1]
        else:
            rest = pickle.loads(pickle.dumps(sim))
        res["stats"]["restores"] += 1
        if rest.collision != "none":
            rest.collision_resolve = recorder("rest")
        if rest.N != sim.N:
            raise Fail("restore:count", "restored simulation (%s) has N=%d, original N=%d" % (m, rest.N, sim.N))
        if use_tree:
            check_tree(rest, box, "right after restore by %s (gravity=%s collision=%s)" % (m, spec.get("gravity"), spec.get("collision")), res, spec)
        for k in range(spec["steps_after"]):
            pairs["twin"] = []; pairs["rest"] = []
            sim.step(); rest.step(); res["stats"]["steps"] += 1
            if use_tree:
                clib.reb_simulation_update_tree(ctypes.byref(sim)); clib.reb_simulation_update_tree(ctypes.byref(rest))
                if not any(math.isnan(rest.particles[i].y) for i in range(rest.N)):
                    check_tree(rest, box, "restored by %s, step %d after restore (gravity=%s collision=%s)" % (m, k, spec.get("gravity"), spec.get("collision")), res, spec)
            # the particle ORDER may legitimately differ (the in-place update of the twin starts from the tree of the mid-step
            # positions, the restored one from a freshly built tree): compare by identity
            a = sorted(state(sim)); b = sorted(state(rest))
            if len(a) != len(b):
                raise Fail("restore:diverges", "N differs %d steps after restore by %s: twin %d, restored %d" % (k + 1, m, len(a), len(b)))
            for x, y in zip(a, b):
                if any(not (u_ == v_ or (u_ != u_ and v_ != v_)) for u_, v_ in zip(x, y)):
                    raise Fail("restore:diverges", "particle id %d differs %d steps after restore by %s: twin %r, restored %r (gravity=%s collision=%s)"
                               % (x[0], k + 1, m, x[1:7], y[1:7], spec.get("gravity"), spec.get("collision")))
            res["stats"]["coll_pairs"] += len(pairs["twin"])
            if sorted(pairs["twin"]) != sorted(pairs["rest"]):
                raise Fail("restore:collisions", "collision search (%s) %d steps after restore by %s reports %s, the never-restored twin %s"
                           % (spec.get("collision"), k + 1, m, sorted(pairs["rest"])[:6], sorted(pairs["twin"])[:6]))
    except Fail as f:
        res["fail"] = {"key": f.key, "what": f.what, "detail": f.detail, "step": res["stats"]["steps"]}
    except RuntimeError as e:
        res["fail"] = {"key": "restore:error", "what": "library raised: %s" % e}
    finally:
        import shutil
        shutil.rmtree(tmpd, ignore_errors=True)
    return res


# ------------------------------------------------------------------------------------------------ public operations that move particles
def run_ops(spec):
    """every public operation that moves particles OUTSIDE of a step while a tree exists: move_to_com, move_to_hel, rotate,
    sim += / -= / *=, multiply, direct particle edits + update_tree(), convert_particle_units.  After move_to_com (which
    maintains boundary + tree itself) and after direct edits + sim.update_tree() the invariants are checked immediately;
    after the others (the library leaves the tree alone) they are checked after the next step.  Invariants: N conserved by
    identity (periodic/shear), positions inside the box, every particle in exactly one leaf of a containing cell."""
    rng = random.Random(spec["seed"])
    res = {"fail": None, "dumps": [], "upd": [], "bcases": [], "stats": {"tree_checks": 0, "shape_checks": 0, "ties": 0, "maxdepth": 0, "cells": 0,
                                                                         "grav_checks": 0, "steps": 0, "ops": 0}}
    box = L.Box(spec["rs"], *spec["n"])
    sim = setup(spec)
    if spec.get("units"):
        sim.units = ("AU", "yr", "Msun")
        sim.configure_box(spec["rs"], *spec["n"])
    taken = set()
    off = [rng.uniform(-0.3, 0.3) * box.box[a] for a in range(3)]         # an off-centre centre of mass
    for i in range(spec["N"]):
        while True:
            p = tuple(min(max(off[a] * rng.random() + rng.uniform(-0.5, 0.5) * box.box[a], -box.box[a] / 2. * 0.999), box.box[a] / 2. * 0.999) for a in range(3))
            if p not in taken:
                break
        taken.add(p)
        if rng.random() < 0.3:        # near a border
            a = rng.randrange(3); p = list(p); p[a] = rng.choice([-1, 1]) * box.box[a] / 2. * rng.uniform(0.97, 0.9999); p = tuple(p)
        vel = spec["vel"]
        sim.add(m=rng.uniform(0.1, 1.0) * spec.get("mscale", 1e-3), x=p[0], y=p[1], z=p[2], vx=rng.gauss(0, vel), vy=rng.gauss(0, vel),
                vz=rng.gauss(0, vel), r=spec.get("radius", 0.0), hash=i + 1)
    if sim.collision != "none":
        sim.collision_resolve = lambda s_, c_: 0
    conserve = spec["boundary"] in ("periodic", "shear")
    ids0 = sorted(p.hash.value for p in sim.particles)
    opname = "setup"

    def verify(where, tree_now):
        ids = sorted(sim.particles[i].hash.value for i in range(sim.N) if not math.isnan(sim.particles[i].y))
        if conserve and ids != ids0:
            raise Fail("ops:particle_lost", "after %s: particles %s are gone (N %d -> %d, boundary %s, gravity=%s collision=%s)"
                       % (where, sorted(set(ids0) - set(ids))[:6], len(ids0), sim.N, spec["boundary"], spec.get("gravity"), spec.get("collision")))
        if not set(ids) <= set(ids0):
            raise Fail("ops:particle_lost", "after %s: unknown particles" % where)
        for i in range(sim.N):
            q = sim.particles[i]
            if spec["boundary"] != "none" and not math.isnan(q.y) and not in_box(box, (q.x, q.y, q.z)):
                raise Fail("ops:outside_box", "after %s: particle id %d at (%r,%r,%r) is outside the box" % (where, q.hash.value, q.x, q.y, q.z))
        if tree_now and not any(math.isnan(sim.particles[i].y) for i in range(sim.N)):
            check_tree(sim, box, "after " + where, res, spec)
    try:
        for k in range(spec["nops"]):
            if sim.N < 2:
                break            # (open box: everything left)
            opname = rng.choice(spec["ops"])
            res["stats"]["ops"] += 1
            immediate = False
            if opname == "move_to_com":
                sim.move_to_com(); immediate = True
            elif opname == "move_to_hel":
                sim.move_to_hel()
            elif opname == "rotate":
                sim.rotate(rebound.Rotation(angle=rng.uniform(-3, 3), axis=[rng.gauss(0, 1), rng.gauss(0, 1), rng.gauss(0, 1) + 0.1]))
            elif opname in ("iadd", "isub"):
                other = sim.copy()
                other.multiply(rng.uniform(0.0, 0.3), rng.uniform(0.0, 0.3))
                if opname == "iadd":
                    sim += other
                else:
                    sim -= other
            elif opname == "imul":
                sim *= rng.uniform(0.7, 1.6)
            elif opname == "multiply":
                sim.multiply(rng.uniform(0.7, 1.5), rng.uniform(0.5, 1.5))
            elif opname == "edit":
                for i in rng.sample(range(sim.N), max(1, sim.N // 3)):
                    q = sim.particles[i]
                    q.x = rng.uniform(-0.5, 0.5) * box.box[0] * 0.999; q.y = rng.uniform(-0.5, 0.5) * box.box[1] * 0.999; q.z = rng.uniform(-0.5, 0.5) * box.box[2] * 0.999
                sim.update_tree(); immediate = True
            elif opname == "units":
                sim.convert_particle_units("AU", "yr2pi", "Msun") if k % 2 == 0 else sim.convert_particle_units("AU", "yr", "Msun")
            drain_msgs(sim)
            if immediate:
                verify(opname, True)
            for s in range(rng.choice([1, 1, 2])):
                sim.step(); res["stats"]["steps"] += 1
            drain_msgs(sim)
            verify("%s + step" % opname, True)
    except Fail as f:
        res["fail"] = {"key": f.key, "what": f.what, "detail": f.detail, "step": res["stats"]["steps"]}
    except RuntimeError as e:
        res["fail"] = {"key": "ops:error", "what": "library raised after %s: %s" % (opname, e)}
    return res


def drain_msgs(sim):
    sim.process_messages()


# ------------------------------------------------------------------------------------------------ edges of the quantified space
def run_edges(spec):
    """N = 0/1/2 with a tree, particles exactly on the box centre / root-box borders / the box border / cell centres (root sizes with exact
    geometry), many root boxes, remove + re-add at the same place, boundary 'none' with a tree, and every error path of add / remove taken once,
    after which the history continues.  Invariant after every operation + step: refused requests leave N unchanged, no NaN coordinates,
    every particle in exactly one leaf of a containing cell, N conserved by identity where nothing may be lost."""
    import itertools
    rng = random.Random(spec["seed"])
    res = {"fail": None, "dumps": [], "upd": [], "bcases": [], "stats": {"tree_checks": 0, "shape_checks": 0, "ties": 0, "maxdepth": 0, "cells": 0,
                                                                         "grav_checks": 0, "steps": 0, "edge_ops": 0, "refused": 0}}
    box = L.Box(spec["rs"], *spec["n"])
    rs = spec["rs"]
    sim = setup(spec)
    if sim.collision != "none":
        sim.collision_resolve = lambda s_, c_: 0
    nid = [0]
    expected = set()
    lossy = spec["boundary"] in ("open", "none")

    def add(x, y, z, v=(0., 0., 0.)):
        nid[0] += 1
        sim.add(m=1e-3 * rs ** 3, x=x, y=y, z=z, vx=v[0], vy=v[1], vz=v[2], r=spec.get("radius", 0.0), hash=nid[0])
        expected.add(nid[0])

    def verify(where):
        res["stats"]["edge_ops"] += 1
        msgs = []
        for _ in range(1000):
            try:
                sim.process_messages(); break
            except RuntimeError as e:
                msgs.append(str(e))
        bad = [m for m in msgs if not (lossy and "outside of" in m)]
        if bad:
            raise Fail("edges:error", "unexpected error message after %s: %s" % (where, bad[0]))
        ids = [sim.particles[i].hash.value for i in range(sim.N) if not math.isnan(sim.particles[i].y)]
        for i in range(sim.N):
            q = sim.particles[i]
            if not math.isnan(q.y) and any(v != v for v in (q.x, q.z, q.vx, q.vy, q.vz)):
                raise Fail("edges:nan", "after %s: particle id %d has NaN coordinates" % (where, q.hash.value))
        if len(set(ids)) != len(ids) or not set(ids) <= expected or (not lossy and set(ids) != expected):
            raise Fail("edges:particle_lost", "after %s: particles %s lost / %s unexpected (N=%d, boundary %s, gravity=%s collision=%s)"
                       % (where, sorted(expected - set(ids))[:5], sorted(set(ids) - expected)[:5], sim.N, spec["boundary"], spec.get("gravity"), spec.get("collision")))
        if lossy:
            expected.intersection_update(ids)
        if not any(math.isnan(sim.particles[i].y) for i in range(sim.N)):
            check_tree(sim, box, "after " + where, res, spec)

    def step(where, k=1):
        for _ in range(k):
            try:
                sim.step()
            except RuntimeError as e:
                if not (lossy and "outside of" in str(e)):
                    raise Fail("edges:error", "step after %s raised: %s" % (where, e))
            res["stats"]["steps"] += 1
        verify(where + " + step")

    def refused(where, fn, exc=(RuntimeError, ValueError, AttributeError, IndexError)):
        n0 = sim.N
        st0 = state(sim)
        try:
            fn()
            raise Fail("edges:not_refused", "%s was not refused (N %d -> %d)" % (where, n0, sim.N))
        except exc:
            pass
        res["stats"]["refused"] += 1
        if sim.N != n0 or [s[:4] for s in state(sim)] != [s[:4] for s in st0]:
            raise Fail("edges:refused_request_changed_state", "%s was refused but changed the simulation (N %d -> %d)" % (where, n0, sim.N))
        step(where)
    try:
        h = [box.box[a] / 2. for a in range(3)]
        vel = (0.3 * rs * spec["vel"], -0.2 * rs * spec["vel"], 0.1 * rs * spec["vel"])
        # ---- N = 0, 1, 2
        step("N=0"); step("N=0 again")
        add(0.0, 0.0, 0.0); step("N=1 at the box centre", 2)
        add(-0.25 * rs, 0.125 * rs, 0.0, vel); step("N=2", 2)
        h0 = sim.particles[0].hash.value      # (the tree update reorders the particle array)
        sim.remove(index=0, keep_sorted=False); expected.discard(h0); step("remove -> N=1", 2)
        sim.remove(index=0, keep_sorted=False); expected.clear(); step("remove the last particle -> N=0", 2)
        if sim.N != 0:
            raise Fail("edges:particle_lost", "N=%d after removing every particle" % sim.N)
        # ---- lattice of special coordinates: box centre, lower box border, root-box borders, cell centres (half-open on the upper side: the
        #      periodic images of the lower border are the same points)
        coords = []
        for a in range(3):
            vals = {0.0, -h[a]}
            for i in range(1, spec["n"][a]):
                vals.add(-h[a] + i * rs)
            vals.add(-h[a] + rs / 2.); vals.add(-h[a] + rs / 4.); vals.add(-h[a] + 3. * rs / 8.)
            if spec.get("upper_border"):
                vals.add(h[a])
            coords.append(sorted(v for v in vals if -h[a] <= v <= h[a]))
        pts = list(itertools.product(*coords))
        rng.shuffle(pts)
        for pnt in pts[:spec["npts"]]:
            add(pnt[0], pnt[1], pnt[2], vel if spec.get("moving") else (0., 0., 0.))
        verify("lattice added")
        step("lattice", 3)
        # ---- remove the only particle of a leaf and re-add a particle at the same place (before the tree is updated)
        # (not for a particle exactly on the upper box border: the flagged resident (y = NaN) and the new particle then agree on every octant
        #  = open finding tree:reinsert_on_cell_corner_unbounded_recursion, dedicated corner history)
        cand = [i for i in range(sim.N) if all(abs(v) != h[a] for a, v in enumerate((sim.particles[i].x, sim.particles[i].y, sim.particles[i].z)))]
        if sim.N >= 3 and cand:
            i = rng.choice(cand); q = sim.particles[i]; x, y, z, hq = q.x, q.y, q.z, q.hash.value
            sim.remove(index=i, keep_sorted=False); expected.discard(hq)
            add(x, y, z)
            step("remove + re-add at the same place", 2)
        # ---- every error path of add / remove once, then continue
        if sim.N >= 2:
            q0 = sim.particles[0]
            refused("add with the coordinates of an existing particle", lambda: sim.add(m=1e-9, x=q0.x, y=q0.y, z=q0.z, hash=777001))
            if spec["boundary"] != "none" or True:
                refused("add outside the box", lambda: sim.add(m=1e-9, x=0.0, y=3.7 * box.box[1], z=0.0, hash=777002))
            refused("add with a NaN coordinate", lambda: sim.add(m=1e-9, x=float("nan"), hash=777003))
            refused("remove index N", lambda: sim.remove(index=sim.N, keep_sorted=False))
            refused("remove index -1", lambda: sim.remove(index=-1, keep_sorted=False))
            refused("remove keep_sorted=True with a tree", lambda: sim.remove(index=0, keep_sorted=True))
            refused("remove an unknown hash", lambda: sim.remove(hash=424242))
            # the same particle removed twice before the tree update: one particle goes
            hq = sim.particles[1].hash.value
            sim.remove(index=1, keep_sorted=False)
            try:
                sim.remove(index=1, keep_sorted=False)
            except RuntimeError:
                pass
            expected.discard(hq)
            step("the same index removed twice", 2)
        # ---- remove everything at once, re-populate
        clib.reb_simulation_remove_all_particles(ctypes.byref(sim)); expected.clear()
        verify("remove_all_particles")
        step("remove_all_particles")
        add(0.125 * rs, -0.25 * rs, 0.0625 * rs, vel); add(-h[0], 0.0, 0.0, vel); add(0.0, -h[1], 0.25 * rs)
        step("re-populated", 3)
    except Fail as f:
        res["fail"] = {"key": f.key, "what": f.what, "detail": f.detail, "step": res["stats"]["steps"]}
    except RuntimeError as e:
        res["fail"] = {"key": "edges:error", "what": "library raised: %s" % e}
    return res


# ------------------------------------------------------------------------------------------------ near-coincident but DISTINCT particles
def run_near(spec):
    """Pairs of particles that differ by a tiny amount in one, two or three coordinates (the others identical): separations of one ulp, 2^-80,
    1e-20 and 1e-17 root sizes, subnormal; added directly, and produced by motion across cell borders (exact drift).  Expectation, derived from
    the model (C15_insert_accepts_distinct: with enough levels every particle that differs from every resident in at least one coordinate is
    accepted): every add is accepted, N and the identities are conserved, every particle sits in exactly one leaf of a containing cell."""
    rng = random.Random(spec["seed"])
    res = {"fail": None, "dumps": [], "upd": [], "bcases": [], "stats": {"tree_checks": 0, "shape_checks": 0, "ties": 0, "maxdepth": 0, "cells": 0,
                                                                         "grav_checks": 0, "steps": 0, "near_pairs": 0}}
    rs = spec["rs"]; box = L.Box(rs, *spec["n"])
    sim = setup(spec)
    if sim.collision != "none":
        sim.collision_resolve = lambda s_, c_: 0
    sep = spec["sep"]
    # binary64-resolution classes run into the open finding tree:cell_centre_rounding (cells as small as an ulp / a subnormal)
    fkey = "tree:cell_centre_rounding" if sep in ("ulp", "subnormal") else "near:distinct_particle_not_accounted"
    nid = [0]; expected = []

    def add(pt, v=(0., 0., 0.), what=""):
        nid[0] += 1
        n0 = sim.N
        try:
            sim.add(m=0.0, x=pt[0], y=pt[1], z=pt[2], vx=v[0], vy=v[1], vz=v[2], r=0.0, hash=nid[0])
        except RuntimeError as e:
            raise Fail(fkey if "same coordinates" not in str(e) or sep in ("ulp", "subnormal") else "near:distinct_particle_refused",
                       "sim.add refused a particle that differs from every particle in the tree (%s, separation class %s): %s" % (what, sep, e))
        if sim.N != n0 + 1:
            raise Fail("near:distinct_particle_refused", "sim.add did not add the particle (%s)" % what)
        expected.append(nid[0])

    def verify(where, update):
        if update:
            clib.reb_simulation_update_tree(ctypes.byref(sim))
        msgs = []
        for _ in range(100):
            try:
                sim.process_messages(); break
            except RuntimeError as e:
                msgs.append(str(e))
        ids = sorted(sim.particles[i].hash.value for i in range(sim.N))
        if msgs or ids != sorted(expected):
            raise Fail(fkey if not msgs or sep in ("ulp", "subnormal") else "near:distinct_particle_refused",
                       "%s (separation class %s): N=%d, missing ids %s, messages %s" % (where, sep, sim.N, sorted(set(expected) - set(ids))[:4], msgs[:1]))
        try:
            check_tree(sim, box, where, res, spec)
        except Fail as f:
            raise Fail(fkey, f.what, f.detail)
    try:
        # a few ordinary particles
        for i in range(4):
            add((rng.uniform(-0.45, 0.45) * box.box[0], rng.uniform(-0.45, 0.45) * box.box[1], rng.uniform(-0.45, 0.45) * box.box[2]), what="ordinary")
        u0 = rs * 2.0 ** -40
        pairs = []
        for k, mask in enumerate([(1, 0, 0), (0, 1, 0), (0, 0, 1), (1, 1, 0), (0, 1, 1), (1, 1, 1), (1, 0, 1)]):
            if sep == "subnormal":
                if k > 0:
                    break              # one pair at the origin (a second one would coincide)
                base = (0.0, 0.0, 0.0); mask = spec.get("mask", [1, 1, 1]); d = 5e-324
            else:
                base = ((3 + 2 * k) * u0, -(5 + 2 * k) * u0, (7 + 4 * k) * u0 * (1 if k % 2 else -1))
                d = {"ulp": None, "2^-80": rs * 2.0 ** -80, "1e-20": 1e-20 * rs, "1e-17": 1e-17 * rs}[sep]
            q = tuple((math.nextafter(base[a], math.inf) if d is None else base[a] + d) if mask[a] else base[a] for a in range(3))
            assert all((q[a] != base[a]) == bool(mask[a]) for a in range(3)), (base, q)
            pairs.append((base, q, mask))
        for base, q, mask in pairs:
            add(base, what="first of a pair"); add(q, what="second of a pair, differing in %d coordinate(s) %s" % (sum(mask), mask))
            res["stats"]["near_pairs"] += 1
        verify("near-coincident pairs added", False)
        verify("near-coincident pairs, tree update", True)
        for s in range(2):
            sim.step(); res["stats"]["steps"] += 1
        verify("near-coincident pairs after 2 steps", True)
        # produced by motion: a particle drifts across cell borders and stops next to a resting one (exact binary arithmetic)
        if sep not in ("ulp", "subnormal"):
            dt = sim.dt
            for k, mask in enumerate([(1, 0, 0), (1, 1, 1), (0, 1, 1)]):
                target = ((41 + 2 * k) * u0, (43 + 2 * k) * u0, -(47 + 2 * k) * u0)
                d = {"2^-80": rs * 2.0 ** -80, "1e-20": 1e-20 * rs, "1e-17": 1e-17 * rs}[sep]
                dest = tuple(target[a] + d if mask[a] else target[a] for a in range(3))
                v = tuple((rs * 2.0 ** -6 / dt) * (1 if a != 1 else -1) for a in range(3))      # dt*v = rs/64 exactly (dt is a power of two)
                start = tuple(dest[a] - dt * v[a] for a in range(3))
                if any(start[a] + 0.5 * dt * v[a] + 0.5 * dt * v[a] != dest[a] for a in range(3)):
                    continue            # not exactly reachable in binary64
                add(target, what="resting target"); add(start, v, what="moving towards the target")
                res["stats"]["near_pairs"] += 1
            sim.step(); res["stats"]["steps"] += 1
            for i in range(sim.N):
                q_ = sim.particles[i]; q_.vx = 0.0; q_.vy = 0.0; q_.vz = 0.0
            verify("a particle drifted across cell borders to a near-coincident position", True)
            sim.step(); res["stats"]["steps"] += 1
            verify("one more step", True)
    except Fail as f:
        res["fail"] = {"key": f.key, "what": f.what, "detail": f.detail, "step": res["stats"]["steps"]}
    except RuntimeError as e:
        res["fail"] = {"key": fkey, "what": "library raised (separation class %s): %s" % (sep, e)}
    return res


# ------------------------------------------------------------------------------------------------ history vs fresh
def run_hvf(spec):
    """A simulation whose tree / box has a history must behave like a FRESH simulation holding the same particles, time and settings:
    same forest (cells, counts, leaf indices) after a tree update, same accounting, and the same particles bit for bit after further steps."""
    rng = random.Random(spec["seed"])
    res = {"fail": None, "dumps": [], "upd": [], "bcases": [], "stats": {"tree_checks": 0, "shape_checks": 0, "ties": 0, "maxdepth": 0, "cells": 0,
                                                                         "grav_checks": 0, "steps": 0, "hvf": 0}}
    rs = spec["rs"]; box = L.Box(rs, *spec["n"])
    op = spec["op"]
    # every history in which the tree exists but is idle for a while belongs to the open finding (with open boundaries the boundary check itself
    # removes particles while the tree is idle)
    key = "tree:stale_tree_after_mode_switch" if op in ("tree_off_add_on", "tree_off_remove_on", "tree_off_on") else "hvf:differs_from_fresh"
    H = setup(spec)
    if H.collision != "none":
        H.collision_resolve = lambda s_, c_: 0
    taken = set(); nid = [0]; expected = set()

    def addp(sim):
        pt = rand_pos(rng, box, taken); taken.add(pt); nid[0] += 1
        sim.add(m=rng.uniform(0.2, 1.0) * 1e-3 * rs ** 3, x=pt[0], y=pt[1], z=pt[2], vx=rng.gauss(0, spec["vel"]), vy=rng.gauss(0, spec["vel"]),
                vz=rng.gauss(0, spec["vel"]), r=spec.get("radius", 0.0), hash=nid[0])
        expected.add(nid[0])

    def removep(sim):
        i = rng.randrange(sim.N); expected.discard(sim.particles[i].hash.value)
        sim.remove(index=i, keep_sorted=False)

    def steps(sim, k):
        for _ in range(k):
            sim.step(); res["stats"]["steps"] += 1
    try:
        for i in range(spec["N"]):
            addp(H)
        steps(H, 3)
        g0, c0, b0 = H.gravity, H.collision, H.boundary
        if op == "boundary_switch":
            H.boundary = "open" if b0 != "open" else "periodic"; steps(H, 2); H.boundary = b0; steps(H, 1)
        elif op in ("tree_off_on", "tree_off_add_on", "tree_off_remove_on"):
            H.gravity = "basic" if g0 == "tree" else g0
            H.collision = "direct" if c0 in ("tree", "linetree") else c0
            steps(H, 1)
            if op == "tree_off_add_on":
                addp(H)
            if op == "tree_off_remove_on":
                removep(H)
            steps(H, 2)
            H.gravity = g0; H.collision = c0
            steps(H, 1)
        elif op == "remove_readd":
            for _ in range(2):
                removep(H); addp(H)
            steps(H, 1)
        elif op == "copy":
            H = H.copy()
            if H.collision != "none":
                H.collision_resolve = lambda s_, c_: 0
        elif op == "restore":
            import tempfile
            d = tempfile.mkdtemp(prefix="c15r_"); fn = os.path.join(d, "s.bin"); H.save_to_file(fn, delete_file=True); H = rebound.Simulation(fn)
            if H.collision != "none":
                H.collision_resolve = lambda s_, c_: 0
            import shutil; shutil.rmtree(d, ignore_errors=True)
        elif op == "reconfigure_same":
            H.configure_box(rs, *spec["n"]); steps(H, 1)
        elif op == "error_once":
            q0 = H.particles[0]
            try:
                H.add(m=1e-9, x=q0.x, y=q0.y, z=q0.z)
            except RuntimeError:
                pass
            try:
                H.remove(index=H.N + 3, keep_sorted=False)
            except RuntimeError:
                pass
            steps(H, 1)
        res["stats"]["hvf"] += 1
        # ---- the fresh simulation: same settings, same particles in the same order, same time
        st = state(H)
        ids_now = set(s[0] for s in st if s[2] == s[2])
        lossy = spec["boundary"] == "open" or op == "boundary_switch"      # (the history passed through open boundaries)
        if (not lossy and ids_now != expected) or not ids_now <= expected:
            raise Fail(key, "after the history (%s) particles %s are gone / %s unexpected (N=%d, boundary %s, gravity=%s collision=%s)"
                       % (op, sorted(expected - ids_now)[:5], sorted(ids_now - expected)[:5], H.N, spec["boundary"], spec.get("gravity"), spec.get("collision")))
        if any(any(v != v for v in s[1:7]) for s in st):
            raise Fail(key, "after the history (%s) the simulation holds particles with NaN coordinates: N=%d" % (op, H.N))
        F = setup(spec)
        if F.collision != "none":
            F.collision_resolve = lambda s_, c_: 0
        for s in st:
            F.add(m=s[7], x=s[1], y=s[2], z=s[3], vx=s[4], vy=s[5], vz=s[6], r=s[8], hash=s[0])
        F.t = H.t
        clib.reb_simulation_update_tree(ctypes.byref(H)); clib.reb_simulation_update_tree(ctypes.byref(F))
        fH = L.dump_tree(H); fF = L.dump_tree(F)
        if [s[0] for s in state(H)] != [s[0] for s in state(F)]:
            raise Fail(key, "after a tree update the particle order of the simulation with a history (%s) differs from the fresh one" % op)
        def eq(a, b):
            if a is None or b is None:
                return a is None and b is None
            return (a["pt"], a["x"], a["y"], a["z"], a["w"]) == (b["pt"], b["x"], b["y"], b["z"], b["w"]) and all(eq(x, y) for x, y in zip(a["oct"], b["oct"]))
        if (fH is None) != (fF is None) or (fH is not None and not all(eq(a, b) for a, b in zip(fH, fF))):
            partH = [(s[1], s[2], s[3], s[7]) for s in state(H)]
            errs = L.wfb_py(box, partH, H.N, fH) if fH is not None else ["no tree"]
            raise Fail(key, "history (%s): the forest differs from the forest of a fresh simulation with the same particles (gravity=%s collision=%s boundary=%s); "
                            "checker on the old one: %s" % (op, spec.get("gravity"), spec.get("collision"), spec["boundary"], errs[:1]))
        for k in range(3):
            H.step(); F.step()
            a = sorted(state(H)); b = sorted(state(F))
            if len(a) != len(b) or any(any(not (u_ == v_ or (u_ != u_ and v_ != v_)) for u_, v_ in zip(x, y)) for x, y in zip(a, b)):
                raise Fail(key, "history (%s): %d step(s) later the particles differ from those of the fresh simulation (N %d vs %d, gravity=%s collision=%s)"
                           % (op, k + 1, len(a), len(b), spec.get("gravity"), spec.get("collision")))
    except Fail as f:
        res["fail"] = {"key": f.key, "what": f.what, "detail": f.detail, "step": res["stats"]["steps"]}
    except RuntimeError as e:
        res["fail"] = {"key": key, "what": "library raised (%s): %s" % (op, e)}
    return res

# ------------------------------------------------------------------------------------------------ corner cases (explicit coordinates)
def run_corner(spec):
    res = {"fail": None, "dumps": [], "bcases": [], "stats": {"steps": 0, "tree_checks": 0, "shape_checks": 0, "ties": 0, "maxdepth": 0, "cells": 0, "grav_checks": 0}}
    box = L.Box(spec["rs"], *spec["n"])
    sim = setup(spec)
    if "integrator" in spec:
        sim.integrator = spec["integrator"]
    for i, p in enumerate(spec["pts"]):
        sim.add(m=1e-3, x=p[0], y=p[1], z=p[2], vx=p[3] if len(p) > 3 else 0., vy=0., vz=0., hash=i + 1)
    if "ops" in spec:
        # scripted history: ["add", m, x, y, z] | ["remove", index] | ["step"]; the tree is checked after every step
        try:
            n_expected = 0
            for op in spec["ops"]:
                if op[0] == "add":
                    sim.add(m=op[1], x=op[2], y=op[3], z=op[4]); n_expected += 1
                elif op[0] == "orbit":
                    sim.add(m=op[1], a=op[2], f=op[3], r=op[4]); n_expected += 1
                elif op[0] == "coincide":        # particle op[2] is moved exactly onto particle op[1] (direct edit)
                    a_, b_ = sim.particles[op[1]], sim.particles[op[2]]
                    b_.x = a_.x; b_.y = a_.y; b_.z = a_.z
                elif op[0] == "update_capture":  # reb_simulation_update_tree with a pre/post record for the Coq update models
                    pre = snapshot_pre(sim)
                    clib.reb_simulation_update_tree(ctypes.byref(sim))
                    msgs = []
                    for _ in range(100):
                        try:
                            sim.process_messages(); break
                        except RuntimeError as e:
                            msgs.append(str(e))
                    post_f = L.dump_tree(sim)
                    pre["post_forest"] = strip(post_f)
                    pre["post_pos"] = [[hx(sim.particles[i].x), hx(sim.particles[i].y), hx(sim.particles[i].z)] for i in range(sim.N)]
                    pre["rs"] = hx(spec["rs"]); pre["n"] = spec["n"]; pre["boxed"] = spec["boundary"] != "none"
                    res.setdefault("upd", []).append(pre)
                    n_expected = sim.N if op[1:] == ["expect_drop"] and sim.N == n_expected - 1 and any("same coordinates" in m for m in msgs) else n_expected
                    if sim.N != n_expected:
                        raise Fail(spec["key"], "%s: update with two coincident particles: N=%d, messages %s" % (spec["what"], sim.N, msgs[:2]))
                    part = [(p.x, p.y, p.z, p.m) for p in (sim.particles[i] for i in range(sim.N))]
                    errs = L.wfb_py(box, part, sim.N, post_f)
                    if errs:
                        raise Fail(spec["key"], "%s: tree after the update: %s" % (spec["what"], errs[0]))
                elif op[0] == "move_to_hel":
                    sim.move_to_hel()
                elif op[0] == "move_to_com":
                    sim.move_to_com()
                elif op[0] == "resolve0":
                    sim.collision_resolve = lambda s_, c_: 0
                elif op[0] == "remove":
                    sim.remove(index=op[1], keep_sorted=False); n_expected -= 1
                else:
                    res["stats"]["steps"] += 1
                    sim.step()
                    clib.reb_simulation_update_tree(ctypes.byref(sim))
                    forest = L.dump_tree(sim)
                    part = [(p.x, p.y, p.z, p.m) for p in (sim.particles[i] for i in range(sim.N))]
                    res["stats"]["tree_checks"] += 1
                    errs = L.wfb_py(box, part, sim.N, forest) if forest is not None else (["tree missing"] if sim.N else [])
                    lv = []
                    for c in (forest or []):
                        L.leaves_of(c, lv)
                    if errs or sim.N != n_expected:
                        raise Fail(spec["key"], "%s: N=%d (expected %d), leaves %s: %s" % (spec["what"], sim.N, n_expected, lv, (errs or ["count"])[0]), {"errors": errs[:4]})
        except Fail as f:
            res["fail"] = {"key": f.key, "what": f.what, "detail": f.detail, "step": res["stats"]["steps"]}
        except RuntimeError as e:
            res["fail"] = {"key": spec["key"], "what": "%s: library raised: %s" % (spec["what"], e)}
        return res
    try:
        for step in range(spec["steps"]):
            res["stats"]["steps"] += 1
            if spec.get("step", True):
                sim.step()
            clib.reb_simulation_update_tree(ctypes.byref(sim))
            forest = L.dump_tree(sim)
            part = [(p.x, p.y, p.z, p.m) for p in (sim.particles[i] for i in range(sim.N))]
            res["stats"]["tree_checks"] += 1
            errs = L.wfb_py(box, part, sim.N, forest)
            if errs:
                raise Fail(spec["key"], "%s: %s" % (spec["what"], errs[0]), {"errors": errs[:4]})
            if sim.N != len(spec["pts"]):
                raise Fail(spec["key"], "%s: N changed to %d" % (spec["what"], sim.N))
    except Fail as f:
        res["fail"] = {"key": f.key, "what": f.what, "detail": f.detail, "step": res["stats"]["steps"]}
    except RuntimeError as e:
        res["fail"] = {"key": spec["key"], "what": "%s: library raised: %s" % (spec["what"], e)}
    return res


if __name__ == "__main__":
    spec = json.load(sys.stdin)
    r = {"tree": run_tree, "boundary": run_boundary, "corner": run_corner, "restore": run_restore, "ops": run_ops, "edges": run_edges, "near": run_near, "hvf": run_hvf}[spec["kind"]](spec)
    sys.stdout.write("\nC15RESULT " + json.dumps(r) + "\n")
