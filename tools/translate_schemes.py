#!/venv/bin/python
"""Regenerate coq/Gen/Schemes.v from the CURRENT $VERIF_REPO/src (default /repo): every coefficient table of the
composition integrators as exact integers (decimal TEXT of each literal * SC, SC = 24*10^60) and the operator
sequences that are hard-wired in the source (EOS switch arms, pre/post-processors, WHFast corrector call lists),
obtained by interpreting the C text of those functions in exact rational arithmetic.

Fail-closed: any statement, literal or shape this script does not understand -> exit 1 (the check then reports a
broken obligation).  No arguments.  Output is re-checked by Coq (coq/C01/Props.v) on every run, and the words are
compared with the calls the compiled library really makes (tools/c01.py, gdb trace).
"""
import os, re, sys
from fractions import Fraction as F

REPO = os.environ.get("VERIF_REPO", "/repo")
ROOT = os.path.dirname(os.path.dirname(os.path.abspath(__file__)))
OUT = os.path.join(ROOT, "coq", "Gen", "Schemes.v")
SC = 24 * 10 ** 60
MAXDIG = 60


def die(msg):
    sys.stderr.write("translate_schemes: " + msg + "\n")
    sys.exit(1)


def read(name):
    p = os.path.join(REPO, "src", name)
    if not os.path.exists(p):
        die("missing " + p)
    return open(p).read()


def strip_comments(s):
    s = re.sub(r"/\*.*?\*/", " ", s, flags=re.S)
    s = re.sub(r"//[^\n]*", " ", s)
    return s


LIT = re.compile(r"^[+-]?(\d+\.?\d*|\.\d+)$")


def lit(txt):
    """decimal text -> exact Fraction (no exponent forms are used by the tables; reject them)."""
    t = txt.strip()
    if not LIT.match(t):
        die("unsupported numeric literal %r" % txt)
    frac = t.split(".")[1] if "." in t else ""
    if len(frac) > MAXDIG:
        die("literal with more than %d decimals: %r" % (MAXDIG, txt))
    return F(t)


def scaled(q, what=""):
    v = F(q) * SC
    if v.denominator != 1:
        die("coefficient %s = %s is not representable with scale 24*10^60" % (what, q))
    return int(v)


def zs(n):
    return "(%d)" % n if n < 0 else "%d" % n


def zlist(xs):
    return "[" + "; ".join(zs(x) for x in xs) + "]%Z"


# ----------------------------------------------------------------------------- generic table readers
def scalar(src, name):
    m = re.findall(r"static\s+const\s+double\s+%s\s*=\s*([^;]+);" % re.escape(name), src)
    if len(m) != 1:
        die("scalar %s: %d definitions" % (name, len(m)))
    return lit(m[0])


def table1(src, name, n=None):
    m = re.findall(r"static\s+const\s+double\s+%s\s*\[\s*(\d+)\s*\]\s*=\s*\{([^{}]*)\}\s*;" % re.escape(name), src)
    if len(m) != 1:
        die("table %s: %d definitions" % (name, len(m)))
    dim, body = int(m[0][0]), m[0][1]
    items = [x for x in (y.strip() for y in body.split(",")) if x]
    if len(items) > dim or (n is not None and dim != n):
        die("table %s: dimension mismatch" % name)
    vals = [lit(x) for x in items]
    return vals + [F(0)] * (dim - len(vals))       # C zero-fills missing initialisers


def table2(src, name):
    m = re.findall(r"static\s+const\s+double\s+%s\s*\[\s*(\d+)\s*\]\s*\[\s*(\d+)\s*\]\s*=\s*\{((?:[^{};]|\{[^{}]*\})*)\}\s*;"
                   % re.escape(name), src)
    if len(m) != 1:
        die("table %s: %d definitions" % (name, len(m)))
    d1, d2, body = int(m[0][0]), int(m[0][1]), m[0][2]
    rows = re.findall(r"\{([^{}]*)\}", body)
    rest = re.sub(r"\{[^{}]*\}", "", body)
    if rest.replace(",", "").strip():
        die("table %s: unexpected text %r" % (name, rest.strip()[:40]))
    if len(rows) != d1:
        die("table %s: %d rows, declared %d" % (name, len(rows), d1))
    out = []
    for r in rows:
        items = [x for x in (y.strip() for y in r.split(",")) if x]
        if len(items) > d2:
            die("table %s: row too long" % name)
        vals = [lit(x) for x in items]
        out.append(vals + [F(0)] * (d2 - len(vals)))
    return out


def func_body(src, name):
    """text between the braces of the definition of function `name`."""
    ms = [m for m in re.finditer(r"\b%s\s*\(([^()]|\([^()]*\))*\)\s*\{" % re.escape(name), src)]
    if len(ms) != 1:
        die("function %s: %d definitions" % (name, len(ms)))
    i = ms[0].end()
    return src[i:match_brace(src, i - 1) ]


def match_brace(s, i):
    """s[i] == '{' -> index of the matching '}'."""
    if s[i] != "{":
        die("internal: expected '{'")
    depth = 0
    for j in range(i, len(s)):
        if s[j] == "{":
            depth += 1
        elif s[j] == "}":
            depth -= 1
            if depth == 0:
                return j
    die("unbalanced braces")


def enum_values(hdr, prefix):
    out = {}
    for m in re.finditer(r"\b(%s\w+)\s*=\s*(0x[0-9a-fA-F]+|\d+)\s*," % prefix, hdr):
        out[m.group(1)] = int(m.group(2), 0)
    return out


# ----------------------------------------------------------------------------- tiny interpreter for the EOS C text
class Tab(list):
    def __getitem__(self, i):
        i = F(i)
        if i.denominator != 1 or not (0 <= i < len(self)):
            die("table index out of range")
        return list.__getitem__(self, int(i))


NUM = re.compile(r"(?<![\w.])(\d+\.\d*|\.\d+|\d+)(?![\w.])")


def ev(expr, env):
    e = expr.strip()
    if not re.match(r"^[\w\s\.\+\-\*/\(\)\[\]<>=]+$", e) or "__" in e:
        die("unsupported expression %r" % expr)
    e = NUM.sub(lambda m: "Q('%s')" % m.group(1), e)
    try:
        return eval(e, {"__builtins__": {}, "Q": lit}, env)
    except SystemExit:
        raise
    except Exception as ex:
        die("cannot evaluate %r: %r" % (expr, ex))


def split_args(s):
    out, depth, cur = [], 0, ""
    for ch in s:
        if ch == "," and depth == 0:
            out.append(cur); cur = ""
        else:
            depth += ch in "([" ; depth -= ch in ")]"
            cur += ch
    out.append(cur)
    return [a.strip() for a in out]


class Interp:
    """Executes the restricted C of integrator_eos.c: calls, for, if, switch/case/break. Emits (op, args)."""
    def __init__(self, calls):
        self.calls = calls      # name -> handler(self, args(list of Fractions), env)
        self.out = []

    def run(self, text, env):
        s = text
        i = 0
        n = len(s)
        while True:
            while i < n and s[i] in " \t\r\n;":
                i += 1
            if i >= n:
                return None
            m = re.compile(r"for\s*\(\s*int\s+(\w+)\s*=\s*([\w\-\+]+)\s*;\s*\1\s*(<|>=)\s*([\w\-\+]+)\s*;\s*\1\s*(\+\+|--)\s*\)\s*\{").match(s, i)
            if m:
                j = match_brace(s, m.end() - 1)
                body = s[m.end():j]
                var, lo, cmp_, hi, step = m.groups()
                v = ev(lo, env); hi_v = ev(hi, env)
                if (cmp_, step) not in (("<", "++"), (">=", "--")):
                    die("unsupported loop shape")
                guard = 0
                while (v < hi_v) if cmp_ == "<" else (v >= hi_v):
                    e2 = dict(env); e2[var] = F(v)
                    r = self.run(body, e2)
                    if r == "break":
                        die("break inside for")
                    v += 1 if step == "++" else -1
                    guard += 1
                    if guard > 1000:
                        die("loop too long")
                i = j + 1
                continue
            m = re.compile(r"if\s*\(([^(){}]*)\)\s*\{").match(s, i)
            if m:
                j = match_brace(s, m.end() - 1)
                cond = ev(m.group(1), env)
                i2 = j + 1
                m2 = re.compile(r"\s*else\s*\{").match(s, i2)
                else_body = None
                if m2:
                    j2 = match_brace(s, m2.end() - 1)
                    else_body = s[m2.end():j2]
                    i2 = j2 + 1
                if cond:
                    r = self.run(s[m.end():j], env)
                elif else_body is not None:
                    r = self.run(else_body, env)
                else:
                    r = None
                if r == "break":
                    return "break"
                i = i2
                continue
            m = re.compile(r"switch\s*\(([^(){}]*)\)\s*\{").match(s, i)
            if m:
                j = match_brace(s, m.end() - 1)
                self.switch(s[m.end():j], ev(m.group(1), env), env)
                i = j + 1
                continue
            m = re.compile(r"break\s*;").match(s, i)
            if m:
                return "break"
            m = re.compile(r"(\w+)\s*=\s*([^;{}]+);").match(s, i)
            if m and m.group(1) in env.get("_assignable", ()):
                env[m.group(1)] = ev(m.group(2), env)
                i = m.end()
                continue
            m = re.compile(r"(\w+)\s*\(((?:[^();{}]|\([^();{}]*\))*)\)\s*;").match(s, i)
            if m and m.group(1) in self.calls:
                args = split_args(m.group(2))
                self.calls[m.group(1)](self, args, env)
                i = m.end()
                continue
            die("unsupported statement near %r" % s[i:i + 70])

    def switch(self, body, val, env):
        # split into labelled segments at top nesting level
        segs = []      # (labels, text)
        depth = 0; i = 0; n = len(body); cur_labels = []; cur_start = None
        pat = re.compile(r"\s*(case\s+(\w+)\s*:|default\s*:)")
        pos = 0
        pieces = []
        while pos < n:
            if body[pos] == "{":
                pos = match_brace(body, pos) + 1
                continue
            m = re.compile(r"(case\s+(\w+)\s*:|default\s*:)").match(body, pos)
            if m and (pos == 0 or not (body[pos - 1].isalnum() or body[pos - 1] == "_")):
                pieces.append((pos, m.end(), m.group(2) if m.group(2) else "default"))
                pos = m.end()
                continue
            pos += 1
        if not pieces or body[:pieces[0][0]].strip():
            die("switch: text before first case")
        # execute with fall-through semantics
        start = None
        for k, (p0, p1, lab) in enumerate(pieces):
            if lab != "default" and lab not in env:
                die("unknown case label " + lab)
            if lab != "default" and env[lab] == val:
                start = k; break
        if start is None:
            for k, (p0, p1, lab) in enumerate(pieces):
                if lab == "default":
                    start = k
        if start is None:
            return
        for k in range(start, len(pieces)):
            end = pieces[k + 1][0] if k + 1 < len(pieces) else n
            r = self.run(body[pieces[k][1]:end], env)
            if r == "break":
                return
        return


# ----------------------------------------------------------------------------- EOS
EOS_TYPES = ["LF", "LF4", "LF6", "LF8", "LF4_2", "LF8_6_4", "PLF7_6_4", "PMLF4", "PMLF6"]


def eos(hdr):
    src = strip_comments(read("integrator_eos.c"))
    en = enum_values(hdr, "REB_EOS_")
    if sorted(en) != sorted("REB_EOS_" + t for t in EOS_TYPES):
        die("EOS enum changed: %s" % sorted(en))
    tabs = {}
    for nme in ["lf4_a", "lf4_2_a"]:
        tabs[nme] = scalar(src, nme)
    for nme, n in [("lf6_a", 5), ("lf8_a", 9), ("lf8_6_4_a", 4), ("lf8_6_4_b", 4), ("pmlf6_a", 2), ("pmlf6_b", 2),
                   ("pmlf6_c", 2), ("pmlf6_z", 6), ("pmlf6_y", 6), ("pmlf6_v", 6), ("pmlf4_y", 3), ("pmlf4_z", 3),
                   ("plf7_6_4_a", 2), ("plf7_6_4_b", 2), ("plf7_6_4_z", 6), ("plf7_6_4_y", 6)]:
        tabs[nme] = Tab(table1(src, nme, n))
    base = dict(tabs)
    base.update({k: F(v) for k, v in en.items()})

    pre = func_body(src, "reb_integrator_eos_preprocessor")
    post = func_body(src, "reb_integrator_eos_postprocessor")
    shell0 = func_body(src, "reb_integrator_eos_drift_shell0")
    part2 = func_body(src, "reb_integrator_eos_part2")
    sync = func_body(src, "reb_integrator_eos_synchronize")

    def emit(letter):
        def h(self, args, env):
            if args[0] != "r":
                die("first argument is not r")
            vals = [ev(a, env) for a in args[1:]]
            if letter == "A":
                if len(vals) != 1: die("drift arity")
                self.out.append(("A", vals[0], F(0)))
            else:
                if len(vals) != 2: die("interaction arity")
                self.out.append(("B", vals[0], vals[1]))
        return h

    def prepost(which, level):
        def h(self, args, env):
            # (r, dt, type, drift_step, interaction_step)
            if len(args) != 5 or args[0] != "r":
                die("pre/postprocessor call shape")
            dtv = ev(args[1], env)
            typ = ev(args[2].replace("reos->", ""), env)
            exp = ("reb_integrator_eos_drift_shell%d" % level, "reb_integrator_eos_interaction_shell%d" % level)
            if (args[3], args[4]) != exp:
                die("pre/postprocessor called with unexpected step functions %s" % (args[3:],))
            e2 = dict(base); e2.update({"dt": dtv, "type": typ})
            sub = Interp({"drift_step": emit("A"), "interaction_step": emit("B")})
            sub.run(pre if which == "pre" else post, e2)
            self.out += sub.out
        return h

    # ---- inner scheme: reb_integrator_eos_drift_shell0(r, _dt) with _dt = n, i.e. n sub-steps of size dt = 1
    m = re.match(r"\s*struct\s+reb_integrator_eos\s*\*\s*const\s+reos\s*=\s*&\(r->ri_eos\);\s*const\s+int\s+n\s*=\s*reos->n;\s*"
                 r"const\s+double\s+dt\s*=\s*_dt\s*/\s*n\s*;", shell0)
    if not m:
        die("drift_shell0 prologue changed")
    shell0_rest = shell0[m.end():].replace("reos->", "")
    inner = {}
    for t in EOS_TYPES:
        for n in (1, 2, 3):
            it = Interp({"reb_integrator_eos_drift_shell1": emit("A"), "reb_integrator_eos_interaction_shell1": emit("B"),
                         "reb_integrator_eos_preprocessor": prepost("pre", 1),
                         "reb_integrator_eos_postprocessor": prepost("post", 1)})
            env = dict(base); env.update({"dt": F(1), "n": F(n), "phi1": F(en["REB_EOS_" + t])})
            it.run(shell0_rest, env)
            inner[(t, n)] = it.out

    # ---- outer scheme: part2
    m = re.match(r"\s*struct\s+reb_integrator_eos\s*\*\s*const\s+reos\s*=\s*&\(r->ri_eos\);\s*const\s+double\s+dt\s*=\s*r->dt\s*;", part2)
    if not m:
        die("eos part2 prologue changed")
    rest = part2[m.end():]
    k = rest.find("reos->is_synchronized = 0;")
    if k < 0:
        die("eos part2: is_synchronized = 0 not found")
    tail = re.sub(r"\s+", " ", rest[k:]).strip()
    if not tail.startswith("reos->is_synchronized = 0; if (reos->safe_mode){ reb_integrator_eos_synchronize(r); } r->t+=r->dt; r->dt_last_done = r->dt;"):
        die("eos part2 epilogue changed: %r" % tail[:120])
    core = rest[:k].replace("reos->", "").replace("r->dt", "dt")
    core = re.sub(r"\bdouble\s+dtfac\s*=", "dtfac =", core)
    outer = {}
    for t in EOS_TYPES:
        for synced in (1, 0):
            it = Interp({"reb_integrator_eos_drift_shell0": emit("A"), "reb_integrator_eos_interaction_shell0": emit("B"),
                         "reb_integrator_eos_preprocessor": prepost("pre", 0)})
            env = dict(base); env.update({"dt": F(1), "phi0": F(en["REB_EOS_" + t]), "is_synchronized": F(synced),
                                          "_assignable": ("dtfac",)})
            it.run(core, env)
            outer[(t, synced)] = it.out
    # ---- synchronize
    m = re.match(r"\s*struct\s+reb_integrator_eos\s*\*\s*const\s+reos\s*=\s*&\(r->ri_eos\);\s*const\s+double\s+dt\s*=\s*r->dt\s*;"
                 r"\s*if\s*\(\s*reos->is_synchronized\s*==\s*0\s*\)\s*\{", sync)
    if not m:
        die("eos synchronize prologue changed")
    j = match_brace(sync, m.end() - 1)
    if sync[j + 1:].strip():
        die("eos synchronize: trailing text")
    body = sync[m.end():j]
    if not re.search(r"reos->is_synchronized\s*=\s*1\s*;\s*$", body):
        die("eos synchronize epilogue changed")
    body = re.sub(r"reos->is_synchronized\s*=\s*1\s*;\s*$", "", body).replace("reos->", "").replace("r->dt", "dt")
    syn = {}
    for t in EOS_TYPES:
        it = Interp({"reb_integrator_eos_drift_shell0": emit("A"), "reb_integrator_eos_postprocessor": prepost("post", 0)})
        env = dict(base); env.update({"dt": F(1), "phi0": F(en["REB_EOS_" + t])})
        it.run(body, env)
        syn[t] = it.out
    return en, tabs, inner, outer, syn


def word_text(ops, what):
    """ops: list of (letter, y, v). Returns Coq list (bool*Z); kicks with v != 0 cannot be expressed -> None."""
    if any(v != 0 for _, _, v in ops):
        return None
    return "[" + "; ".join("(%s, %s)" % ("false" if l == "A" else "true", zs(scaled(y, what))) for l, y, _ in ops) + "]"


def word3_text(ops, what):
    return "[" + "; ".join("(%s, %s, %s)" % ("false" if l == "A" else "true", zs(scaled(y, what)), zs(scaled(v * 24, what)))
                           for l, y, v in ops) + "]"


# ----------------------------------------------------------------------------- SABA
def saba(hdr):
    src = strip_comments(read("integrator_saba.c"))
    en = enum_values(hdr, "REB_SABA_")
    c = table2(src, "reb_saba_c"); d = table2(src, "reb_saba_d")
    cc = table1(src, "reb_saba_cc")
    body = func_body(src, "reb_saba_stages")
    m = re.match(r"\s*switch\s*\(\s*type\s*\)\s*\{(.*)\}\s*$", body, re.S)
    if not m:
        die("reb_saba_stages shape changed")
    stages = {}
    pend = []
    for tok in re.finditer(r"case\s+(\w+)\s*:|return\s+(\d+)\s*;|default\s*:", m.group(1)):
        if tok.group(1):
            pend.append(tok.group(1))
        elif tok.group(2) is not None:
            for p in pend:
                if p not in en:
                    die("unknown SABA type " + p)
                stages[en[p]] = int(tok.group(2))
            pend = []
    left = re.sub(r"case\s+\w+\s*:|return\s+\d+\s*;|default\s*:", "", m.group(1)).strip()
    if left:
        die("reb_saba_stages: unexpected text %r" % left[:40])
    if sorted(stages) != sorted(en.values()):
        die("reb_saba_stages does not cover all types")
    return en, c, d, cc, stages


# ----------------------------------------------------------------------------- JANUS
def janus():
    src = strip_comments(read("integrator_janus.c"))
    out = []
    for m in re.finditer(r"static\s+struct\s+reb_janus_scheme\s+(\w+)\s*=\s*\{\s*\.order\s*=\s*(\d+)\s*,\s*\.stages\s*=\s*(\d+)\s*,"
                         r"\s*\.gamma\s*=\s*\{([^{}]*)\}\s*\}\s*;", src):
        g = [lit(x) for x in (y.strip() for y in m.group(4).split(",")) if x]
        if len(g) > 17:
            die("janus gamma too long")
        out.append((m.group(1), int(m.group(2)), int(m.group(3)), g + [F(0)] * (17 - len(g))))
    if len(out) != len(re.findall(r"struct\s+reb_janus_scheme\s+\w+\s*=", src)) or not out:
        die("janus: scheme definitions not understood")
    # which scheme is selected for which order (both part1 and part2 must agree)
    sel = {}
    for fn in ("reb_integrator_janus_part1", "reb_integrator_janus_part2"):
        b = func_body(src, fn)
        pairs = re.findall(r"case\s+(\d+)\s*:\s*s\s*=\s*(\w+)\s*;\s*break\s*;", b)
        if not pairs:
            die("janus: order switch not understood")
        d = {int(o): nme for o, nme in pairs}
        if sel and sel != d:
            die("janus: part1 and part2 select different schemes")
        sel = d
    byname = {nme: (o, s, g) for nme, o, s, g in out}
    res = []
    for o, nme in sorted(sel.items()):
        if nme not in byname:
            die("janus: unknown scheme " + nme)
        res.append((o, nme) + byname[nme])
    # gg(): the mirror rule, checked textually
    gg = re.sub(r"\s+", "", func_body(src, "gg"))
    if gg != "if(stage<(s.stages+1)/2){returns.gamma[stage];}else{returns.gamma[(s.stages-1-stage)%17];}":
        die("janus gg() changed: " + gg)
    return res


# ----------------------------------------------------------------------------- WHFast correctors
def whfast():
    src = strip_comments(read("integrator_whfast.c"))
    names = re.findall(r"static\s+const\s+double\s+(reb_whfast_corrector\w+)\s*=", src)
    vals = {n: scalar(src, n) for n in names}
    body = func_body(src, "reb_whfast_apply_corrector")
    m = re.match(r"\s*const\s+double\s+dt\s*=\s*r->dt\s*;", body)
    if not m:
        die("apply_corrector prologue changed")
    def zcall(self, args, env):
        if len(args) != 3 or args[0] != "r":
            die("corrector_Z call shape")
        self.out.append((ev(args[1], env), ev(args[2], env)))
    corr = {}
    for order in (3, 5, 7, 11, 17):
        for inv in (1, -1):
            it = Interp({"reb_whfast_corrector_Z": zcall})
            env = dict(vals); env.update({"dt": F(1), "inv": F(inv), "order": F(order)})
            it.run(body[m.end():], env)
            if not it.out:
                die("corrector order %d empty" % order)
            corr[(order, inv)] = it.out
    # corrector_Z: K(a) I(-b) K(-2a) I(b) K(a) for Jacobi and barycentric
    zb = func_body(src, "reb_whfast_corrector_Z")
    calls = re.findall(r"reb_whfast_(kepler|interaction)_step\s*\(\s*r\s*,\s*([^()]*?)\s*\)\s*;", zb)
    want = [("kepler", "a"), ("interaction", "-b"), ("kepler", "-2.*a"), ("interaction", "b"), ("kepler", "a")]
    if calls != want + want:
        die("reb_whfast_corrector_Z changed: %s" % calls)
    return vals, corr


# ----------------------------------------------------------------------------- leapfrog
def leapfrog():
    src = strip_comments(read("integrator_leapfrog.c"))
    p1 = re.sub(r"\s+", "", func_body(src, "reb_integrator_leapfrog_part1"))
    p2 = re.sub(r"\s+", "", func_body(src, "reb_integrator_leapfrog_part2"))
    d1 = re.findall(r"particles\[i\]\.([xyz])\+=([\d.]+)\*dt\*particles\[i\]\.v\1;", p1)
    k2 = re.findall(r"particles\[i\]\.v([xyz])\+=dt\*particles\[i\]\.a\1;", p2)
    d2 = re.findall(r"particles\[i\]\.([xyz])\+=([\d.]+)\*dt\*particles\[i\]\.v\1;", p2)
    if [a for a, _ in d1] != ["x", "y", "z"] or k2 != ["x", "y", "z"] or [a for a, _ in d2] != ["x", "y", "z"]:
        die("leapfrog shape changed")
    if len(set(c for _, c in d1)) != 1 or len(set(c for _, c in d2)) != 1:
        die("leapfrog: components use different coefficients")
    if "+=" in re.sub(r"particles\[i\]\.v?[xyz]\+=[\d.\*]*dt\*particles\[i\]\.[va][xyz];|r->t\+=dt/2\.;", "", p1 + p2):
        die("leapfrog: unexpected update")
    if p2.find("vx+=dt") > p2.find(".x+="):
        die("leapfrog: kick no longer precedes the second drift")
    return [("A", lit(d1[0][1]), F(0)), ("B", F(1), F(0)), ("A", lit(d2[0][1]), F(0))]


# ----------------------------------------------------------------------------- IAS15 tables
def ias15():
    src = strip_comments(read("integrator_ias15.c"))
    return {n: table1(src, n, k) for n, k in [("h", 8), ("rr", 28), ("c", 21), ("d", 21), ("w", 8)]}


# ----------------------------------------------------------------------------- lazy implementer's kicks (force at displaced positions)
def lazy():
    """WHFast LAZY kernel:  q' = q + (dt*dt/D1) a(q);  kick dt with a(q');  reset q.
       SABA CL corrector:   q' = q + (dt*dt/D2) a(q);  v += cc*dt*K2 (a(q') - a(q));  reset q.   Returns (1/D1, 1, 1/D2, K2)."""
    wh = re.sub(r"\s+", "", strip_comments(read("integrator_whfast.c")))
    i = wh.find("caseREB_WHFAST_KERNEL_LAZY:{", wh.find("voidreb_integrator_whfast_part2"))
    if i < 0:
        die("lazy: LAZY kernel arm not found")
    arm = wh[i:wh.find("break;", i)]
    m = re.search(r"memcpy\(p_temp,p_j,r->N\*sizeof\(structreb_particle\)\);for\(unsignedinti=1;i<N;i\+\+\)\{constdoubleprefac1=dt\*dt/(\d+)\.;"
                  r"p_j\[i\]\.x\+=prefac1\*p_temp\[i\]\.ax;p_j\[i\]\.y\+=prefac1\*p_temp\[i\]\.ay;p_j\[i\]\.z\+=prefac1\*p_temp\[i\]\.az;\}"
                  r"reb_particles_transform_jacobi_to_inertial_pos\(particles,p_j,particles,N,N_active\);reb_simulation_update_acceleration\(r\);"
                  r"reb_whfast_interaction_step\(r,dt\);for\(unsignedinti=1;i<N;i\+\+\)\{p_j\[i\]\.x=p_temp\[i\]\.x;p_j\[i\]\.y=p_temp\[i\]\.y;p_j\[i\]\.z=p_temp\[i\]\.z;\}", arm)
    if not m:
        die("lazy: WHFast LAZY kernel arm changed")
    d1 = int(m.group(1))
    sa = re.sub(r"\s+", "", strip_comments(read("integrator_saba.c")))
    m = re.search(r"case2:\{.*?constdoubleprefac1=r->dt\*r->dt/(\d+)\.;for\(unsignedinti=1;i<N;i\+\+\)\{p_j\[i\]\.x\+=prefac1\*p_temp\[i\]\.ax;p_j\[i\]\.y\+=prefac1\*p_temp\[i\]\.ay;"
                  r"p_j\[i\]\.z\+=prefac1\*p_temp\[i\]\.az;\}reb_particles_transform_jacobi_to_inertial_pos\(particles,p_j,particles,N,N(?:_active)?\);reb_simulation_update_acceleration\(r\);"
                  r"reb_particles_transform_inertial_to_jacobi_acc\(particles,p_j,particles,N,N(?:_active)?\);constdoubleprefact=cc\*r->dt\*(\d+)\.;for\(unsignedinti=1;i<N;i\+\+\)\{"
                  r"p_j\[i\]\.vx\+=prefact\*\(p_j\[i\]\.ax-p_temp\[i\]\.ax\);p_j\[i\]\.vy\+=prefact\*\(p_j\[i\]\.ay-p_temp\[i\]\.ay\);p_j\[i\]\.vz\+=prefact\*\(p_j\[i\]\.az-p_temp\[i\]\.az\);"
                  r"p_j\[i\]\.x=p_temp\[i\]\.x;p_j\[i\]\.y=p_temp\[i\]\.y;p_j\[i\]\.z=p_temp\[i\]\.z;\}\}break;", sa)
    if not m:
        die("lazy: SABA lazy corrector changed")
    return F(1, d1), F(1), F(1, int(m.group(1))), F(int(m.group(2)))


# ----------------------------------------------------------------------------- MERCURIUS / TRACE switching weights
def switching():
    """pair weights of the two sub-Hamiltonians as affine functions a0 + a1*L of the changeover value L (MERCURIUS) and as
    0/1 functions of the close-encounter flag K (TRACE), read off the force loops of gravity.c (serial and OPENMP variants)."""
    g = re.sub(r"\s+", "", strip_comments(read("gravity.c")))
    i0 = g.find("caseREB_GRAVITY_MERCURIUS:"); i1 = g.find("caseREB_GRAVITY_TRACE:")
    if i0 < 0 or i1 < i0:
        die("switching: MERCURIUS/TRACE gravity branches not found")
    merc = g[i0:i1]
    k1 = merc.find("case1:")
    if k1 < 0 or not merc.startswith("caseREB_GRAVITY_MERCURIUS:{double(*_L)(conststructreb_simulation*constr,doubled,doubledcrit)=r->ri_mercurius.L;switch(r->ri_mercurius.mode){case0:"):
        die("switching: MERCURIUS mode switch changed")
    m0, m1 = merc[:k1], merc[k1:]
    def weights(txt, what):
        # every pair prefactor that involves the changeover value L
        forms = set(re.findall(r"prefact=(-?G\*(?:particles\[m?j\]\.m\*)?(?:L|\(1\.-L\)))/\(_r\*_r\*_r\)", txt))
        allL = len(re.findall(r"constdoubleL=_L\(r,_r,dcritmax\);", txt))
        used = len(re.findall(r"prefact=-?G\*(?:particles\[m?j\]\.m\*)?(?:L|\(1\.-L\))/\(_r\*_r\*_r\)", txt))
        if allL == 0 or allL != used:
            die("switching: %s: %d changeover evaluations but %d weighted prefactors" % (what, allL, used))
        kinds = set("1-L" if "(1.-L)" in f else "L" for f in forms)
        if len(kinds) != 1:
            die("switching: %s mixes weights %s" % (what, kinds))
        return (0, 1) if kinds == {"L"} else (1, -1)
    wk = weights(m0, "MERCURIUS mode 0"); we = weights(m1, "MERCURIUS mode 1")
    tr = g[i1:]
    a = tr.find("caseREB_TRACE_MODE_INTERACTION:"); b = tr.find("caseREB_TRACE_MODE_KEPLER:"); c = tr.find("caseREB_TRACE_MODE_NONE:")
    if not (0 <= a < b < c):
        die("switching: TRACE modes not found")
    ti, tk = tr[a:b], tr[b:c]
    ni = len(re.findall(r"if\(r->ri_trace\.current_Ks\[j\*N\+i\]\)continue;", ti)); nik = len(re.findall(r"current_Ks", ti))
    nk = len(re.findall(r"if\(!r->ri_trace\.current_Ks\[mj\*N\+mi\]\)continue;", tk)); nkk = len(re.findall(r"current_Ks", tk))
    if ni == 0 or ni != nik or nk == 0 or nk != nkk:
        die("switching: TRACE pair selection changed (%d/%d, %d/%d)" % (ni, nik, nk, nkk))
    # TRACE: interaction keeps the pairs with K = 0 (weight 1 - K), the Kepler/BS part those with K = 1 (weight K)
    return wk, we, (1, -1), (0, 1)


# ----------------------------------------------------------------------------- BS sequence / extrapolation (text checked)
def bs():
    src = strip_comments(read("integrator_bs.c"))
    m = re.findall(r"static\s+const\s+int\s+sequence_length\s*=\s*(\d+)\s*;", src)
    if len(m) != 1:
        die("bs: sequence_length")
    n = int(m[0])
    e = re.findall(r"ri_bs->sequence\[k\]\s*=\s*([^;]+);", src)
    if len(e) != 1:
        die("bs: sequence assignment not unique")
    mm = re.match(r"^\s*(\d+)\s*\*\s*k\s*\+\s*(\d+)\s*$", e[0])
    if not mm:
        die("bs: sequence formula %r" % e[0])
    seq = [int(mm.group(1)) * k + int(mm.group(2)) for k in range(n)]
    flat = re.sub(r"\s+", "", src)
    if "doubler=1./((double)ri_bs->sequence[j]);ri_bs->coeff[j]=r*r;" not in flat:
        die("bs: coeff[j] is no longer (1/sequence[j])^2")
    ext = re.sub(r"\s+", "", func_body(src, "extrapolate"))
    want = ("double*consty1=ode->y1;double*constC=ode->C;double**constD=ode->D;doubleconstlength=ode->length;"
            "for(intj=0;j<k;++j){doublexi=coeff[k-j-1];doublexim1=coeff[k];doublefacC=xi/(xi-xim1);doublefacD=xim1/(xi-xim1);"
            "for(inti=0;i<length;++i){doubleCD=C[i]-D[k-j-1][i];C[i]=facC*CD;D[k-j-1][i]=facD*CD;}}"
            "for(inti=0;i<length;++i){y1[i]=D[0][i];}for(intj=1;j<=k;++j){for(inti=0;i<length;++i){y1[i]+=D[j][i];}}")
    if ext != want:
        die("bs: extrapolate() changed")
    if "doubleCD=odes[s]->y1[i];odes[s]->C[i]=CD;odes[s]->D[k][i]=CD;" not in flat:
        die("bs: C/D initialisation changed")
    global BS_CONSTS
    BS_CONSTS = []
    for nme in ("stepControl1", "stepControl2", "stepControl3", "stepControl4", "orderControl1", "orderControl2", "stabilityReduction"):
        v = scalar(src, nme)
        BS_CONSTS.append((nme, v.numerator, v.denominator))
    if ("constdoubleexp=1.0/(2*k+1);doublefac=stepControl2/pow(error/stepControl1,exp);constdoublepower=pow(stepControl3,exp);"
        "fac=MAX(power/stepControl4,MIN(1./power,fac));ri_bs->optimal_step[k]=fabs(dt*fac);") not in flat:
        die("bs: optimal step formula changed")
    return seq


def main():
    hdr = strip_comments(read("rebound.h"))
    L = []
    w = L.append
    w("(* GENERATED by tools/translate_schemes.py from $VERIF_REPO/src -- do not edit.\n   Every number is (decimal text of the C literal) * SC with SC = 24*10^60; words are lists of\n   (letter, coefficient*SC), letter false = A (drift/Kepler), true = B (kick/interaction), for dt = 1. *)")
    w("From Coq Require Import List ZArith.\nImport ListNotations.\nOpen Scope Z_scope.\n")
    w("Definition gen_SC : Z := %d." % SC)
    # SABA
    en, c, d, cc, stages = saba(hdr)
    w("\n(* ---- integrator_saba.c *)")
    w("Definition saba_c : list (list Z) := [\n  %s]." % ";\n  ".join(zlist([scaled(x, "saba_c") for x in r]) for r in c))
    w("Definition saba_d : list (list Z) := [\n  %s]." % ";\n  ".join(zlist([scaled(x, "saba_d") for x in r]) for r in d))
    w("Definition saba_cc : list Z := %s." % zlist([scaled(x, "saba_cc") for x in cc]))
    w("(* (type code, reb_saba_stages(type)) *)")
    w("Definition saba_stages : list (Z * nat) := [%s]." % "; ".join("(%d, %d%%nat)" % (k, v) for k, v in sorted(stages.items())))
    w("Definition saba_type_names : list (Z * nat) := [%s]. (* %s *)" % ("; ".join("(%d, %d%%nat)" % (v, i) for i, (k, v) in enumerate(sorted(en.items(), key=lambda kv: kv[1]))),
                                                                      ", ".join(k for k, v in sorted(en.items(), key=lambda kv: kv[1]))))
    # EOS
    een, tabs, inner, outer, syn = eos(hdr)
    w("\n(* ---- integrator_eos.c: tables *)")
    for k, v in tabs.items():
        if isinstance(v, list):
            w("Definition eos_%s : list Z := %s." % (k, zlist([scaled(x, k) for x in v])))
        else:
            w("Definition eos_%s : Z := %s." % (k, zs(scaled(v, k))))
    w("\n(* words executed by reb_integrator_eos_part2 for is_synchronized = 1 (preprocessor + arm, no final drift),\n   for is_synchronized = 0 (dtfac = 2), by reb_integrator_eos_synchronize, and by drift_shell0(r, _dt = n) (n sub-steps of unit size) for n = 1..3 *)")
    plain = []
    for t in EOS_TYPES:
        for nm, ops in [("eos_outer_%s" % t, outer[(t, 1)]), ("eos_outer_unsync_%s" % t, outer[(t, 0)]), ("eos_sync_%s" % t, syn[t])] + \
                       [("eos_inner_%s_n%d" % (t, n), inner[(t, n)]) for n in (1, 2, 3)]:
            txt = None if t in ("PMLF4", "PMLF6") else word_text(ops, nm)
            if t not in ("PMLF4", "PMLF6") and txt is None:
                die("%s: a modified kick in a scheme that should not have one" % nm)
            if txt is None:
                w("(* %s uses the modified kick (jerk); triple = (letter, y*SC, 24*v*SC) *)" % nm)
                w("Definition %s_mk : list (bool * Z * Z) := %s." % (nm, word3_text(ops, nm)))
            else:
                w("Definition %s : list (bool * Z) := %s." % (nm, txt))
                plain.append(nm)
    w("Definition eos_type_codes : list (Z * nat) := [%s]. (* %s *)" % ("; ".join("(%d, %d%%nat)" % (een["REB_EOS_" + t], i) for i, t in enumerate(EOS_TYPES)), ", ".join(EOS_TYPES)))
    # JANUS
    w("\n(* ---- integrator_janus.c: (order, stages, gamma[17]) as selected by the order switch; gg() mirror rule checked textually *)")
    js = janus()
    w("Definition janus_schemes : list (nat * nat * list Z) := [\n  %s]." %
      ";\n  ".join("(%d%%nat, %d%%nat, %s) (* %s, .order = %d *)" % (o, s, zlist([scaled(x, "janus") for x in g]), nme, o2)
                   for (o, nme, o2, s, g) in js))
    for (o, nme, o2, s, g) in js:
        if o != o2:
            die("janus: scheme %s selected for order %d declares order %d" % (nme, o, o2))
    # WHFast
    vals, corr = whfast()
    w("\n(* ---- integrator_whfast.c: corrector tables and the (a, b) argument list of the reb_whfast_corrector_Z calls\n   made by reb_whfast_apply_corrector(r, inv, order) for dt = 1 *)")
    for k, v in vals.items():
        w("Definition %s : Z := %s." % (k.replace("reb_", ""), zs(scaled(v, k))))
    for (order, inv), lst in sorted(corr.items()):
        w("Definition whfast_corrector_calls_%d_%s : list (Z * Z) := [%s]." %
          (order, "fwd" if inv == 1 else "inv", "; ".join("(%s, %s)" % (zs(scaled(a, "corr")), zs(scaled(b, "corr"))) for a, b in lst)))
    # leapfrog
    w("\n(* ---- integrator_leapfrog.c *)")
    w("Definition leapfrog_word : list (bool * Z) := %s." % word_text(leapfrog(), "leapfrog"))
    # IAS15
    w("\n(* ---- integrator_ias15.c: Gauss-Radau tables *)")
    for k, v in ias15().items():
        w("Definition ias15_%s : list Z := %s." % (k, zlist([scaled(x, "ias15_" + k) for x in v])))
    wk, we, ti, tk = switching()
    w("\n(* ---- gravity.c: pair weights a0 + a1*x of the two sub-Hamiltonians; MERCURIUS: x = changeover value L(r) (mode 0 = kick, mode 1 = encounter),\n   TRACE: x = close-encounter flag K in {0,1} (interaction step, Kepler/BS step) *)")
    w("Definition mercurius_w_kick : Z * Z := (%d, %d).\nDefinition mercurius_w_encounter : Z * Z := (%d, %d).\nDefinition trace_w_interaction : Z * Z := (%d, %d).\nDefinition trace_w_kepler : Z * Z := (%d, %d)." % (wk + we + ti + tk))
    l1, l2, l3, l4 = lazy()
    w("\n(* ---- lazy implementer's kicks: WHFast LAZY kernel  q' = q + lazy_wh_disp dt^2 a(q), kick lazy_wh_kick dt with a(q');\n   SABA CL corrector  q' = q + lazy_saba_disp dt^2 a(q),  v += cc dt lazy_saba_factor (a(q') - a(q)) *)")
    w("Definition lazy_wh_disp : Z := %s.\nDefinition lazy_wh_kick : Z := %s.\nDefinition lazy_saba_disp : Z := %s.\nDefinition lazy_saba_factor : Z := %s."
      % (zs(scaled(l1)), zs(scaled(l2)), zs(scaled(l3)), zs(scaled(l4))))
    w("\n(* ---- integrator_bs.c: step-number sequence; coeff[j] = (1/sequence[j])^2 and the C/D recursion of extrapolate() are checked textually *)")
    w("Definition bs_sequence : list Z := %s." % zlist(bs()))
    w("(* %s as reduced fractions *)" % ", ".join(n for n, _, _ in BS_CONSTS))
    w("Definition bs_constants : list (Z * Z) := [%s]." % "; ".join("(%d, %d)" % (p_, q_) for _, p_, q_ in BS_CONSTS))
    isrc = strip_comments(read("integrator_ias15.c"))
    sf = scalar(isrc, "safety_factor")
    w("Definition ias15_safety_factor : Z * Z := (%d, %d)." % (sf.numerator, sf.denominator))
    os.makedirs(os.path.dirname(OUT), exist_ok=True)
    tmp = OUT + ".tmp%d" % os.getpid()
    with open(tmp, "w") as f:
        f.write("\n".join(L) + "\n")
    if os.path.exists(OUT) and open(OUT).read() == open(tmp).read():
        os.remove(tmp)          # unchanged: keep the mtime so that make does not rebuild
    else:
        os.replace(tmp, OUT)
    print("wrote %s (%d definitions)" % (OUT, sum(1 for x in L if x.startswith("Definition"))))


if __name__ == "__main__":
    main()
