"""C13 "history vs fresh": a simulation object that has been through a history must hand the same collisions to the resolver, and
end in the same state after resolving them, as a FRESH simulation holding exactly the same particles, time and settings."""
import ctypes, math
import c13_lib as L


def fresh_like(rebound, sim, cfg):
    """a new simulation with the particles (incl. hash, last_collision), time and collision settings of `sim`"""
    f = rebound.Simulation()
    f.integrator = "none"; f.gravity = "none"
    mode = {0: "none", 1: "direct", 2: "tree", 4: "line", 5: "linetree"}.get(int(sim._collision), None)
    if mode is None:
        return None
    f.collision = mode
    if cfg["periodic"] or mode in ("tree", "linetree"):
        f.configure_box(cfg["box"], 1, 1, 1)
    f.boundary = "periodic" if cfg["periodic"] else ("open" if mode in ("tree", "linetree") else "none")
    f.N_ghost_x, f.N_ghost_y, f.N_ghost_z = sim.N_ghost_x, sim.N_ghost_y, sim.N_ghost_z
    f.collision_resolve_keep_sorted = sim.collision_resolve_keep_sorted
    for i in range(sim.N):
        p = sim.particles[i]
        f.add(m=p.m, x=p.x, y=p.y, z=p.z, vx=p.vx, vy=p.vy, vz=p.vz, r=p.r, hash=p.hash.value)
        f.particles[i].last_collision = p.last_collision
    f.t = sim.t; f.dt = sim.dt; f.dt_last_done = sim.dt_last_done
    f.rand_seed = sim.rand_seed
    f.N_active = sim.N_active
    return f


def handed_set(rebound, sim):
    out = []
    def cb(sp, c):
        s = sp.contents
        out.append((s.particles[c.p1].hash.value, s.particles[c.p2].hash.value, L.gb_int(s, c)))
        return 0
    seed = sim.rand_seed
    L.search(rebound, sim, cb)
    sim.rand_seed = seed
    return out


def unordered(hs):
    return sorted(set((min(a, b), max(a, b), g if a < b else tuple(-v for v in g)) for a, b, g in hs))


def state_by_hash(sim):
    return {sim.particles[i].hash.value: tuple(getattr(sim.particles[i], k) for k in ("m", "x", "y", "z", "vx", "vy", "vz", "r"))
            for i in range(sim.N) if sim.particles[i].y == sim.particles[i].y}


def apply_history(rng, rebound, sim, cfg):
    """general operations an object may have seen before the search that is judged; returns the list of op names"""
    clib = rebound.clibrebound
    ops = []
    nh = [5000]
    for _ in range(rng.randint(1, 4)):
        op = rng.choice(["search_merge", "search_hardsphere", "remove", "remove_add", "shrink", "switch_mode", "advance_t", "search_outcomes",
                         "grow", "to_tree"])
        if sim.N < 2 and op not in ("advance_t",):
            continue
        if op == "search_merge":
            sim.collision_resolve = "merge"; clib.reb_collision_search(ctypes.byref(sim))
        elif op == "search_hardsphere":
            sim.collision_resolve = "hardsphere"; clib.reb_collision_search(ctypes.byref(sim))
        elif op == "search_outcomes":
            seq = [rng.choice([0, 0, 1, 2]) for _ in range(32)]; k = [0]
            def cb(sp, c, k=k, seq=seq):
                k[0] += 1
                return seq[(k[0] - 1) % 32]
            L.search(rebound, sim, cb)
        elif op == "remove":
            big = max(range(sim.N), key=lambda i: sim.particles[i].r) if rng.random() < 0.6 else rng.randrange(sim.N)
            try:
                sim.remove(big, keep_sorted=bool(sim.collision_resolve_keep_sorted) and not cfg["tree"])
            except Exception:
                pass
        elif op == "remove_add":      # N unchanged: one particle leaves, another one arrives
            i = rng.randrange(sim.N)
            p = sim.particles[i]
            q = dict(m=p.m, x=-p.x * 0.5 + 0.01, y=p.y * 0.5 - 0.02, z=-p.z * 0.5 + 0.03, vx=-p.vx, vy=p.vy, vz=p.vz, r=p.r * rng.choice([0.5, 1.0]))
            try:
                sim.remove(i, keep_sorted=False)
                sim.add(hash=nh[0], **q); nh[0] += 1
            except Exception:
                pass
        elif op == "shrink":          # radii only ever shrink here: max_radius0/1 stay valid upper bounds (documented: set on add)
            for i in range(sim.N):
                if rng.random() < 0.5:
                    sim.particles[i].r *= rng.choice([0.5, 0.9, 0.0])
        elif op == "grow":            # a radius assigned directly after the particle was added (Particle.r is a public field)
            for i in range(sim.N):
                if rng.random() < 0.4:
                    sim.particles[i].r = sim.particles[i].r * rng.choice([1.5, 3.0]) + rng.choice([0.0, 0.3])
        elif op == "to_tree" and not cfg["tree"] and not cfg["periodic"] and int(sim._collision) in (1, 4):
            # the tree search is switched on for particles that were added while another search mode was selected
            if all(abs(getattr(sim.particles[i], c)) < cfg["box"] / 2 * 0.99 for i in range(sim.N) for c in ("x", "y", "z")) and \
               len(set((sim.particles[i].x, sim.particles[i].y, sim.particles[i].z) for i in range(sim.N))) == sim.N:
                sim.configure_box(cfg["box"], 1, 1, 1)
                sim.boundary = "open"
                sim.collision = "tree" if int(sim._collision) == 1 else "linetree"
                cfg["tree"] = True
        elif op == "switch_mode" and not cfg["tree"]:
            cur = int(sim._collision)
            other = "line" if cur == 1 else "direct"
            sim.collision = other
            handed_set(rebound, sim)
            sim.collision = "direct" if cur == 1 else "line"
        elif op == "advance_t":
            sim.t += rng.choice([0.0, 1.0, 0.25])
        if cfg["tree"] and op in ("search_merge", "search_outcomes", "remove", "remove_add"):
            clib.reb_simulation_update_tree(ctypes.byref(sim))
        try:
            sim.process_messages()
        except Exception:
            pass
        ops.append(op)
    return ops
