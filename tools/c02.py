"""C02 — every force routine computes the specified pairwise Newtonian sum.

1. proof obligations: coq/C02 (theorems over R for all N / N_active / testparticle_type / ignore_terms / ghost counts);
2. correspondence: the SAME Gallina terms at binary64 vs reb_simulation_update_acceleration of the library built
   from the current tree, bit for bit (NONE, BASIC incl. ghost boxes, COMPENSATED incl. the cs array, JACOBI,
   MERCURIUS mode 0/1, TRACE mode 0/1, and the L_mercury changeover function);
3. library-only searcher (always run): accelerations vs the pairwise sum in 60-digit decimal arithmetic with an
   amplification-aware tolerance, two-parts-add-up for MERCURIUS/TRACE, Newton's third law, tree(theta=0)=direct,
   tree(theta>0) within a monopole bound.
"""
import ctypes, math, os, sys
from decimal import Decimal, getcontext
import vlib

getcontext().prec = 60


# ----------------------------------------------------------------------------------------------- systems
def gen_masses(rng, n):
    ms = []
    style = rng.random()
    for i in range(n):
        u = rng.random()
        if i == 0 and style < 0.7:
            m = rng.uniform(0.5, 2)
        elif u < 0.15:
            m = 0.0
        elif u < 0.5:
            m = 10 ** rng.uniform(-12, -1)
        else:
            m = rng.uniform(1e-3, 2)
        ms.append(m)
    return ms


def gen_pos(rng, n, half):
    """positions with |coordinate| < half; a few close pairs"""
    sc = half * rng.choice([1.0, 0.5, 1e-2])
    P = [[rng.uniform(-sc, sc) for _ in range(3)] for _ in range(n)]
    if n >= 2 and rng.random() < 0.3:
        a, b = rng.sample(range(n), 2)
        P[b] = [min(max(P[a][k] + rng.uniform(-1, 1) * 1e-3 * sc, -half), half) for k in range(3)]
    return [p[0] for p in P], [p[1] for p in P], [p[2] for p in P]


def base_case(rng, routine, n, nact_raw, tp, ign, ghost=(0, 0, 0), boundary="none", box=None):
    c = dict(routine=routine, N=n, nact_raw=nact_raw, tp=tp, ign=ign, ghost=ghost, boundary=boundary, box=box)
    c["G"] = rng.choice([1.0, 6.674e-11, 39.476926421373, rng.uniform(0.1, 10)])
    c["soft"] = rng.choice([0.0, 0.0, 10 ** rng.uniform(-6, -1)])
    half = 50.0
    if box is not None:
        root, rx, ry, rz = box
        half = 0.5 * root * min(rx, ry, rz)
    c["ms"] = gen_masses(rng, n)
    c["xs"], c["ys"], c["zs"] = gen_pos(rng, n, half)
    return c


def nact_of(c):
    return c["N"] if c["nact_raw"] == -1 else c["nact_raw"]


def add_encounter(rng, c, ks=False):
    """fields of ri_mercurius / ri_trace that reb_calculate_acceleration reads"""
    n = c["N"]
    c["dcrit"] = [rng.choice([0.0, 10 ** rng.uniform(-3, 2)]) if rng.random() < 0.9 else rng.uniform(0, 100) for _ in range(n)]
    c["acc0"] = [rng.gauss(0, 1) for _ in range(3 * n)]
    # encounter map: map[0]=0, then a subset of the active planets (increasing), then a subset of the test particles
    na = nact_of(c)
    act = [i for i in range(1, min(na, n)) if rng.random() < 0.6]
    tps = [i for i in range(max(na, 1), n) if rng.random() < 0.6]
    if rng.random() < 0.3:
        act = list(range(1, min(na, n))); tps = list(range(max(na, 1), n))
    c["emap"] = [0] + act + tps
    c["encN"] = len(c["emap"])
    c["encNact"] = 1 + len(act) if na >= 1 else 0
    if na == 0:
        c["encNact"] = 0
    if ks:
        p = rng.choice([0.0, 0.3, 0.7, 1.0])
        c["ks"] = [[1 if rng.random() < p else 0 for _ in range(n)] for _ in range(n)]
    return c


# ----------------------------------------------------------------------------------------------- library side
_keep = []


def lib_eval(rebound, c, L_callback=None, want_sim=False):
    """Build a Simulation from the case and call reb_simulation_update_acceleration. Returns flat [ax,ay,az]*N
    (+ gravity_cs for COMPENSATED)."""
    sim = rebound.Simulation()
    n = c["N"]
    sim.G = c["G"]
    sim.softening = c["soft"]
    if c.get("box") is not None:
        root, rx, ry, rz = c["box"]
        sim.configure_box(root, rx, ry, rz)
    sim.boundary = c["boundary"]
    sim.N_ghost_x, sim.N_ghost_y, sim.N_ghost_z = c["ghost"]
    rt = c["routine"]
    if rt == "tree":
        sim.gravity = "tree"
        sim.opening_angle2 = c["theta2"]
    if rt == "tree":
        for i in range(n):
            sim.add(m=c["ms"][i], x=c["xs"][i], y=c["ys"][i], z=c["zs"][i])
    else:
        # the Python layer rejects NaN arguments: add placeholders, then write the struct fields directly
        for i in range(n):
            sim.add(m=0.0, x=1e-3 * i, y=0.0, z=0.0)
        if sim.N == n:
            for i in range(n):
                p = sim.particles[i]
                p.m, p.x, p.y, p.z = c["ms"][i], c["xs"][i], c["ys"][i], c["zs"][i]
    if sim.N != n:
        raise RuntimeError("library refused a particle")
    sim.N_active = c["nact_raw"]
    sim.testparticle_type = c["tp"]
    sim.gravity_ignore = c["ign"]
    ps = sim.particles
    acc0 = c.get("acc0")
    if acc0:
        for i in range(n):
            ps[i].ax, ps[i].ay, ps[i].az = acc0[3 * i:3 * i + 3]
    null_d = ctypes.POINTER(ctypes.c_double)()
    null_i = ctypes.POINTER(ctypes.c_int)()
    held = []
    try:
        if rt in ("none", "basic", "compensated"):
            sim.gravity = rt
        elif rt == "jacobi":
            sim.integrator = "whfast"
            sim.gravity = "jacobi"
        elif rt in ("merc0", "merc1"):
            sim.integrator = "mercurius"
            sim.gravity = "mercurius"
            rim = sim.ri_mercurius
            if L_callback is None:
                rim.L = "mercury"
            else:
                rim.L = L_callback
            rim.mode = 0 if rt == "merc0" else 1
            d = (ctypes.c_double * max(n, 1))(*c["dcrit"])
            m = (ctypes.c_int * max(len(c["emap"]), 1))(*c["emap"])
            held += [d, m]
            rim._dcrit = ctypes.cast(d, ctypes.POINTER(ctypes.c_double))
            rim._encounter_map = ctypes.cast(m, ctypes.POINTER(ctypes.c_int))
            rim._encounter_N = c["encN"]
            rim._encounter_N_active = c["encNact"]
        elif rt in ("trace0", "trace1"):
            sim.integrator = "trace"
            sim.gravity = "trace"
            rit = sim.ri_trace
            rit._mode = 0 if rt == "trace0" else 1
            flatks = [v for row in c["ks"] for v in row]
            k = (ctypes.c_int * max(len(flatks), 1))(*flatks)
            m = (ctypes.c_int * max(len(c["emap"]), 1))(*c["emap"])
            held += [k, m]
            rit._current_Ks = ctypes.cast(k, ctypes.POINTER(ctypes.c_int))
            rit._encounter_map = ctypes.cast(m, ctypes.POINTER(ctypes.c_int))
            rit._encounter_N = c["encN"]
            rit._encounter_N_active = c["encNact"]
        elif rt == "tree":
            rebound.clibrebound.reb_simulation_update_tree(ctypes.byref(sim))
            rebound.clibrebound.reb_simulation_update_tree_gravity_data(ctypes.byref(sim))
        else:
            raise ValueError(rt)
        rebound.clibrebound.reb_simulation_update_acceleration(ctypes.byref(sim))
        if rt == "compensated":
            # gravity_cs persists in the simulation between calls; the routine must zero it on entry (the model and
            # the theorem C02_compensated_* start from zeros): the second call sees the non-zero array left by the first
            rebound.clibrebound.reb_simulation_update_acceleration(ctypes.byref(sim))
        out = []
        for i in range(n):
            out += [ps[i].ax, ps[i].ay, ps[i].az]
        if rt == "compensated":
            for i in range(n):
                v = sim.gravity_cs[i]
                out += [v.x, v.y, v.z]
        if rt == "tree":
            # the tree may reorder nothing here (no step taken); positions are returned for safety
            c["_order"] = [(ps[i].x, ps[i].y, ps[i].z) for i in range(n)]
        return out
    finally:
        if rt in ("merc0", "merc1"):
            sim.ri_mercurius._dcrit = null_d
            sim.ri_mercurius._encounter_map = null_i
            sim.ri_mercurius._encounter_N = 0
        if rt in ("trace0", "trace1"):
            sim.ri_trace._current_Ks = null_i
            sim.ri_trace._encounter_map = null_i
            sim.ri_trace._encounter_N = 0
        del sim


# ----------------------------------------------------------------------------------------------- Coq side
def cb(b):
    return "true" if b else "false"


def nl(xs):
    return "[" + "; ".join("%d%%nat" % x for x in xs) + "]"


def coq_term(c):
    F = vlib.fhex
    body = "%s %s %s %s" % tuple(vlib.flist(c[k]) for k in ("ms", "xs", "ys", "zs"))
    rt = c["routine"]
    na = nact_of(c)
    if rt == "none":
        return "(runNone %s)" % body
    if rt == "basic":
        if c["box"] is not None:
            root, rx, ry, rz = c["box"]
            bx, by, bz = root * float(rx), root * float(ry), root * float(rz)
        else:
            bx = by = bz = 0.0
        if c["boundary"] == "none":
            bx = by = bz = 0.0
        return "(runBasic %s %s %s %s %s %d %d %d %d %d %s %s)" % (
            F(c["G"]), F(c["soft"]), F(bx), F(by), F(bz), c["ghost"][0], c["ghost"][1], c["ghost"][2], c["ign"], na,
            cb(c["tp"]), body)
    if rt == "compensated":
        return "(runComp %s %s %d %d %s %s)" % (F(c["G"]), F(c["soft"]), c["ign"], na, cb(c["tp"]), body)
    if rt == "jacobi":
        return "(runJac %s %d %s %s %s)" % (F(c["G"]), na, cb(c["tp"]), body, vlib.flist([1.0] * (3 * c["N"])))
    if rt == "merc0":
        return "(runMerc0 %s %s %s %d %s %s)" % (F(c["G"]), F(c["soft"]), vlib.flist(c["dcrit"]), na, cb(c["tp"]), body)
    if rt == "merc1":
        return "(runMerc1 %s %s %s %s %d %d %s %s %s)" % (
            F(c["G"]), F(c["soft"]), vlib.flist(c["dcrit"]), nl(c["emap"]), c["encN"], c["encNact"], cb(c["tp"]), body,
            vlib.flist(c["acc0"]))
    ks = "[" + "; ".join("[" + "; ".join(cb(v) for v in row) + "]" for row in c.get("ks", [])) + "]"
    if rt == "trace0":
        return "(runTrace0 %s %s %s %d %s %s)" % (F(c["G"]), F(c["soft"]), ks, na, cb(c["tp"]), body)
    if rt == "trace1":
        return "(runTrace1 %s %s %s %s %d %d %s %s %s)" % (
            F(c["G"]), F(c["soft"]), ks, nl(c["emap"]), c["encN"], c["encNact"], cb(c["tp"]), body, vlib.flist(c["acc0"]))
    raise ValueError(rt)


HEADER = ("From Coq Require Import List ZArith Bool PrimFloat.\nFrom RV Require Import Common.FloatNum C02.Run C02.RunWH C02.RunTree C15.Tree.\n"
          "Import ListNotations.\nOpen Scope float_scope.\n")


def ghost_variants(n):
    """(ghost counts, boundary, box) combinations used with BASIC"""
    return [((0, 0, 0), "none", None),
            ((1, 0, 0), "periodic", (10.0, 1, 1, 1)),
            ((1, 1, 0), "open", (4.0, 2, 1, 3)),
            ((2, 1, 1), "periodic", (3.0, 1, 2, 1)),
            ((0, 2, 2), "periodic", (7.5, 1, 1, 1)),
            ((1, 1, 1), "periodic", (2.0, 3, 3, 3))]


def enumerate_cases(rng, tier_thorough):
    """the discrete combinations are enumerated first; positions/masses are randomised per combination"""
    cases = []
    small = list(range(0, 6))
    big = [7, 12, 25, 40] if not tier_thorough else [7, 9, 12, 17, 25, 33, 40, 64, 100, 200]

    def nacts(n, full):
        s = {-1, 0, 1, 2, n} | ({3, n - 1, n // 2} if n >= 3 else set())
        if full:
            s |= set(range(0, n + 1))
        return sorted(k for k in s if k == -1 or 0 <= k <= n)

    for n in small + big:
        full = n in small
        for na in nacts(n, full):
            for tp in (0, 1):
                for ign in (0, 1, 2):
                    gv = ghost_variants(n)
                    if n > 12:
                        gv = [gv[0], gv[1 + (na + tp + ign) % 5]]
                    if n > 40:
                        gv = [gv[0]] + ([gv[1]] if (na + tp + ign) % 4 == 0 else [])
                    for ghost, bnd, box in gv:
                        cases.append(base_case(rng, "basic", n, na, tp, ign, ghost, bnd, box))
                    cases.append(base_case(rng, "compensated", n, na, tp, ign))
                cases.append(add_encounter(rng, base_case(rng, "merc0", n, na, tp, 0)))
                cases.append(add_encounter(rng, base_case(rng, "trace0", n, na, tp, 0), ks=True))
                if n >= 1:
                    reps = 2 if n >= 3 else 1
                    for _ in range(reps):
                        cases.append(add_encounter(rng, base_case(rng, "merc1", n, na, tp, 0)))
                        cases.append(add_encounter(rng, base_case(rng, "trace1", n, na, tp, 0), ks=True))
        for na in nacts(n, n in small):
            for tp in (0, 1):
                cases.append(base_case(rng, "jacobi", n, na, tp, 0))
        c = base_case(rng, "none", n, -1, 0, 0); c["acc0"] = [1.0] * (3 * n)
        cases.append(c)
    # ---- edges of the domain: degenerate values in every routine (the binary64 model must reproduce inf/NaN/-0 bit for bit)
    nedge = 60 if not tier_thorough else 400
    for rt in ("basic", "basic_ghost", "compensated", "jacobi", "merc0", "merc1", "trace0", "trace1", "none"):
        for k in range(nedge if rt != "none" else 6):
            n = rng.choice([1, 2, 2, 3, 3, 4, 6])
            na = rng.choice([-1, 0, 1, n, rng.randint(0, n)])
            tp = rng.randint(0, 1)
            ign = rng.choice([0, 1, 2]) if rt in ("basic", "basic_ghost", "compensated") else 0
            if rt == "basic_ghost":
                c = base_case(rng, "basic", n, na, tp, ign, (1, 0, 1), "periodic", (2.0, 1, 2, 1))
            else:
                c = base_case(rng, rt, n, na, tp, ign)
            if rt in ("merc0", "merc1"):
                add_encounter(rng, c)
            if rt in ("trace0", "trace1"):
                add_encounter(rng, c, ks=True)
            if rt == "none":
                c["acc0"] = [1.0] * (3 * n)
            edge_mutate(rng, c, boxed=(rt == "basic_ghost"))
            c["_edge"] = True
            cases.append(c)
    return cases


EDGE_VALUES = [0.0, -0.0, 5e-324, -5e-324, 2.0 ** -1040, 1e-160, 1e160, 1e308, -1e308, float("inf"), float("-inf"), float("nan")]


def edge_mutate(rng, c, boxed=False):
    """degenerate corners: coincident particles, signed zeros, subnormal / huge / non-finite coordinates, masses, G, softening, dcrit"""
    n = c["N"]
    P = [c["xs"], c["ys"], c["zs"]]
    for _ in range(rng.randint(1, 3)):
        m = rng.choice(["coincide", "coincide", "zero", "coord", "scale", "mass", "G", "soft", "dcrit", "acc0", "origin"])
        if m == "coincide" and n >= 2:
            a, b = rng.sample(range(n), 2)
            for q in P:
                q[b] = q[a]
        elif m == "origin":
            a = rng.randrange(n)
            for q in P:
                q[a] = rng.choice([0.0, -0.0])
        elif m == "zero":
            P[rng.randrange(3)][rng.randrange(n)] = rng.choice([0.0, -0.0])
        elif m == "coord" and not boxed:
            P[rng.randrange(3)][rng.randrange(n)] = rng.choice(EDGE_VALUES)
        elif m == "scale" and not boxed:
            f = rng.choice([1e-160, 1e-170, 2.0 ** -1040, 1e150, 1e160, 1e306])
            for q in P:
                for i in range(n):
                    q[i] *= f
        elif m == "mass":
            c["ms"][rng.randrange(n)] = rng.choice(EDGE_VALUES + [-1.0])
        elif m == "G":
            c["G"] = rng.choice(EDGE_VALUES + [-1.0])
        elif m == "soft":
            c["soft"] = rng.choice(EDGE_VALUES + [-1e-3, 1e200])
        elif m == "dcrit" and "dcrit" in c:
            c["dcrit"][rng.randrange(n)] = rng.choice(EDGE_VALUES + [-1.0])
        elif m == "acc0" and c.get("acc0"):
            c["acc0"][rng.randrange(3 * n)] = rng.choice(EDGE_VALUES)


def L_cases(rng, k):
    out = []
    for _ in range(k):
        dc = rng.choice([10 ** rng.uniform(-3, 2), rng.uniform(0.1, 3), 0.0])
        d = rng.choice([rng.uniform(0, 1.3) * dc, rng.uniform(0.09, 0.11) * dc, rng.uniform(0.99, 1.01) * dc, 0.1 * dc, dc,
                        rng.uniform(0, 5)])
        out.append((d, dc))
    ev = [0.0, -0.0, 5e-324, 1e-300, 1e300, float("inf"), float("-inf"), float("nan"), -1.0, 1.0, 0.1, 0.5]
    for _ in range(max(20, k // 8)):
        out.append((rng.choice(ev), rng.choice(ev)))
    return out


def tree_layout_ok():
    """struct reb_treecell of the current tree.h == the ctypes mirror (tools/c15_lib.TreeCell) used to walk the library's tree"""
    import c15_lib as L
    try:
        fields = L.parse_treecell_fields(open(os.path.join(vlib.REPO, "src", "tree.h")).read())
        ok = ([f[1] for f in fields] == L.EXPECTED_FIELDS and
              [f[0] for f in fields] == ["double"] * 8 + ["struct reb_treecell *", "int", "int"] and fields[8][2] == "[8]")
        return ok and ctypes.sizeof(L.TreeCell) == 8 * 8 + 8 * 8 + 8, str(fields)
    except RuntimeError as e:
        return False, str(e)


def cell_term(d):
    if d is None:
        return "None"
    if d["pt"] >= 0:
        return "(Some (Leaf %d%%nat))" % d["pt"]
    return "(Some (Node (%d)%%Z [%s]))" % (-d["pt"], "; ".join(cell_term(c) for c in d["oct"]))


TREE_LOST = []


def tree_cases(rng, rebound, k, nmax):
    """REB_GRAVITY_TREE on random systems: accelerations + every cell's (m,mx,my,mz) read by walking the library's tree
    through ctypes, vs C02.TreeModel / C15.Tree.gdata on the dumped tree SHAPE (Leaf/Node/oct order only)."""
    import c15_lib as L
    out = []
    clib = rebound.clibrebound
    for t in range(k):
        n = rng.choice([0, 1, 2, 3, 4, 5, 7, 9, 14, 23, nmax]) if rng.random() < 0.85 else rng.randint(0, nmax)
        layout = rng.choice([(1, 1, 1), (1, 1, 1), (2, 1, 1), (1, 2, 1), (2, 2, 1), (1, 1, 3), (2, 3, 2)])
        root = rng.choice([1.0, 4.0, 100.0, rng.uniform(0.5, 50)])
        ghost, bnd = rng.choice([((0, 0, 0), "open"), ((0, 0, 0), "open"), ((1, 0, 0), "periodic"), ((1, 1, 0), "periodic"), ((0, 1, 1), "open")])
        if n > 14:
            ghost = (min(ghost[0], 1), 0, 0)
        theta2 = rng.choice([0.0, 0.0, 0.25, 1.0, 0.01, rng.uniform(0, 2), 4.0])
        if rng.random() < 0.12:
            theta2 = rng.choice([-1.0, -0.0, 5e-324, 1e308, float("inf"), float("nan")])      # edges of the opening angle
        G = rng.choice([1.0, 6.674e-11, rng.uniform(0.1, 10)])
        soft = rng.choice([0.0, 0.0, 10 ** rng.uniform(-4, -1)])
        ms = gen_masses(rng, n)
        half = [0.5 * root * layout[a] for a in range(3)]
        cl = rng.random() < 0.4      # clustered: deeper trees
        P = []
        for i in range(n):
            if cl and i > 0 and rng.random() < 0.6:
                q = P[rng.randrange(i)]
                P.append([min(max(q[a] + rng.gauss(0, 1e-3) * half[a], -half[a] * 0.999), half[a] * 0.999) for a in range(3)])
            else:
                P.append([rng.uniform(-half[a], half[a]) * 0.999 for a in range(3)])
            if rng.random() < 0.06:       # exactly on a cell centre / border (dyadic fractions of the box), signed zero
                a = rng.randrange(3)
                P[-1][a] = rng.choice([0.0, -0.0, half[a] * 0.5, -half[a] * 0.25, half[a] * 0.125])
        if rng.random() < 0.08:
            ms = [0.0] * n                # massless cells: the division by the cell mass is skipped
        if rng.random() < 0.08:
            G = rng.choice([0.0, -1.0, float("inf"), 5e-324]); soft = rng.choice([soft, -1e-3, 1e200, 5e-324])
        sim = rebound.Simulation()
        sim.G = G; sim.softening = soft
        sim.configure_box(root, *layout)
        sim.boundary = bnd
        sim.N_ghost_x, sim.N_ghost_y, sim.N_ghost_z = ghost
        sim.gravity = "tree"
        sim.opening_angle2 = theta2
        for i in range(n):
            sim.add(m=ms[i], x=P[i][0], y=P[i][1], z=P[i][2])
        if sim.N != n:
            del sim
            continue
        clib.reb_simulation_update_tree(ctypes.byref(sim))
        clib.reb_simulation_update_tree_gravity_data(ctypes.byref(sim))
        if sim.N != n:
            # reb_simulation_update_tree dropped a particle altogether (same defect class as an index missing from the leaves)
            TREE_LOST.append({"routine": "tree", "N": n, "N_after_update_tree": sim.N, "root_size": root, "layout": layout, "boundary": bnd,
                              "ms": [float(m).hex() for m in ms], "pos": [[float(v).hex() for v in q] for q in P]})
            del sim
            continue
        clib.reb_simulation_update_acceleration(ctypes.byref(sim))
        ps = sim.particles
        exp = []
        for i in range(n):
            exp += [ps[i].ax, ps[i].ay, ps[i].az]
        forest = L.dump_tree(sim) if n > 0 else None
        if forest is None:
            forest = [None] * (layout[0] * layout[1] * layout[2])
        for c in forest:
            pre = []
            L.gravity_dump_preorder(c, pre)
            for g in pre:
                exp += list(g)
        parts = "[" + "; ".join("(%s, %s, %s, %s)" % (vlib.fhex(ps[i].m), vlib.fhex(ps[i].x), vlib.fhex(ps[i].y), vlib.fhex(ps[i].z))
                                 for i in range(n)) + "]"
        del sim
        F = vlib.fhex
        bx, by, bz = root * float(layout[0]), root * float(layout[1]), root * float(layout[2])
        term = "(runTree %s %s %s %s %s %s %d %d %d %s [%s] %s)" % (
            F(G), F(soft), F(theta2), F(bx), F(by), F(bz), ghost[0], ghost[1], ghost[2], F(root),
            "; ".join(cell_term(c) for c in forest), parts)
        depth = max([L.depth_of(c) for c in forest] + [0])
        lv = []
        for c in forest:
            L.leaves_of(c, lv)
        once = sorted(lv) == list(range(n))      # hypothesis of C02_tree_theta0_eq_spec on this forest
        rep = {"routine": "tree", "N": n, "root_size": root, "layout": layout, "ghost": ghost, "boundary": bnd, "theta2": theta2,
               "G": float(G).hex(), "soft": float(soft).hex(), "ms": [float(m).hex() for m in ms],
               "pos": [[float(v).hex() for v in q] for q in P], "library": [float(v).hex() for v in exp[:3 * n]]}
        out.append((term, exp, ("tree", n, layout, ghost, theta2, depth, once), rep))
    return out


def wh_cases(rng, rebound, k):
    """reb_whfast_interaction_step (Jacobi coordinates) on a hand-filled p_jh array vs the model C02.WHModel.
    Returns (coq term, expected flat velocities of p_j[1..N-1], label)."""
    out = []
    clib = rebound.clibrebound
    clib.reb_whfast_interaction_step.argtypes = [ctypes.c_void_p, ctypes.c_double]
    clib.reb_whfast_interaction_step.restype = None
    for t in range(k):
        n = rng.choice([1, 2, 3, 3, 4, 5, 8, 13])
        gj = rng.random() < 0.4
        tp = rng.randint(0, 1)
        na_raw = rng.choice([-1, -1, n, rng.randint(1, n)])
        nact = n if (na_raw == -1 or tp == 1) else na_raw
        G = rng.choice([1.0, 39.476926421373, rng.uniform(0.1, 10)])
        soft = rng.choice([0.0, 0.0, 10 ** rng.uniform(-4, -1)])
        dt = rng.choice([0.01, -0.37, rng.uniform(-1, 1)])
        ms = gen_masses(rng, n)
        edge = rng.random() < 0.15
        if ms[0] == 0.0 and not edge:
            ms[0] = 1.0
        acc = [[rng.gauss(0, 1) for _ in range(n)] for _ in range(3)]
        pm = [m * rng.choice([1.0, 1.0, rng.uniform(0.5, 2)]) for m in ms]     # p_j masses need not equal particle masses
        pq = [[rng.gauss(0, 3) for _ in range(n)] for _ in range(6)]
        if edge:      # edges: zero / non-finite step, Jacobi position exactly at the origin, zero central mass, non-finite inputs
            dt = rng.choice([0.0, -0.0, float("inf"), float("nan"), 5e-324, dt])
            i = rng.randrange(n)
            for cc in range(3):
                pq[cc][i] = rng.choice([0.0, -0.0])
            if rng.random() < 0.5:
                acc[rng.randrange(3)][rng.randrange(n)] = rng.choice([float("inf"), float("nan"), 1e308, -0.0])
            if rng.random() < 0.3:
                pm[rng.randrange(n)] = rng.choice([0.0, float("inf"), float("nan"), -1.0])
        sim = rebound.Simulation()
        sim.G = G; sim.softening = soft
        for i in range(n):
            sim.add(m=ms[i], x=rng.gauss(0, 1), y=rng.gauss(0, 1), z=rng.gauss(0, 1))
        sim.N_active = na_raw; sim.testparticle_type = tp
        sim.integrator = "whfast"
        sim.gravity = "jacobi" if gj else "basic"
        ps = sim.particles
        for i in range(n):
            ps[i].ax, ps[i].ay, ps[i].az = acc[0][i], acc[1][i], acc[2][i]
        pj = (rebound.Particle * n)()
        for i in range(n):
            pj[i].m = pm[i]
            pj[i].x, pj[i].y, pj[i].z, pj[i].vx, pj[i].vy, pj[i].vz = (pq[c][i] for c in range(6))
        null = ctypes.POINTER(rebound.Particle)()
        try:
            sim.ri_whfast._p_jh = ctypes.cast(pj, ctypes.POINTER(rebound.Particle))
            clib.reb_whfast_interaction_step(ctypes.byref(sim), ctypes.c_double(dt))
            exp = []
            for i in range(1, n):
                exp += [pj[i].vx, pj[i].vy, pj[i].vz]
        finally:
            sim.ri_whfast._p_jh = null
            del sim
        F = vlib.fhex
        term = "(runWH %s %s %s %s %d %s %s %s %s %s %s)" % (
            F(G), F(soft), F(dt), cb(gj), nact, vlib.flist(ms), vlib.flist(acc[0]), vlib.flist(acc[1]), vlib.flist(acc[2]),
            vlib.flist(pm), " ".join(vlib.flist(pq[c]) for c in range(6)))
        rep = {"routine": "whfast_interaction", "N": n, "N_active": na_raw, "testparticle_type": tp, "gravity_jacobi": gj,
               "G": float(G).hex(), "soft": float(soft).hex(), "dt": float(dt).hex(), "ms": [float(m).hex() for m in ms],
               "acc": [[float(v).hex() for v in a] for a in acc], "p_j_m": [float(m).hex() for m in pm],
               "p_j_xyzv": [[float(v).hex() for v in a] for a in pq], "library": [float(v).hex() for v in exp]}
        out.append((term, exp, ("whfast_interaction", n, na_raw, tp, gj), rep))
    return out


# ----------------------------------------------------------------------------------------------- exact reference
def D(x):
    return Decimal(x)


def spec_sources(n, na, tp, ign):
    """sources(i): the readable predicate of coq/C02/Spec.v"""
    def ignored(i, j):
        if ign == 1:
            return (i, j) in ((0, 1), (1, 0))
        if ign == 2:
            return i == 0 or j == 0
        return False
    return [[j for j in range(n) if j != i and not ignored(i, j) and (j < na or (tp and i < na))] for i in range(n)]


def spec_acc(c, sources=None, weight=None, self_images_in_mag=False):
    """pairwise softened Newtonian sum in 60-digit decimals. Returns (acc[i][k], mag[i]) where mag[i] is the sum of
    the absolute values of the terms (the amplification scale of the floating-point sum)."""
    n = c["N"]
    na = nact_of(c)
    if sources is None:
        sources = spec_sources(n, na, c["tp"], c["ign"])
    G = D(c["G"]); e2 = D(c["soft"]) * D(c["soft"])
    X = [(D(c["xs"][i]), D(c["ys"][i]), D(c["zs"][i])) for i in range(n)]
    M = [D(m) for m in c["ms"]]
    shifts = [(D(0), D(0), D(0))]
    if c.get("box") is not None and c["boundary"] != "none":
        root, rx, ry, rz = c["box"]
        bx, by, bz = D(root * rx), D(root * ry), D(root * rz)
        gx, gy, gz = c["ghost"]
        shifts = [(bx * a, by * b, bz * cc) for a in range(-gx, gx + 1) for b in range(-gy, gy + 1) for cc in range(-gz, gz + 1)]
    acc = [[D(0)] * 3 for _ in range(n)]
    mag = [D(0)] * n
    for i in range(n):
        if self_images_in_mag:
            # a tree cell accepted as a monopole in a shifted box contains the particle's own image (the direct sum leaves
            # self-images out; over a symmetric ghost range they cancel): they belong to the scale of the approximation error
            for s_ in shifts:
                if s_[0] != 0 or s_[1] != 0 or s_[2] != 0:
                    r2 = s_[0] * s_[0] + s_[1] * s_[1] + s_[2] * s_[2] + e2
                    mag[i] += G * M[i] / (r2 * r2.sqrt()) * (abs(s_[0]) + abs(s_[1]) + abs(s_[2]))
        for j in sources[i]:
            w = D(1) if weight is None else weight(i, j)
            for s in shifts:
                d = [X[i][k] + s[k] - X[j][k] for k in range(3)]
                r2 = d[0] * d[0] + d[1] * d[1] + d[2] * d[2] + e2
                if r2 == 0:
                    return None, None
                r3 = r2 * r2.sqrt()
                f = G * M[j] * w / r3
                for k in range(3):
                    acc[i][k] -= f * d[k]
                # x_i - x_j is a single rounding; (gb + x_i) - x_j rounds gb + x_i first, so the absolute error of d is
                # eps*|gb + x_i| and is amplified (direction + 3x through r^-3) when the image lands close to j
                dl = abs(d[0]) + abs(d[1]) + abs(d[2])
                if s[0] != 0 or s[1] != 0 or s[2] != 0:
                    dl += 4 * sum(abs(X[i][k] + s[k]) for k in range(3))
                mag[i] += abs(f) * dl
    return acc, mag


EPS = 2.0 ** -52


def compare_spec(got, acc, mag, n, terms_per_particle, extra_rel=0.0):
    """first particle whose acceleration leaves the rounding envelope, or None.
    Envelope: each term carries <= ~12 roundings (relative), the accumulation of T terms adds T*eps*mag."""
    for i in range(n):
        tol = D((14 + 2 * terms_per_particle) * EPS + extra_rel) * mag[i] + D(1e-300)
        for k in range(3):
            g = got[3 * i + k]
            if g != g or abs(g) == float("inf") or abs(D(g) - acc[i][k]) > tol:
                return i, k, g, float(acc[i][k]), float(tol)
    return None


def replay_obj(c, **kw):
    r = {k: v for k, v in c.items() if not k.startswith("_")}
    for k in ("ms", "xs", "ys", "zs", "dcrit", "acc0"):
        if k in r and r[k] is not None:
            r[k] = [float(x).hex() for x in r[k]]
    for k in ("G", "soft"):
        r[k] = float(r[k]).hex()
    r.update(kw)
    return r


def unhex(rep):
    c = dict(rep)
    for k in ("ms", "xs", "ys", "zs", "dcrit", "acc0"):
        if k in c and c[k] is not None:
            c[k] = [float.fromhex(x) for x in c[k]]
    for k in ("G", "soft"):
        c[k] = float.fromhex(c[k])
    for k in ("ghost", "box"):
        if c.get(k) is not None:
            c[k] = tuple(c[k])
    return c


# ----------------------------------------------------------------------------------------------- searcher
def searcher(ctx, rebound, rng):
    fails = []
    nsys = ctx.scale(260, 4000)
    nmax = ctx.scale(40, 200)
    for t in range(nsys):
        n = rng.choice([0, 1, 2, 3, 4, 5, 6, 8, 13, 21, nmax]) if rng.random() < 0.8 else rng.randint(0, nmax)
        na = rng.choice([-1, -1, 0, 1, 2, n, rng.randint(0, n)])
        if na > n:
            na = n
        tp = rng.randint(0, 1)
        ign = rng.choice([0, 0, 1, 2])
        kind = rng.choice(["basic", "basic", "compensated", "ghost", "merc", "trace", "tree", "jacobi"])
        if kind == "ghost":
            ghost, bnd, box = rng.choice(ghost_variants(n)[1:])
            if n > 25:
                ghost = (1, 0, 0)
            c = base_case(rng, "basic", n, na, tp, ign, ghost, bnd, box)
            if c["soft"] == 0.0:
                c["soft"] = 1e-3      # an image of a particle can sit on another particle only with measure 0, keep sums tame
        elif kind in ("basic", "compensated"):
            c = base_case(rng, kind, n, na, tp, ign)
        elif kind == "jacobi":
            c = base_case(rng, "jacobi", n, na, tp, 0); c["soft"] = 0.0
        elif kind in ("merc", "trace"):
            c = base_case(rng, "merc0" if kind == "merc" else "trace0", max(n, 1), na if na <= max(n, 1) else -1, tp, 0)
            c["xs"][0] = c["ys"][0] = c["zs"][0] = 0.0      # heliocentric coordinates: the star sits at the origin
            add_encounter(rng, c, ks=(kind == "trace"))
            c["emap"] = list(range(c["N"])); c["encN"] = c["N"]; c["encNact"] = nact_of(c)
        else:
            c = base_case(rng, "tree", n, -1, 0, 0, (0, 0, 0), "open", (100.0, rng.choice([1, 2]), rng.choice([1, 2]), 1))
            c["theta2"] = rng.choice([0.0, 0.0, 0.25, 1.0])
            if n > 1 and rng.random() < 0.3:
                c["ghost"] = (1, 0, 0); c["boundary"] = "periodic"; c["soft"] = max(c["soft"], 1e-3)
        n = c["N"]
        na_eff = nact_of(c)
        ctx.evaluations += 1
        key = None; info = None
        if kind in ("basic", "compensated", "ghost"):
            got = lib_eval(rebound, c)
            acc, mag = spec_acc(c)
            if acc is None:
                continue
            nb = (2 * c["ghost"][0] + 1) * (2 * c["ghost"][1] + 1) * (2 * c["ghost"][2] + 1)
            bad = compare_spec(got, acc, mag, n, n * nb)
            if bad:
                key = "spec:%s" % c["routine"]; info = bad
            elif na_eff == n and n > 0:
                # Newton's third law: sum m_i a_i = 0 to rounding (scale: sum m_i * mag_i)
                scale = sum(D(c["ms"][i]) * mag[i] for i in range(n))
                for k in range(3):
                    s = sum(D(c["ms"][i]) * D(got[3 * i + k]) for i in range(n))
                    if abs(s) > D((14 + 2 * n * nb) * EPS) * scale + D(1e-300):
                        key = "momentum:%s" % c["routine"]; info = (k, float(s), float(scale))
        elif kind == "jacobi":
            # JACOBI = direct sum of all pairs except (0,1) + Jacobi terms; checked here through its defining identity:
            # a_jacobi - a_basic(ignore_terms=1) is the WHFast interaction-step Jacobi term, whose mass-weighted sum
            # over all particles cancels with the (0,1) pair excluded: sum m_i a_i = 0 to rounding for N<=2 only;
            # in general we check the direct part by removing the Jacobi term computed in decimals.
            got = lib_eval(rebound, c)
            ref = jacobi_reference(c)
            if ref is None:
                continue
            acc, mag = ref
            bad = compare_spec(got, acc, mag, n, 3 * n)
            if bad:
                key = "spec:jacobi"; info = bad
        elif kind in ("merc", "trace"):
            # the two parts add up to the full heliocentric force: star term on every planet + all planet-planet pairs
            c0 = dict(c); c1 = dict(c)
            c1["routine"] = c["routine"][:-1] + "1"
            c1["acc0"] = [0.0] * (3 * n)
            g0 = lib_eval(rebound, c0)
            g1 = lib_eval(rebound, c1)
            full = dict(c); full["ign"] = 2; full["routine"] = "basic"
            acc, mag = spec_acc(full)
            if acc is None:
                continue
            G = D(c["G"]); e2 = D(c["soft"]) ** 2
            ok_geom = True
            for i in range(1, n):
                x = (D(c["xs"][i]), D(c["ys"][i]), D(c["zs"][i]))
                r2 = x[0] * x[0] + x[1] * x[1] + x[2] * x[2] + e2
                if r2 == 0:
                    ok_geom = False; break
                f = G * D(c["ms"][0]) / (r2 * r2.sqrt())
                for k in range(3):
                    acc[i][k] -= f * x[k]
                mag[i] += f * (abs(x[0]) + abs(x[1]) + abs(x[2]))
            if not ok_geom:
                continue
            tot = [a + b for a, b in zip(g0, g1)]
            bad = compare_spec(tot, acc, mag, n, 2 * n + 4)
            if bad:
                key = "parts:%s" % kind; info = bad
        else:   # tree
            try:
                got = lib_eval(rebound, c)
            except RuntimeError:
                continue
            full = dict(c); full["routine"] = "basic"; full["ign"] = 0
            if c["boundary"] == "open":
                full["boundary"] = "none"
            acc, mag = spec_acc(full, self_images_in_mag=(c["theta2"] != 0.0))
            if acc is None:
                continue
            nb = (2 * c["ghost"][0] + 1)
            if c["theta2"] == 0.0:
                # cell centres of mass are m-weighted averages: ~depth more roundings per term, none amplified
                bad = compare_spec(got, acc, mag, n, n * nb + 40)
                if bad:
                    key = "tree:theta0"; info = bad
            else:
                # validated, not proved: monopole error of a cell of width w at distance d (w^2 <= theta2 d^2)
                # |a_cell - sum a_members| <= |a_cell| + sum|a_members| and every member is within sqrt(3) w <= sqrt(3) theta d
                # of the cell's centre of mass, so |a_cell| <= (1+sqrt(3) theta)^2 sum|a_members|
                th = math.sqrt(c["theta2"])
                bad = compare_spec(got, acc, mag, n, n * nb + 40, extra_rel=1.5 + (1 + 1.7320508 * th) ** 2)
                if bad:
                    key = "tree:monopole"; info = bad
        ctx.nontrivial.add(("search", kind, min(n, 9), na_eff == n, tp, ign))
        if key:
            fails.append((n, key, replay_obj(c, failing=str(info))))
    # WHFast composes JACOBI gravity and BASIC gravity + its own Jacobi term to the same map (theorem
    # C02_jacobi_eq_basic_plus_whterm: no softening, all active): a few steps of either must agree to rounding
    for t in range(ctx.scale(40, 400)):
        n = rng.choice([2, 3, 4, 6, 9])
        ms = [rng.uniform(0.5, 2)] + [10 ** rng.uniform(-7, -2.5) for _ in range(n - 1)]
        orb = []
        a = rng.uniform(0.5, 1.5)
        for i in range(1, n):
            orb.append((a, rng.uniform(0, 0.2), rng.uniform(0, 0.2), rng.uniform(0, 6.28), rng.uniform(0, 6.28), rng.uniform(0, 6.28)))
            a *= rng.uniform(1.4, 2.0)
        Gv = rng.choice([1.0, 39.476926421373])
        res = {}
        for grav in ("jacobi", "basic"):
            sim = rebound.Simulation()
            sim.G = Gv
            sim.add(m=ms[0])
            for i in range(1, n):
                a_, e_, inc_, O_, o_, f_ = orb[i - 1]
                sim.add(m=ms[i], a=a_, e=e_, inc=inc_, Omega=O_, omega=o_, f=f_)
            sim.integrator = "whfast"
            sim.gravity = grav
            sim.dt = 0.013 * (1.0 if Gv == 1.0 else 1 / 6.28)
            for _ in range(3):
                sim.step()
            res[grav] = [c for p in sim.particles for c in (p.x, p.y, p.z, p.vx, p.vy, p.vz)]
            del sim
        ctx.evaluations += 1
        ctx.nontrivial.add(("search", "whstep", n))
        scale = max(abs(v) for v in res["basic"]) or 1.0
        worst = max(abs(u - v) for u, v in zip(res["jacobi"], res["basic"]))
        if not worst <= 2e-13 * scale:
            fails.append((n, "whfast:jacobi_vs_basic", {"routine": "whstep", "N": n, "G": Gv, "masses": [m.hex() for m in ms], "orbits": orb,
                                                        "failing": "max |state difference| %.3e after 3 WHFast steps" % worst}))
    # REB_GRAVITY_TREE with test particles: the documentation ("Only active particles contribute to the force", "Test-particles
    # never feel each other") and BASIC/COMPENSATED honour N_active/testparticle_type; the tree walk does not read them.
    for t in range(3):
        n = rng.choice([3, 4, 6])
        na = rng.randint(1, n - 1)
        tp = rng.randint(0, 1)
        c = base_case(rng, "tree", n, na, tp, 0, (0, 0, 0), "open", (100.0, 1, 1, 1))
        c["theta2"] = 0.0
        c["ms"] = [rng.uniform(1e-3, 1.0) for _ in range(n)]
        try:
            got = lib_eval(rebound, c)
        except RuntimeError:
            continue
        full = dict(c); full["routine"] = "basic"; full["boundary"] = "none"
        acc, mag = spec_acc(full)
        ctx.evaluations += 1
        if acc is None:
            continue
        bad = compare_spec(got, acc, mag, n, n + 40)
        if bad:
            ctx.violation("tree:N_active_ignored", replay_obj(c, failing=str(bad)), True,
                          "REB_GRAVITY_TREE ignores N_active/testparticle_type: massive test particles pull on every particle")
    if fails:
        fails.sort(key=lambda f: f[0])
        seen = set()
        for n, key, rep in fails:
            if key in seen:
                continue
            seen.add(key)
            ctx.violation(key, rep, True, "library accelerations leave the rounding envelope of the specified pairwise sum (%s): %s"
                          % (key, rep["failing"]))
    return len(fails)


def jacobi_reference(c):
    """exact (decimal) value of what REB_GRAVITY_JACOBI is specified to compute: all direct pairs except (0,1),
    plus for every j>=2 the Jacobi term  G*(-m_j)*Q_j/|Q_j|^3 on i<j and G*M_j*Q_j/|Q_j|^3 on j,
    Q_j = x_j - R_j/M_j (centre of mass of the particles before j)."""
    n = c["N"]
    full = dict(c); full["routine"] = "basic"; full["ign"] = 1; full["soft"] = 0.0      # direct part: N_active/testparticle_type rules of BASIC
    acc, mag = spec_acc(full)
    if acc is None:
        return None
    G = D(c["G"])
    X = [(D(c["xs"][i]), D(c["ys"][i]), D(c["zs"][i])) for i in range(n)]
    M = [D(m) for m in c["ms"]]
    R = [D(0)] * 3; Rabs = [D(0)] * 3; Mj = D(0)
    for j in range(n):
        if j > 1:
            if Mj == 0:
                return None
            Q = [X[j][k] - R[k] / Mj for k in range(3)]
            r2 = Q[0] ** 2 + Q[1] ** 2 + Q[2] ** 2
            if r2 == 0:
                return None
            r3 = r2 * r2.sqrt()
            # Q_j = x_j - R_j/M_j is a difference of rounded quantities: absolute error <= (j+3) eps (|x_j| + sum|m x|/M),
            # amplified 4x (direction + r^-3) relative to |Q|
            qerr = (j + 3) * 4 * sum(abs(X[j][k]) + Rabs[k] / Mj for k in range(3))
            for i in range(j + 1):
                w = -M[j] if i < j else Mj
                f = G * w / r3
                for k in range(3):
                    acc[i][k] += f * Q[k]
                mag[i] += abs(f) * (abs(Q[0]) + abs(Q[1]) + abs(Q[2]) + qerr)
        for k in range(3):
            R[k] += M[j] * X[j][k]
            Rabs[k] += abs(M[j] * X[j][k])
        Mj += M[j]
    return acc, mag


# ----------------------------------------------------------------------------------------------- integrator sequences on ONE object
SEQ_INTS = ["ias15", "whfast", "whfast:dh", "whfast:bary", "whfast:whds", "whfast:lazy", "saba", "saba:lazy", "mercurius", "trace",
            "leapfrog", "sei", "eos", "janus", "bs", "none"]


def seq_setint(sim, name):
    base, _, opt = name.partition(":")
    sim.integrator = base
    if base == "whfast":
        sim.ri_whfast.coordinates = {"": "jacobi", "dh": "democraticheliocentric", "bary": "barycentric", "whds": "whds", "lazy": "jacobi"}[opt]
        sim.ri_whfast.kernel = "lazy" if opt == "lazy" else "default"
    if base == "saba":
        sim.ri_whfast.coordinates = "jacobi"
        sim.ri_saba.type = "lazy" if opt == "lazy" else "(10,6,4)"


def seq_system(rng):
    n = rng.choice([3, 4, 5])
    orb = []
    a = rng.uniform(0.8, 1.2)
    for i in range(1, n):
        orb.append((10 ** rng.uniform(-5, -3), a, rng.uniform(0, 0.1), rng.uniform(0, 0.1), rng.uniform(0, 6.28), rng.uniform(0, 6.28)))
        a *= rng.uniform(1.8, 2.4)
    return {"m0": rng.uniform(0.8, 1.2), "orbits": orb, "dt": 0.02}


def seq_make(rebound, sysd):
    sim = rebound.Simulation()
    sim.add(m=sysd["m0"])
    for m, a, e, inc, O, f in sysd["orbits"]:
        sim.add(m=m, a=a, e=e, inc=inc, Omega=O, f=f)
    sim.move_to_com()
    sim.dt = sysd["dt"]
    return sim


def seq_clone(rebound, sim):
    s2 = rebound.Simulation()
    s2.G = sim.G; s2.dt = sim.dt; s2.t = sim.t
    for p in sim.particles:
        s2.add(m=p.m, x=p.x, y=p.y, z=p.z, vx=p.vx, vy=p.vy, vz=p.vz)
    return s2


def seq_search(ctx, rebound, rng):
    """History independence of the force selection: a few steps with integrator A (then optionally B), then switch to the last
    integrator WITHOUT touching sim.gravity / gravity_ignore_terms: (i) the first and second force evaluation must be the specified
    pairwise sum for the gravity routine / ignore_terms the simulation reports after the call, (ii) two steps must agree with a FRESH
    simulation started from the same state with only that integrator selected."""
    import warnings
    sysd = seq_system(rng)
    seqs = [(A, B) for A in SEQ_INTS for B in SEQ_INTS if A != B]
    seqs += [(A, B, A) for A in SEQ_INTS for B in ("ias15", "leapfrog", "whfast", "whfast:dh", "mercurius", "bs") if A != B]
    if not ctx.thorough:
        seqs = [q for k, q in enumerate(seqs) if len(q) == 2 or k % 2 == 0]
    clib = rebound.clibrebound
    found = {}
    other = []
    with warnings.catch_warnings():
        warnings.simplefilter("ignore")
        for q in seqs:
            try:
                sims = [seq_make(rebound, sysd), seq_make(rebound, sysd)]
                for sim in sims:
                    for name in q[:-1]:
                        seq_setint(sim, name)
                        for _ in range(3):
                            sim.step()
                        sim.synchronize()
                last = q[-1]
                sim, sim2 = sims
                fresh = seq_clone(rebound, sim)
                seq_setint(sim, last); seq_setint(fresh, last); seq_setint(sim2, last)
                # (i) first and second force evaluation on the second copy
                for call in (1, 2):
                    clib.reb_simulation_update_acceleration(ctypes.byref(sim2))
                    if sim2.gravity in ("basic", "compensated") and sim2.N > 0:
                        c = {"routine": "basic", "N": sim2.N, "nact_raw": -1, "tp": 0, "ign": int(sim2.gravity_ignore), "ghost": (0, 0, 0),
                             "boundary": "none", "box": None, "G": sim2.G, "soft": sim2.softening,
                             "ms": [p.m for p in sim2.particles], "xs": [p.x for p in sim2.particles],
                             "ys": [p.y for p in sim2.particles], "zs": [p.z for p in sim2.particles]}
                        acc, mag = spec_acc(c)
                        got = [v for p in sim2.particles for v in (p.ax, p.ay, p.az)]
                        bad = compare_spec(got, acc, mag, sim2.N, sim2.N) if acc is not None else None
                        if bad:
                            key = "sequence:force_call%d:%s" % (call, "->".join(x.partition(":")[0] for x in q))
                            found.setdefault(key, (q, replay_obj(c, sequence=list(q), system=sysd, failing=str(bad)),
                                                   "force evaluation %d after switching integrators %s is not the specified sum for the routine (%s) "
                                                   "and gravity_ignore_terms (%d) the simulation reports" % (call, "->".join(q), sim2.gravity, sim2.gravity_ignore)))
                # (ii) two steps vs a fresh simulation
                for _ in range(2):
                    sim.step(); fresh.step()
                sim.synchronize(); fresh.synchronize()
                scale = max(abs(getattr(p, cc)) for p in fresh.particles for cc in "xyz") or 1.0
                diff = max(abs(getattr(p, cc) - getattr(r_, cc)) for p, r_ in zip(sim.particles, fresh.particles) for cc in "xyz")
                ctx.evaluations += 1
                ctx.nontrivial.add(("sequence",) + tuple(q))
                if not diff <= 1e-10 * scale:
                    B = last.partition(":")[0]
                    if sim.gravity != fresh.gravity:
                        key = "sequence:gravity_left=%s" % sim.gravity
                    elif sim.gravity_ignore != fresh.gravity_ignore:
                        key = "sequence:ignore_terms_left=%d:%s" % (sim.gravity_ignore, B)
                    else:
                        # same force selectors, different trajectory: internal integrator state carried over (e.g. the N-body ODE that
                        # BS leaves registered, JANUS' integer coordinates) - not a property of the force routines; reported, not judged here
                        other.append(("->".join(q), float("%.3g" % diff)))
                        continue
                    found.setdefault(key, (q, {"sequence": list(q), "system": sysd, "failing": "max |dx| vs fresh simulation %.3e; gravity %s/%s, "
                                               "gravity_ignore_terms %d/%d (continued/fresh)" % (diff, sim.gravity, fresh.gravity, sim.gravity_ignore, fresh.gravity_ignore)},
                                           "after %s the trajectory differs from a fresh simulation given the same state and integrator %s: a gravity "
                                           "selector left behind by an earlier integrator changes the force" % ("->".join(q[:-1]), last)))
            except (RuntimeError, ValueError, AttributeError):
                continue
    ctx.extra["sequence_state_differences_not_force_related"] = other[:40]
    for key, (q, rep, what) in sorted(found.items()):
        ctx.violation(key, rep, True, what)


# ----------------------------------------------------------------------------------------------- MERCURIUS encounters with a changing particle set
def enc_reference(sim, clib, mode1_only):
    """Specified accelerations of the encounter members for the CURRENT particle set, encounter list and active split
    (index < N_active), in the heliocentric frame of the encounter step.  mode1_only: the (1-L)-weighted encounter part;
    else: what mode 0 + mode 1 must add up to = star term + full pair force inside the list + L-weighted pairs with non-members."""
    rim = sim.ri_mercurius
    ps = sim.particles
    N = sim.N
    G = sim.G
    e2 = sim.softening ** 2
    Nact = N if sim.N_active == -1 else sim.N_active
    members = [rim._encounter_map[k] for k in range(rim._encounter_N)]
    ref = {}
    mags = {}

    def L(d, mi, mj):
        return clib.reb_integrator_mercurius_L_mercury(ctypes.byref(sim), ctypes.c_double(d), ctypes.c_double(max(rim._dcrit[mi], rim._dcrit[mj])))

    for mi in members[1:]:
        pi = ps[mi]
        d = math.sqrt(pi.x ** 2 + pi.y ** 2 + pi.z ** 2 + e2)
        pre = -G * ps[0].m / d ** 3
        a = [pre * pi.x, pre * pi.y, pre * pi.z]
        mag = abs(pre) * (abs(pi.x) + abs(pi.y) + abs(pi.z))
        for mj in range(1, N):
            if mj == mi:
                continue
            inside = mj in members
            if mode1_only and not inside:
                continue
            if mj < Nact:
                acts = True
            else:
                acts = (mi < Nact) and sim.testparticle_type == 1
            if not acts:
                continue
            pj = ps[mj]
            dx, dy, dz = pi.x - pj.x, pi.y - pj.y, pi.z - pj.z
            d = math.sqrt(dx * dx + dy * dy + dz * dz + e2)
            Lv = L(d, mi, mj)
            w = (1. - Lv) if mode1_only else (1. if inside else Lv)
            pre = -G * pj.m * w / d ** 3
            a[0] += pre * dx; a[1] += pre * dy; a[2] += pre * dz
            mag += abs(pre) * (abs(dx) + abs(dy) + abs(dz))
        ref[mi] = a
        mags[mi] = mag
    return members, ref, mags


def enc_scenario(rebound, sc, log):
    """one MERCURIUS step with an encounter (two planets 0.1 apart, a test particle next to them), an event inside the encounter step"""
    clib = rebound.clibrebound
    clib.reb_integrator_mercurius_L_mercury.restype = ctypes.c_double
    sim = rebound.Simulation()
    sim.add(m=1., r=0.005)
    sim.add(m=sc["mp"][0], r=1e-3, x=1.00, vy=1.)
    sim.add(m=sc["mp"][1], r=1e-4, x=1.10, vy=math.sqrt(1. / 1.10))
    if sc["far_active"]:
        sim.add(m=3e-4, r=1e-4, x=-3.0, vy=-math.sqrt(1. / 3.0))
    nact = sim.N
    sim.add(m=sc["mtp"], r=4e-3 if sc["event"] == "merge" else 1e-5, x=1.00, y=-0.006 if sc["event"] == "merge" else -0.03, vy=1.20)   # near planet 1
    sim.add(m=sc["mtp"], r=1e-5, x=1.12, y=0.02, vy=0.93)      # near planet 2
    if sc["far_tp"]:
        sim.add(m=sc["mtp"], r=1e-5, x=0., y=2.2, vx=-math.sqrt(1. / 2.2))
    sim.N_active = nact
    sim.testparticle_type = sc["tp"]
    sim.softening = sc["soft"]
    sim.integrator = "mercurius"
    sim.dt = 0.01
    if sc["event"] == "merge":
        sim.collision = "direct"
        sim.collision_resolve = "merge"
    state = {"calls": 0, "done": False}

    def cb(simp):
        s = simp.contents
        rim = s.ri_mercurius
        if rim.mode != 1:
            return
        state["calls"] += 1
        if not state["done"] and state["calls"] == sc["at"] and sc["event"] not in ("merge", "none"):
            state["done"] = True
            ev = sc["event"]
            Na = s.N_active
            if ev == "remove_tp_member":
                s.remove(index=Na)                 # first test particle (next to planet 1)
            elif ev == "remove_tp_member2":
                s.remove(index=Na + 1)
            elif ev == "remove_active_member":
                s.remove(index=2)
            elif ev == "remove_far_active":
                s.remove(index=3)
            elif ev == "remove_far_tp":
                s.remove(index=s.N - 1)
            elif ev == "add_tp":
                s.add(m=sc["mtp"], r=1e-5, x=s.particles[1].x + 0.02, y=s.particles[1].y + 0.01, vx=s.particles[1].vx, vy=s.particles[1].vy)
        N = s.N
        Nact = N if s.N_active == -1 else s.N_active
        members = [rim._encounter_map[k] for k in range(rim._encounter_N)]
        rec = {"t": s.t, "N": N, "N_active": s.N_active, "members": members, "encounter_N_active": rim._encounter_N_active, "call": state["calls"]}
        if any(not (0 <= m < N) for m in members) or len(set(members)) != len(members):
            rec["bad"] = "map"; log.append(rec); return
        cnt = sum(1 for m in members if m < Nact)
        if cnt != rim._encounter_N_active:
            rec["bad"] = "count"; rec["expected_encounter_N_active"] = cnt
        clib.reb_simulation_update_acceleration(ctypes.byref(s))
        a1 = [(s.particles[i].ax, s.particles[i].ay, s.particles[i].az) for i in range(N)]
        _, ref1, mag1 = enc_reference(s, clib, True)
        rim.mode = 0
        clib.reb_simulation_update_acceleration(ctypes.byref(s))
        a0 = [(s.particles[i].ax, s.particles[i].ay, s.particles[i].az) for i in range(N)]
        rim.mode = 1
        clib.reb_simulation_update_acceleration(ctypes.byref(s))
        _, refs, mags = enc_reference(s, clib, False)
        w1 = ws = 0.0
        for mi in members[1:]:
            e1 = max(abs(a1[mi][k] - ref1[mi][k]) for k in range(3)) / (mag1[mi] or 1.0)
            es = max(abs(a0[mi][k] + a1[mi][k] - refs[mi][k]) for k in range(3)) / (mags[mi] or 1.0)
            w1 = max(w1, e1); ws = max(ws, es)
        rec["err_mode1"] = w1; rec["err_sum"] = ws
        if "bad" not in rec and (w1 > 1e-11 or ws > 1e-11 or w1 != w1 or ws != ws):
            rec["bad"] = "force"
        log.append(rec)

    sim.post_timestep_modifications = cb
    for _ in range(sc.get("steps", 1)):
        sim.step()
    return sim.N


def enc_search(ctx, rebound, rng):
    import warnings
    events = ["none", "merge", "remove_tp_member", "remove_tp_member2", "remove_active_member", "remove_far_active", "remove_far_tp", "add_tp"]
    found = {}
    nenc = 0
    with warnings.catch_warnings():
        warnings.simplefilter("ignore")
        for ev in events:
            for tp in (0, 1):
                for rep in range(ctx.scale(1, 4)):
                    sc = {"event": ev, "tp": tp, "mp": [10 ** rng.uniform(-3.3, -2.7), 10 ** rng.uniform(-3.3, -2.7)],
                          "mtp": 0.0 if (tp == 0 and rng.random() < 0.5) else 10 ** rng.uniform(-9, -7),
                          "far_active": ev == "remove_far_active" or rng.random() < 0.5, "far_tp": ev == "remove_far_tp" or rng.random() < 0.5,
                          "soft": rng.choice([0.0, 1e-4]), "at": rng.randint(2, 6), "steps": 1}
                    if ev == "remove_far_active":
                        sc["far_active"] = True
                    log = []
                    try:
                        enc_scenario(rebound, sc, log)
                    except (RuntimeError, ValueError):
                        continue
                    ctx.evaluations += len(log)
                    if log:
                        nenc += 1
                        ctx.nontrivial.add(("encounter", ev, tp, len(set(r["N"] for r in log)) > 1))
                    for r in log:
                        if "bad" in r:
                            key = {"count": "encounter:mercurius:encounter_N_active", "map": "encounter:mercurius:encounter_map",
                                   "force": "encounter:mercurius:force"}[r["bad"]]
                            key += ":" + ev
                            found.setdefault(key, ({"scenario": sc, "record": r},
                                "MERCURIUS encounter step, event %s at sub-step %d: %s" % (ev, sc["at"],
                                 {"count": "encounter_N_active != number of mapped indices < N_active",
                                  "map": "encounter_map holds an out-of-range or repeated index",
                                  "force": "mode-1 force / mode-0 + mode-1 force differs from the specified sum for the current particle set and active split"}[r["bad"]])))
                            break
    ctx.extra["encounter_scenarios_with_substeps"] = nenc
    ctx.obligation("searcher:MERCURIUS encounter scenarios reached the encounter step", nenc >= 8, "only %d scenarios produced encounter sub-steps" % nenc)
    for key, (rep, what) in sorted(found.items()):
        ctx.violation(key, rep, True, what)


# ----------------------------------------------------------------------------------------------- history vs fresh object (forces)
def hvf_eval(rebound, sim):
    """what a step does before it uses the forces: (tree gravity) update the tree and its gravity data; then the accelerations"""
    clib = rebound.clibrebound
    if sim.gravity == "tree":
        clib.reb_simulation_update_tree(ctypes.byref(sim))
        clib.reb_simulation_update_tree_gravity_data(ctypes.byref(sim))
    clib.reb_simulation_update_acceleration(ctypes.byref(sim))
    out = [v for p in sim.particles for v in (p.ax, p.ay, p.az)]
    if sim.gravity == "compensated":
        out += [v for i in range(sim.N) for v in (sim.gravity_cs[i].x, sim.gravity_cs[i].y, sim.gravity_cs[i].z)]
    return out


def hvf_fresh(rebound, sim):
    """a new simulation holding the same particles (same order), time and force-related settings"""
    f = rebound.Simulation()
    f.G = sim.G; f.softening = sim.softening; f.opening_angle2 = sim.opening_angle2; f.t = sim.t; f.dt = sim.dt
    if sim.root_size != -1:
        f.configure_box(sim.root_size, sim.N_root_x, sim.N_root_y, sim.N_root_z)
    f.boundary = sim.boundary
    f.N_ghost_x, f.N_ghost_y, f.N_ghost_z = sim.N_ghost_x, sim.N_ghost_y, sim.N_ghost_z
    f.integrator = sim.integrator
    f.gravity = sim.gravity
    for p in sim.particles:
        f.add(m=p.m, x=p.x, y=p.y, z=p.z, vx=p.vx, vy=p.vy, vz=p.vz, r=p.r)
    f.N_active = sim.N_active; f.testparticle_type = sim.testparticle_type; f.gravity_ignore = sim.gravity_ignore
    return f


def hvf_search(ctx, rebound, rng):
    """an object with a history must give the same forces as a fresh object holding the same state (bit for bit: the force
    routines have no legitimate memory): compensated-summation carries, a tree built for an earlier particle set, gravity routine
    switched and switched back, remove+add with N unchanged, G / softening / opening angle / N_active changed between evaluations,
    MERCURIUS/TRACE steps before (splitting state left in ri_mercurius / ri_trace)."""
    import warnings
    found = {}

    def newsim(grav, n, box=None):
        sim = rebound.Simulation()
        sim.G = rng.choice([1.0, 39.476926421373]); sim.softening = rng.choice([0.0, 1e-3])
        if box:
            sim.configure_box(*box); sim.boundary = "open"
        sim.gravity = grav
        sim.opening_angle2 = rng.choice([0.0, 0.25, 1.0])
        half = 0.45 * (box[0] if box else 20.0)
        for i in range(n):
            sim.add(m=rng.choice([0.0, 1e-3, 1.0]) * rng.uniform(0.5, 1.5), x=rng.uniform(-half, half), y=rng.uniform(-half, half), z=rng.uniform(-half, half),
                    vx=rng.gauss(0, 0.1), vy=rng.gauss(0, 0.1), vz=rng.gauss(0, 0.1), r=1e-4)
        return sim, half

    def mutate(sim, half, what):
        n = sim.N
        if what == "move" and n:
            for p in sim.particles:
                p.x += rng.uniform(-0.1, 0.1) * half; p.y *= 0.9; p.z = -p.z * 0.5
        elif what == "remove_add" and n:
            sim.remove(index=rng.randrange(n))
            sim.add(m=rng.uniform(0.1, 1), x=rng.uniform(-half, half), y=rng.uniform(-half, half), z=rng.uniform(-half, half), r=1e-4)
        elif what == "remove" and n:
            sim.remove(index=rng.randrange(n))
        elif what == "add":
            sim.add(m=rng.uniform(0.1, 1), x=rng.uniform(-half, half), y=rng.uniform(-half, half), z=rng.uniform(-half, half), r=1e-4)
        elif what == "settings":
            sim.G *= rng.choice([2.0, 0.5, -1.0]); sim.softening = rng.choice([0.0, 0.05, 1e-6]); sim.opening_angle2 = rng.choice([0.0, 0.3, 2.0])
        elif what == "partition" and n:
            sim.N_active = rng.choice([-1, 0, 1, n, rng.randint(0, n)]); sim.testparticle_type = rng.randint(0, 1)
        elif what == "masses" and n:
            for p in sim.particles:
                p.m = rng.choice([0.0, p.m, 2 * p.m + 1e-3])

    def judge(sim, hist):
        a = hvf_eval(rebound, sim)          # first: the tree update may legitimately reorder particles[] (re-insertion)
        fr = hvf_fresh(rebound, sim)
        if fr.N != sim.N:
            return
        b = hvf_eval(rebound, fr)
        ctx.evaluations += 1
        ctx.nontrivial.add(("hvf", sim.gravity) + tuple(hist))
        bad = [i for i, (u, v) in enumerate(zip(a, b)) if not vlib.same_bits(u, v)]
        if bad or len(a) != len(b):
            key = "history:%s:%s" % (sim.gravity, hist[-1])
            found.setdefault(key, ({"history": list(hist), "gravity": sim.gravity, "N": sim.N, "first_difference": bad[:1],
                                    "with_history": [float(x).hex() for x in a[:12]], "fresh": [float(x).hex() for x in b[:12]],
                                    "particles": [[float(v).hex() for v in (p.m, p.x, p.y, p.z)] for p in sim.particles][:12]},
                                   "forces of an object with history %s differ from those of a fresh object holding the same state" % (hist,)))

    with warnings.catch_warnings():
        warnings.simplefilter("ignore")
        muts = ["move", "remove_add", "remove", "add", "settings", "partition", "masses"]
        for rep in range(ctx.scale(2, 10)):
            for grav in ("basic", "compensated", "tree", "jacobi"):
                for m1 in muts:
                    try:
                        box = (rng.choice([10.0, 7.3]), rng.choice([1, 2]), 1, 1) if grav == "tree" else None
                        sim, half = newsim(grav, rng.choice([0, 1, 2, 3, 5, 9]), box)
                        if grav == "jacobi":
                            sim.integrator = "whfast"
                        hvf_eval(rebound, sim)                      # history: forces computed for the first state
                        mutate(sim, half, m1)
                        judge(sim, ("eval", m1))
                        m2 = rng.choice(muts)
                        mutate(sim, half, m2)
                        judge(sim, ("eval", m1, m2))
                        # gravity routine switched and switched back (tree kept while another routine is used)
                        other = "compensated" if grav != "compensated" else "basic"
                        sim.gravity = other
                        hvf_eval(rebound, sim)
                        mutate(sim, half, "move")
                        if grav == "jacobi":
                            sim.integrator = "whfast"
                        sim.gravity = grav
                        judge(sim, ("eval", m1, m2, "switch_%s_and_back" % other))
                    except (RuntimeError, ValueError, AttributeError):
                        continue
            # splitting state: steps with MERCURIUS / TRACE / WHFast, then a plain force evaluation with BASIC/COMPENSATED
            for integ in ("mercurius", "trace", "whfast", "ias15"):
                try:
                    sysd = seq_system(rng)
                    sim = seq_make(rebound, sysd)
                    sim.integrator = integ
                    for _ in range(3):
                        sim.step()
                    sim.synchronize()
                    if rng.random() < 0.5 and sim.N > 2:
                        sim.remove(index=sim.N - 1)
                        sim.add(m=1e-4, a=7.0, f=1.0)
                    sim.integrator = "leapfrog"
                    sim.gravity = rng.choice(["basic", "compensated"])
                    sim.gravity_ignore = 0
                    judge(sim, ("steps_" + integ, "plain_force"))
                    # and continuing with the same integrator after remove+add with N unchanged: one more step vs fresh
                    sim2 = seq_make(rebound, sysd); sim2.integrator = integ
                    for _ in range(3):
                        sim2.step()
                    sim2.synchronize()
                    k = sim2.N - 1
                    sim2.remove(index=k)
                    sim2.add(m=2e-4, a=6.0 + rng.random(), f=2.0)
                    fr = hvf_fresh(rebound, sim2)
                    sim2.step(); fr.step(); sim2.synchronize(); fr.synchronize()
                    if abs(sim2.t - fr.t) <= 1e-15 * abs(fr.t):
                        scale = max(abs(getattr(p, cc)) for p in fr.particles for cc in "xyz") or 1.0
                        diff = max(abs(getattr(p, cc) - getattr(q_, cc)) for p, q_ in zip(sim2.particles, fr.particles) for cc in "xyz")
                        ctx.evaluations += 1
                        if not diff <= 1e-11 * scale and sim2.gravity == fr.gravity and sim2.gravity_ignore == fr.gravity_ignore:
                            ctx.extra.setdefault("history_state_differences_not_force_related", []).append((integ + ":remove+add,N unchanged", float("%.3g" % diff)))
                        elif not diff <= 1e-11 * scale:
                            found.setdefault("history:selector:%s" % integ, ({"integrator": integ, "system": sysd, "gravity": [sim2.gravity, fr.gravity],
                                             "gravity_ignore_terms": [sim2.gravity_ignore, fr.gravity_ignore], "diff": diff},
                                             "after remove+add with N unchanged the force selectors differ from a fresh object"))
                except (RuntimeError, ValueError, AttributeError):
                    continue
    for key, (rep, what) in sorted(found.items()):
        ctx.violation(key, rep, True, what)


# ----------------------------------------------------------------------------------------------- main
def run(ctx):
    libdir = ctx.lib(tag="c02")   # own build directory: concurrent checks with another VERIF_REPO purge lib-default-*
    ctx.regen("translate_gravprologue.py")
    proved = ctx.prove("C02", extra_targets=["C02/Run.vo", "C02/RunWH.vo", "C02/RunTree.vo"])
    sys.path.insert(0, libdir)
    import rebound
    rng = ctx.rng
    # ---- correspondence
    cases = enumerate_cases(rng, ctx.thorough)
    expected = []
    for k, c in enumerate(cases):
        expected.append(lib_eval(rebound, c))
        ctx.case(key=(c["routine"], c["N"], c["nact_raw"], c["tp"], c["ign"], c["ghost"]), nontrivial=c["N"] >= 2,
                 sample=({"routine": c["routine"], "N": c["N"], "N_active": c["nact_raw"], "testparticle_type": c["tp"],
                          "gravity_ignore_terms": c["ign"], "ghost": c["ghost"]} if k % 997 == 5 else None))
    lc = L_cases(rng, ctx.scale(400, 4000))
    Lf = rebound.clibrebound.reb_integrator_mercurius_L_mercury
    Lf.restype = ctypes.c_double
    Lf.argtypes = [ctypes.c_void_p, ctypes.c_double, ctypes.c_double]
    items = [(coq_term(c), e) for c, e in zip(cases, expected)]
    items += [("(runL %s %s)" % (vlib.fhex(d), vlib.fhex(dc)), [Lf(None, d, dc)]) for d, dc in lc]
    for nm, run in (("reb_integrator_mercurius_L_C4", "runL4"), ("reb_integrator_mercurius_L_C5", "runL5")):
        Lg = getattr(rebound.clibrebound, nm)
        Lg.restype = ctypes.c_double
        Lg.argtypes = [ctypes.c_void_p, ctypes.c_double, ctypes.c_double]
        items += [("(%s %s %s)" % (run, vlib.fhex(d), vlib.fhex(dc)), [Lg(None, d, dc)]) for d, dc in lc]
    # L_infinity: libm's exp is an oracle input of the model (math.exp is the same glibc function the library calls)
    import numpy as np
    Li = rebound.clibrebound.reb_integrator_mercurius_L_infinity
    Li.restype = ctypes.c_double
    Li.argtypes = [ctypes.c_void_p, ctypes.c_double, ctypes.c_double]
    with np.errstate(all="ignore"):
        for d, dc in lc:
            y = float((np.float64(d) - np.float64(0.1) * np.float64(dc)) / (np.float64(0.9) * np.float64(dc)))
            e1 = e2 = 0.0
            if 0.0 <= y <= 1.0:
                e1 = math.exp(float(np.float64(-1.0) / np.float64(y)))
                e2 = math.exp(float(np.float64(-1.0) / (np.float64(1.0) - np.float64(y))))
            items.append(("(runLinf %s %s %s %s)" % (vlib.fhex(e1), vlib.fhex(e2), vlib.fhex(d), vlib.fhex(dc)), [Li(None, d, dc), y]))
    labels = {}
    replays = {}
    for term, exp, lab, rep in wh_cases(rng, rebound, ctx.scale(300, 3000)):
        labels[len(items)] = lab
        replays[len(items)] = rep
        items.append((term, exp))
        ctx.case(key=lab, nontrivial=lab[1] >= 2)
    lay_ok, lay_detail = tree_layout_ok()
    ctx.obligation("regenerate:struct reb_treecell layout of tree.h == ctypes mirror used to walk the library's tree", lay_ok, lay_detail)
    tcost = {}
    if lay_ok:
        for term, exp, lab, rep in tree_cases(rng, rebound, ctx.scale(400, 3000), ctx.scale(40, 150)):
            labels[len(items)] = lab
            replays[len(items)] = rep
            tcost[len(items)] = 5 + lab[1] ** 2 * (2 * lab[3][0] + 1) * (2 * lab[3][1] + 1) * (2 * lab[3][2] + 1) * max(1, lab[5])
            items.append((term, exp))
            ctx.case(key=lab[:5], nontrivial=lab[1] >= 2)
        notonce = sorted((i for i, lab in labels.items() if lab[0] == "tree" and not lab[6]), key=lambda i: labels[i][1])
        if TREE_LOST and not notonce:
            ctx.violation("tree:particle_lost_on_update", TREE_LOST[0], True,
                          "reb_simulation_update_tree removed a particle that had not moved (N %d -> %d)" % (TREE_LOST[0]["N"], TREE_LOST[0]["N_after_update_tree"]))
        if notonce:
            # hypothesis of C02_tree_theta0_eq_spec fails on the library's own tree: a particle is in particles[] but in no leaf,
            # so the tree force misses it (the tree bookkeeping itself is C15's subject; the force consequence is C02's)
            ctx.violation("tree:particle_lost_on_update", replays[notonce[0]], True,
                          "after reb_simulation_update_tree a particle index is missing from the leaves of the tree (cases %s): "
                          "REB_GRAVITY_TREE then ignores that particle" % [labels[i][:5] for i in notonce[:4]])
    # chunks balanced by cost ~ N^2 * boxes
    def cost(i):
        if i in tcost:
            return tcost[i]
        if i >= len(cases):
            return 1
        c = cases[i]
        g = c["ghost"]
        return 5 + c["N"] ** 2 * (2 * g[0] + 1) * (2 * g[1] + 1) * (2 * g[2] + 1) * max(1, c["N"] // 8)
    order = sorted(range(len(items)), key=lambda i: -cost(i))
    nchunks = max(16, len(items) // 120)
    chunks = [[] for _ in range(nchunks)]
    loads = [0] * nchunks
    for i in order:
        b = loads.index(min(loads))
        chunks[b].append(i); loads[b] += cost(i)
    jobs = []
    for b, idx in enumerate(chunks):
        body = HEADER + "Definition cases : list (list float * list float) := [\n"
        body += ";\n".join("(%s, %s)" % (items[i][0], vlib.flist(items[i][1])) for i in idx)
        body += "].\nEval vm_compute in (bad_cases cases).\n"
        jobs.append(("c02_%d" % b, body))
    bad_total = []
    corr_ok = True
    for (name, ok, out), idx in zip(vlib.coq_eval_many(jobs, timeout=900), chunks):
        bad = vlib.parse_coq_list_nat(out) if ok else None
        if bad is None:
            corr_ok = False
            ctx.obligation("correspondence:C02:" + name, False, out[-1500:])
        else:
            bad_total += [idx[b] for b in bad]
    ctx.traces = len(items) if corr_ok else 0
    def describe(i):
        if i in labels:
            return labels[i]
        if i >= len(cases):
            return ("L_mercury/C4/C5/infinity",) + lc[(i - len(cases)) % len(lc)]
        c = cases[i]
        return (c["routine"], c["N"], c["nact_raw"], c["tp"], c["ign"], c["ghost"])
    ctx.obligation("correspondence:C02 model(binary64) == reb_simulation_update_acceleration bit-for-bit on %d cases "
                   "(+%d values each of L_mercury, L_C4, L_C5, L_infinity)" % (len(cases), len(lc)), corr_ok and not bad_total,
                   "mismatching cases: %s" % [describe(b) for b in sorted(bad_total)[:10]])
    dist = {}
    for c in cases:
        k = "%s|N=%s" % (c["routine"], c["N"] if c["N"] < 7 else "7+")
        dist[k] = dist.get(k, 0) + 1
    ctx.extra["input_distribution"] = dist
    if bad_total:
        # give the mismatch a replay (the model is the specification the theorems are about)
        seen_kinds = set()
        for x in sorted((x for x in bad_total if x in replays), key=lambda i: replays[i]["N"]):
            kind = replays[x]["routine"]
            if kind in seen_kinds:
                continue
            seen_kinds.add(kind)
            ctx.violation("correspondence:%s" % kind, replays[x], True,
                          "library output differs bitwise from the binary64 instance of the proved model (%s)" % (labels[x],))
        b = min((x for x in bad_total if x < len(cases)), key=lambda i: cases[i]["N"], default=None)
        if b is not None:
            ctx.violation("correspondence:%s" % cases[b]["routine"], replay_obj(cases[b], library=[float(x).hex() for x in expected[b]]),
                          True, "library output differs bitwise from the binary64 instance of the proved model")
    # ---- searcher
    searcher(ctx, rebound, rng)
    seq_search(ctx, rebound, rng)
    enc_search(ctx, rebound, rng)
    hvf_search(ctx, rebound, rng)
    ctx.rule = ("correspondence: every (routine, N_active in {-1,0..N}, testparticle_type, gravity_ignore_terms, ghost/boundary/root-box "
                "variant) combination for N<=5 and a thinned set for larger N (to 40 quick / 200 thorough), masses incl. 0 and ratios "
                "1e-12, random G/softening/positions incl. close pairs; a case is distinct by (routine,N,N_active,type,ign,ghost); "
                "non-trivial iff N>=2. searcher: random systems, same parameter space + tree")
    ctx.assumptions += [
        "theorems are over Coq reals (exact arithmetic); the binary64 instance of the same Gallina terms is what is compared with the C code",
        "0 <= N_active <= N (or -1), N_var = 0; the OPENMP/MPI/QUADRUPOLE variants are not compiled and not modelled",
        "ghost boxes: REB_BOUNDARY_OPEN/PERIODIC/NONE shifts (boxsize*index); the shearing-sheet shift (fmod, time dependent) is not modelled",
        "tree gravity is validated by the searcher only (theta=0 equals the direct sum to rounding; theta>0 within a generous monopole bound)",
    ]


def replay(ctx, rep):
    libdir = ctx.lib(tag="c02")   # own build directory: concurrent checks with another VERIF_REPO purge lib-default-*
    sys.path.insert(0, libdir)
    import rebound
    c = unhex(rep["replay"])
    c.pop("failing", None); c.pop("library", None)
    got = lib_eval(rebound, c)
    print("key:", rep.get("key"), "\nwhat:", rep.get("what"))
    print("library accelerations:", got)
    if c["routine"] in ("basic", "compensated"):
        acc, mag = spec_acc(c)
        if acc is not None:
            print("specified sum       :", [float(v) for a in acc for v in a])
    return 0
