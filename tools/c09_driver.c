/* C09 correspondence driver: executes a sequence of API calls on a small planetary system and reports, after every
   call, the flags is_synchronized / recalculate_coordinates_this_timestep / safe_mode / keep_unsynchronized (function
   c09_mark: printed, and a gdb breakpoint).  Under `gdb -batch -x c09_trace.gdb` against a -O0 -g build of the current
   tree the operator functions are logged with their arguments; the same driver linked against the production build
   gives the flags of the production build.
   usage: c09_driver <dt> <calls> whfast <kernel> <corrector> <corrector2> <coordinates> <var 0|1|2> <safe> <keep>
                                   saba <type> <safe> <keep> | mercurius <safe> | eos <phi0> <phi1> <n> <safe>
   calls: comma separated: s step, y synchronize, v save_to_file, c copy (+ one step of the copy), e energy,
          g read particles, i<N> integrate N steps (exact_finish_time 0), x<N> integrate N steps + half a step with exact_finish_time 1, Fs0 Fs1 safe_mode, Fk0 Fk1 keep_unsynchronized,
          Fr recalculate_coordinates_this_timestep = 1 */
#include <stdio.h>
#include <stdlib.h>
#include <string.h>
#include <unistd.h>
#include "rebound.h"
static const char* integ;
void __attribute__((noinline)) c09_mark(int k, int f1, int f2, int f3, int f4){
    printf("MARK %d %d %d %d %d\n", k, f1, f2, f3, f4); fflush(stdout);
}
static void mark(struct reb_simulation* r, int k){
    if (!strcmp(integ, "whfast")) c09_mark(k, r->ri_whfast.is_synchronized, r->ri_whfast.recalculate_coordinates_this_timestep, r->ri_whfast.safe_mode, r->ri_whfast.keep_unsynchronized);
    else if (!strcmp(integ, "saba")) c09_mark(k, r->ri_saba.is_synchronized, r->ri_whfast.recalculate_coordinates_this_timestep, r->ri_saba.safe_mode, r->ri_saba.keep_unsynchronized);
    else if (!strcmp(integ, "mercurius")) c09_mark(k, r->ri_mercurius.is_synchronized, r->ri_mercurius.recalculate_coordinates_this_timestep, r->ri_mercurius.safe_mode, 0);
    else c09_mark(k, r->ri_eos.is_synchronized, r->ri_eos.safe_mode, 0, 0);
}
int main(int argc, char** argv){
    if (argc < 5) return 2;
    double dt = atof(argv[1]);
    char* calls = strdup(argv[2]);
    integ = argv[3];
    char** o = argv + 4; int no = argc - 4;
    struct reb_simulation* r = reb_simulation_create();
    struct reb_particle p = {0};
    if (!getenv("C09_EMPTY")){      /* C09_EMPTY: a simulation without particles */
    p.m = 1.0; reb_simulation_add(r, p);
    p.m = 1e-3; p.x = 1.0; p.y = 0.02; p.z = 0.01; p.vx = -0.01; p.vy = 1.0; p.vz = 0.02; reb_simulation_add(r, p);
    p.m = 5e-4; p.x = -0.1; p.y = 2.3; p.z = -0.03; p.vx = -0.65; p.vy = -0.02; p.vz = 0.01; reb_simulation_add(r, p);
    reb_simulation_move_to_com(r);
    }
    r->dt = dt;
    r->exact_finish_time = 0;
    if (!strcmp(integ, "whfast") && no >= 7){
        r->integrator = REB_INTEGRATOR_WHFAST;
        r->ri_whfast.kernel = atoi(o[0]); r->ri_whfast.corrector = atoi(o[1]); r->ri_whfast.corrector2 = atoi(o[2]);
        r->ri_whfast.coordinates = atoi(o[3]);
        int var = atoi(o[4]);
        r->ri_whfast.safe_mode = atoi(o[5]); r->ri_whfast.keep_unsynchronized = atoi(o[6]);
        if (var == 1){ int vi = reb_simulation_add_variation_1st_order(r, -1); r->particles[vi+1].vx = 1.0; r->particles[vi+2].y = 0.3; }
        if (var == 2){ reb_simulation_init_megno_seed(r, 7); }
    }else if (!strcmp(integ, "saba") && no >= 3){
        r->integrator = REB_INTEGRATOR_SABA; r->ri_saba.type = (int)strtol(o[0], NULL, 0);
        r->ri_saba.safe_mode = atoi(o[1]); r->ri_saba.keep_unsynchronized = atoi(o[2]);
    }else if (!strcmp(integ, "mercurius") && no >= 1){
        r->integrator = REB_INTEGRATOR_MERCURIUS; r->ri_mercurius.safe_mode = atoi(o[0]);
    }else if (!strcmp(integ, "eos") && no >= 4){
        r->integrator = REB_INTEGRATOR_EOS; r->ri_eos.phi0 = atoi(o[0]); r->ri_eos.phi1 = atoi(o[1]); r->ri_eos.n = atoi(o[2]);
        r->ri_eos.safe_mode = atoi(o[3]);
    }else return 2;
    char fn[256]; snprintf(fn, sizeof fn, "/tmp/c09drv_%d.bin", (int)getpid());
    int k = 0;
    c09_mark(-1, 0, 0, 0, 0);
    for (char* tok = strtok(calls, ","); tok; tok = strtok(NULL, ","), k++){
        if (!strcmp(tok, "s")) reb_simulation_step(r);
        else if (!strcmp(tok, "y")) reb_simulation_synchronize(r);
        else if (!strcmp(tok, "v")){ remove(fn); reb_simulation_save_to_file(r, fn); remove(fn); }
        else if (!strcmp(tok, "c")){ struct reb_simulation* c = reb_simulation_copy(r); if (c) reb_simulation_free(c); }
        else if (!strcmp(tok, "e")){ volatile double e = reb_simulation_energy(r); (void)e; struct reb_vec3d L = reb_simulation_angular_momentum(r); (void)L; }
        else if (!strcmp(tok, "g")){ volatile double s = 0; for (unsigned int i = 0; i < r->N; i++) s += r->particles[i].x + r->particles[i].vx; }
        else if (tok[0] == 'i'){ int n = atoi(tok + 1); reb_simulation_integrate(r, r->t + (n - 0.5) * r->dt); }
        else if (tok[0] == 'x'){ int n = atoi(tok + 1); r->exact_finish_time = 1; reb_simulation_integrate(r, r->t + (n + 0.5) * r->dt); r->exact_finish_time = 0; }
        else if (!strcmp(tok, "Fs0") || !strcmp(tok, "Fs1")){ int v = tok[2] - '0';
            if (!strcmp(integ, "whfast")) r->ri_whfast.safe_mode = v; else if (!strcmp(integ, "saba")) r->ri_saba.safe_mode = v; }
        else if (!strcmp(tok, "Fk0") || !strcmp(tok, "Fk1")){ int v = tok[2] - '0';
            if (!strcmp(integ, "whfast")) r->ri_whfast.keep_unsynchronized = v; else if (!strcmp(integ, "saba")) r->ri_saba.keep_unsynchronized = v; }
        else if (!strcmp(tok, "Fr")) r->ri_whfast.recalculate_coordinates_this_timestep = 1;
        else return 3;
        mark(r, k);
    }
    if (r->N > 1) printf("STATE %.17g %.17g %.17g\n", r->particles[1].x, r->particles[1].vy, r->t);
    else printf("STATE 0 0 %.17g\n", r->t);
    reb_simulation_free(r);
    return 0;
}
