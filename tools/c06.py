"""C06 — every archive snapshot equals the live state when taken, under any history.

1. proof obligations: coq/C06 (diff_overlay for any two field lists; index of any chain of appended blobs; cadence);
2. correspondence, on real histories run against the library built from the current tree:
   (a) bytes of reb_binary_diff  ==  ser (binary_diff ...) of the Coq model (parsing done by the model),
   (b) the library's index (ok / corrupt warning / offsets / t)  ==  open_archive of the model on the same file bytes,
   (c) the file written by reb_simulation_save_to_file  ==  save_append of the model (byte for byte);
3. library-only searcher: random histories, oracle "Simulationarchive[k] re-saved == live stream kept at snapshot k",
   nblobs, per-snapshot times, cadence of automatic snapshots.  Failing histories are shrunk.
"""
import json, os, subprocess, sys, copy
import vlib, c06_lib as L

DRIVER = os.path.join(os.path.dirname(os.path.abspath(__file__)), "c06_driver.py")
KNOWN_KINDS = {"index_time_unchanged_t": "index-time-of-snapshot-with-unchanged-t", "signed_zero": "signed-zero-change-not-recorded"}


def run_jobs(libdir, batches, timeout=300, env_extra=None):
    """batches: list of job lists; one child process per batch, JOBS in parallel. Returns list of result lists
    (None for a batch whose process died: (returncode, stderr tail))."""
    from concurrent.futures import ThreadPoolExecutor
    def one(batch):
        try:
            r = subprocess.run([vlib.PY, DRIVER], env=dict(vlib.pyenv(libdir), **(env_extra or {})), input=json.dumps(batch), capture_output=True,
                               text=True, timeout=timeout)
        except subprocess.TimeoutExpired:
            return ("timeout", "")
        if r.returncode != 0:
            return (r.returncode, r.stderr[-800:])
        try:
            return json.loads(r.stdout)
        except Exception:
            return ("badjson", r.stdout[-300:] + r.stderr[-300:])
    with ThreadPoolExecutor(max_workers=vlib.JOBS) as ex:
        return list(ex.map(one, batches))


STRUCT_OPS = ["add", "remove_idx", "remove_hash", "remove_all", "integrator", "reset_integrator", "add_variation",
              "init_megno", "collide", "add_test"]


def gen_history(rng, small=False):
    integ = rng.choice(["whfast", "ias15", "leapfrog", "mercurius", "saba", "janus", "trace", "whfast", "ias15"])   # bs + changing N corrupts the heap without any snapshot: kept only as a switch target
    spec = {"n": rng.choice([1, 2, 2, 3] if small else [1, 2, 3, 3, 4, 6]), "integrator": integ,
            "dt": rng.choice([0.05, 0.01, -0.03]), "t0": rng.choice([0.0, 0.0, 0.5, -2.0])}
    ops = []
    nsnap = rng.randint(2, 4 if small else 6)
    for s in range(nsnap):
        for _ in range(rng.randint(0, 3)):
            u = rng.random()
            if u < 0.25:
                ops.append(["step", rng.randint(1, 3)])
            elif u < 0.32:
                ops.append(["integrate", rng.choice([0.1, 0.33]) * (1 if spec["dt"] > 0 else -1), rng.choice([0, 1])])
            elif u < 0.40:
                ops.append(["setting"] + rng.choice([["dt", 0.02], ["G", 1.5], ["softening", 1e-3], ["N_active", 1], ["gravity", "compensated"],
                                                     ["safe_mode", 0], ["corrector", 3], ["epsilon", 1e-8], ["exit_max_distance", 50.0], ["boxsize", 100.0]]))
            elif u < 0.43:
                ops.append(["signed_zero", rng.randint(0, 2)])
            elif u < 0.455:
                ops.append(["set_t", spec["t0"]])
            elif u < 0.48:
                ops.append(["set_p", rng.randint(0, 3), rng.choice(P_MEMBERS), None])
            elif u < 0.51:
                mv = rng.choice([("lrescale", -1.0), ("lrescale", 2.5), ("testparticle", 0)])
                ops.append(["set_vc", 0, mv[0], mv[1]])
            else:
                k = rng.choice(STRUCT_OPS)
                if k == "add":
                    ops.append(["add", 10 ** rng.uniform(-6, -3), rng.uniform(2.0, 5.0)])
                elif k == "add_test":
                    ops.append(["add_test", rng.uniform(3, 6)])
                elif k == "remove_idx":
                    ops.append(["remove_idx", rng.randint(0, 4), rng.choice([0, 1])])
                elif k == "integrator":
                    ops.append(["integrator", rng.choice(["whfast", "ias15", "leapfrog", "mercurius", "saba", "bs", "trace", "sei", "eos"])])
                else:
                    ops.append([k])
        ops.append(["snap"])
    return {"kind": "hist", "spec": spec, "ops": ops}


DIRECTED = [
    # persisted array present in snapshot 0 disappears (integrator reset) and reappears
    {"kind": "hist", "spec": {"n": 2, "integrator": "whfast"}, "ops": [["step", 1], ["snap"], ["reset_integrator"], ["snap"], ["step", 1], ["snap"]]},
    # all particles removed, then re-added
    {"kind": "hist", "spec": {"n": 3, "integrator": "ias15"}, "ops": [["step", 2], ["snap"], ["remove_all"], ["snap"], ["add", 1e-3, 2.0], ["add", 1e-3, 3.0], ["step", 1], ["snap"]]},
    # arrays shrink and grow
    {"kind": "hist", "spec": {"n": 4, "integrator": "ias15"}, "ops": [["step", 1], ["snap"], ["remove_idx", 1, 1], ["step", 1], ["snap"], ["add", 1e-4, 4.0], ["add", 1e-4, 5.0], ["add", 1e-4, 6.0], ["step", 1], ["snap"]]},
    {"kind": "hist", "spec": {"n": 3, "integrator": "whfast"}, "ops": [["snap"], ["add_variation"], ["step", 1], ["snap"], ["integrator", "ias15"], ["step", 1], ["snap"]]},
    {"kind": "hist", "spec": {"n": 3, "integrator": "mercurius"}, "ops": [["step", 1], ["snap"], ["collide"], ["snap"], ["integrator", "whfast"], ["step", 2], ["snap"]]},
    # known finding: snapshot whose t equals the t of snapshot 0 (t != 0)
    {"kind": "hist", "spec": {"n": 2, "integrator": "whfast", "t0": 0.5}, "ops": [["snap"], ["add", 1e-3, 2.0], ["snap"]]},
    # known finding: a coordinate changes from +0.0 to -0.0
    {"kind": "hist", "spec": {"n": 2, "integrator": "whfast"}, "ops": [["snap"], ["signed_zero", 1], ["snap"]]},
]


VC_MEMBERS = [("order", 2), ("index", 1), ("testparticle", 0), ("index_1st_order_a", 1), ("index_1st_order_b", 1), ("lrescale", -1.0)]
P_MEMBERS = ["x", "y", "z", "vx", "vy", "vz", "ax", "ay", "az", "m", "r", "last_collision"]
# exactly one member of one persisted record changes between two snapshots (nothing else happens in between)
for _integ in ("whfast", "ias15"):
    for _m, _v in VC_MEMBERS:
        DIRECTED.append({"kind": "hist", "spec": {"n": 2, "integrator": _integ}, "ops": [["add_variation"], ["step", 1], ["snap"], ["set_vc", 0, _m, _v], ["snap"]]})
DIRECTED.append({"kind": "hist", "spec": {"n": 2, "integrator": "ias15"}, "ops": [["init_megno"], ["step", 1], ["snap"], ["set_vc", 0, "lrescale", -1.0], ["snap"]]})
for _m in P_MEMBERS:
    DIRECTED.append({"kind": "hist", "spec": {"n": 3, "integrator": "whfast"}, "ops": [["step", 1], ["snap"], ["set_p", 1, _m, None], ["snap"]]})
DIRECTED.append({"kind": "hist", "spec": {"n": 3, "integrator": "whfast"}, "ops": [["step", 1], ["snap"], ["set_p", 2, "hash", 12345], ["snap"]]})
DIRECTED.append({"kind": "hist", "spec": {"n": 3, "integrator": "whfast"}, "ops": [["snap"], ["set_p", 0, "last_collision", 1.5], ["snap"]]})
# automatic variational rescaling: only lrescale (and the variational particles) change
for _integ in ("ias15", "whfast", "leapfrog"):
    DIRECTED.append({"kind": "hist", "spec": {"n": 2, "integrator": _integ}, "ops": [["add_variation"], ["step", 1], ["snap"], ["big_var"], ["step", 1], ["snap"], ["step", 1], ["snap"]]})
# a snapshot k >= 2 taken at a time bit-identical to snapshot 0's while snapshot k-1 has another time (its delta has no t field:
# the index must report snapshot 0's time, not the previous snapshot's)
for _integ, _t0 in (("whfast", 0.5), ("leapfrog", 0.0), ("ias15", -2.0)):
    DIRECTED.append({"kind": "hist", "spec": {"n": 2, "integrator": _integ, "t0": _t0},
                     "ops": [["snap"], ["step", 2], ["snap"], ["set_t", _t0], ["snap"], ["step", 1], ["snap"], ["set_t", _t0], ["snap"]]})
DIRECTED.append({"kind": "hist", "spec": {"n": 2, "integrator": "whfast", "dt": 0.05, "t0": 0.0},
                 "ops": [["snap"], ["integrate", 0.1, 1], ["snap"], ["setting", "dt", -0.05], ["integrate", -0.1, 1], ["set_t", 0.0], ["snap"]]})
# smallest sizes: a simulation without particles, one particle; first snapshot written with delete_file=True on a missing file
DIRECTED.append({"kind": "hist", "spec": {"n": 0, "integrator": "leapfrog"}, "ops": [["snap_del"], ["set_t", 1.0], ["snap"], ["snap"], ["add", 1.0, 1.0], ["snap"], ["remove_all"], ["snap"]]})
DIRECTED.append({"kind": "hist", "spec": {"n": 1, "integrator": "ias15", "t0": -2.0}, "ops": [["snap_del"], ["snap"], ["add_test", 3.0], ["snap"], ["remove_idx", 1, 0], ["snap"]]})
# correspondence (bytes through Coq) also sees one-member changes
CORR_EXTRA = [DIRECTED[7], DIRECTED[12], DIRECTED[10], DIRECTED[-7], DIRECTED[21], DIRECTED[-6], DIRECTED[-3], DIRECTED[-2], DIRECTED[-1]]


def gen_auto(rng):
    spec = {"n": rng.choice([2, 3]), "integrator": rng.choice(["whfast", "leapfrog", "saba", "whfast"]), "dt": rng.choice([0.05, 0.02, -0.04]),
            "t0": rng.choice([0.0, 1.0])}
    chunks = []
    for _ in range(rng.randint(1, 4)):
        chunks.append(rng.randint(1, 7))
        if rng.random() < 0.3:
            chunks.append("snap")
    job = {"kind": "auto", "spec": spec, "presteps": rng.randint(0, 3), "chunks": chunks}
    if rng.random() < 0.5:
        job["mode"] = "step"; job["k"] = rng.randint(1, 5)
    else:
        job["mode"] = "interval"; job["interval"] = (rng.randint(1, 3) + 0.37) * abs(spec["dt"])
    return job


def failures_of(res):
    """list of (kind, detail) for one hist / auto result"""
    out = []
    if res is None or "exception" in res:
        return out
    if "oracle" in res:
        o = res["oracle"]
        if o.get("error"):
            out.append(("open", o["error"]))
        elif o["nblobs"] != res["nsnap"]:
            out.append(("nblobs", "archive has %s snapshots, %d were written" % (o["nblobs"], res["nsnap"])))
        for s in o.get("state", []):
            out.append((s["kind"], "snapshot %d differs from the live state in %s" % (s["k"], s["fields"])))
        for s in o.get("time", []):
            out.append((s["kind"], "index time of snapshot %d is %#x, live t was %#x" % (s["k"], s["got"], s["want"])))
    for b in res.get("bad", []):
        out.append(({"cadence": "cadence", "index_time_unchanged_t": "index_time_unchanged_t"}.get(b["what"], "auto_state"), json.dumps(b)[:300]))
    return out


def shrink(libdir, job, kind, budget=40):
    """greedy removal of operations while the same kind of failure persists"""
    cur = copy.deepcopy(job)
    key = "ops" if job["kind"] == "hist" else "chunks"
    changed = True
    while changed and budget > 0:
        changed = False
        for i in range(len(cur[key])):
            cand = copy.deepcopy(cur); del cand[key][i]
            if not cand[key]:
                continue
            budget -= 1
            r = run_jobs(libdir, [[cand]])[0]
            if isinstance(r, list) and any(k == kind for k, _ in failures_of(r[0])):
                cur = cand; changed = True
                break
            if budget <= 0:
                break
    return cur


def layout_obligation(ctx):
    """struct offsets the model's payload comparison relies on, checked against the current rebound.h by the compiler"""
    src = r'''
#include <stddef.h>
#include "rebound.h"
_Static_assert(sizeof(struct reb_binary_field)==16, "f");
_Static_assert(offsetof(struct reb_binary_field,size)==8, "f");
_Static_assert(sizeof(struct reb_simulationarchive_blob)==12, "b");
_Static_assert(offsetof(struct reb_simulationarchive_blob,offset_prev)==4, "b");
_Static_assert(offsetof(struct reb_simulationarchive_blob,offset_next)==8, "b");
_Static_assert(sizeof(struct reb_particle)==128, "p");
_Static_assert(offsetof(struct reb_particle,last_collision)==88, "p");
_Static_assert(offsetof(struct reb_particle,hash)==104, "p");
_Static_assert(sizeof(struct reb_variational_configuration)==40, "v");
_Static_assert(offsetof(struct reb_variational_configuration,order)==8, "v");
_Static_assert(offsetof(struct reb_variational_configuration,index_1st_order_b)==24, "v");
_Static_assert(offsetof(struct reb_variational_configuration,lrescale)==32, "v");
int main(void){return 0;}
'''
    d = os.path.join(vlib.BUILD, "cases"); os.makedirs(d, exist_ok=True)
    p = os.path.join(d, "c06_layout_%s.c" % ctx.pid)
    open(p, "w").write(src)
    r = subprocess.run(["gcc", "-std=c11", "-fsyntax-only", "-I" + os.path.join(vlib.REPO, "src"), p], capture_output=True, text=True)
    ctx.obligation("layout: field header 16 bytes, trailer 12 bytes, particle/var_config member offsets as in coq/C06/Run.v",
                   r.returncode == 0, r.stderr[-800:])


def correspondence(ctx, libdir, results, jobs, tag):
    """build one Coq case file per history with bytes; returns (n_compared, bad list)"""
    rebound = L.load(libdir)
    ft = L.field_types(rebound)
    cases = []
    meta = []
    for j, (job, res) in enumerate(zip(jobs, results)):
        if not res or "streams" not in res or len(res["streams"]) < 2:
            continue
        S = [bytes.fromhex(x) for x in res["streams"]]
        F = [bytes.fromhex(x) for x in res["files"]]
        D = [bytes.fromhex(x) for x in res["diffs"]]
        body = L.PRELUDE + L.rcfg_text(ft)
        for i, s in enumerate(S):
            body += "Definition s%d := %s.\n" % (i, L.nl(s))
        for i, f in enumerate(F):
            body += "Definition f%d := %s.\n" % (i, L.nl(f))
        body += "Eval vm_compute in (bad_bytes [%s]).\n" % ";".join("(diff_bytes R s0 s%d, %s)" % (i + 1, L.nl(d)) for i, d in enumerate(D))
        body += "Eval vm_compute in (bad_bytes [(s0, f0); %s]).\n" % ";".join("(append_file R f%d s%d, f%d)" % (i, i + 1, i + 1) for i in range(len(F) - 1))
        ok, cw, idx = res["index"]
        body += "Eval vm_compute in (bad_open [(open_flat R f%d, %s)]).\n" % (len(F) - 1, L.coq_open((ok, cw, [tuple(x) for x in idx])))
        cases.append(("%s_%s_%d" % (ctx.pid.lower(), tag, j), body))
        meta.append((j, len(D), len(F)))
    outs = vlib.coq_eval_many(cases, timeout=280)
    n = 0
    bad = []
    import re
    for (name, ok, out), (j, nd, nf) in zip(outs, meta):
        lists = re.findall(r"=\s*(\[[^\]]*\])\s*:\s*list nat", out, re.S)
        if not ok or len(lists) != 3:
            bad.append((j, "coq evaluation failed: " + out[-400:]))
            continue
        for what, l in zip(("reb_binary_diff bytes", "save_to_file bytes", "index"), lists):
            if l.replace(" ", "").replace("\n", "") != "[]":
                bad.append((j, "%s differ at cases %s" % (what, l)))
        n += nd + nf + 1
    return n, bad


def run(ctx):
    libdir = ctx.lib()
    layout_obligation(ctx)
    # the member lists compared by reb_particle_diff / the var_config branch are regenerated from the current source
    ctx.regen("translate_descriptors.py")
    # statement order (advance threshold / save) of the three heartbeat branches
    ctx.regen("translate_c06_heartbeat.py")
    proved = ctx.prove("C06", extra_targets=["C06/Run.vo", "C06/RunF.vo"])
    rng = ctx.rng

    # ---- correspondence histories (bytes exchanged with Coq): small N
    ncorr = ctx.scale(22, 80)
    cjobs = [dict(copy.deepcopy(d), bytes=True) for d in DIRECTED[:5] + CORR_EXTRA]
    while len(cjobs) < ncorr:
        cjobs.append(dict(gen_history(rng, small=True), bytes=True))
    # ---- searcher histories (library only)
    nsearch = ctx.scale(150, 3000)
    sjobs = [copy.deepcopy(d) for d in DIRECTED] + [gen_history(rng) for _ in range(nsearch)]
    ajobs = [gen_auto(rng) for _ in range(ctx.scale(40, 600))]
    alljobs = cjobs + sjobs + ajobs
    per = max(1, len(alljobs) // (vlib.JOBS * 2))
    batches = [alljobs[i:i + per] for i in range(0, len(alljobs), per)]
    ctx.log("running %d histories against the library (%d child processes)" % (len(alljobs), len(batches)))
    results = []
    oos = []
    for b, r in zip(batches, run_jobs(libdir, batches, timeout=45)):
        if not isinstance(r, list):
            # the driver process died or hung: find the culprit one by one
            for job in b:
                rr = run_jobs(libdir, [[job]], timeout=12)[0]
                if isinstance(rr, list):
                    results.append(rr[0])
                    continue
                results.append(None)
                # is the death attributable to snapshots?  re-run the same history without any snapshot operation
                key = "ops" if job["kind"] == "hist" else "chunks"
                bare = dict(copy.deepcopy(job), bytes=False)
                bare[key] = [o for o in job[key] if o != ["snap"] and o != "snap"]
                r2 = run_jobs(libdir, [[bare]], timeout=12)[0] if job["kind"] == "hist" else rr
                if not isinstance(r2, list) and job["kind"] == "hist":
                    oos.append({"status": str(rr[0]), "history_without_snapshots": bare[key], "stderr": rr[1][-120:]})
                else:
                    ctx.violation("process-died", {"job": job, "status": rr[0], "stderr": rr[1]}, True,
                                  "property=C06 the library killed/hung the process (status %s) in a history that runs fine without its snapshots" % (rr[0],))
        else:
            results += r
    ctx.extra["crashes_or_hangs_not_involving_snapshots"] = oos[:5]
    # ---- more than 1024 snapshots (capacity growth of the index arrays): implementation-limit regression test
    mr = run_jobs(libdir, [[{"kind": "many", "n": 1100}]], timeout=120)[0]
    m0 = mr[0] if isinstance(mr, list) else {"died": str(mr)}
    ctx.case(key=("many", 1100), sample={"many_snapshots": m0} if len(ctx.samples) < 6 else None)
    ctx.extra["many_snapshots"] = m0
    if m0.get("nblobs") != 1100 or m0.get("last_t") != m0.get("expected_last_t") or m0.get("bad_index_times") or \
            m0.get("t_at_1030") != m0.get("expected_t_at_1030"):
        ctx.violation("many-snapshots", {"job": {"kind": "many", "n": 1100}, "result": m0, "how": "tools/c06_driver.py job_many"}, True,
                      "property=C06 an archive with 1100 snapshots (N=1, leapfrog) reads back nblobs=%s, last t=%s (expected 1100, %s)"
                      % (m0.get("nblobs"), m0.get("last_t"), m0.get("expected_last_t")))
    # ---- all three cadences: restored snapshot == live simulation right after the call that wrote it (incl. next / next_step)
    ljobs = []
    for mode in ("step", "interval", "walltime"):
        for rep in range(ctx.scale(3, 20)):
            dt = rng.choice([0.05, 0.02, -0.04])
            val = {"step": rng.randint(1, 4), "interval": abs(dt) * (rng.randint(1, 3) + 0.37), "walltime": 1e-9}[mode]
            ljobs.append({"kind": "autolive", "spec": {"n": rng.choice([2, 3]), "integrator": rng.choice(["whfast", "ias15", "leapfrog", "mercurius", "saba"]), "dt": dt,
                                                    "t0": rng.choice([0.0, 1.0])}, "mode": mode, "val": val, "nsteps": rng.randint(8, 14), "presteps": rng.randint(0, 2)})
    lres = run_jobs(libdir, [ljobs[i:i + 3] for i in range(0, len(ljobs), 3)], timeout=120)
    lres = [x for b in lres for x in (b if isinstance(b, list) else [{"died": str(b)}] * 3)]
    lbad = []
    for job, r in zip(ljobs, lres):
        ctx.case(key=("autolive", job["mode"], job["spec"]["integrator"], job["val"], job["nsteps"]), nontrivial=r.get("nsnap", 0) >= 2,
                 sample={"snapshot_vs_live": job, "snapshots": r.get("nsnap"), "full_compares": r.get("full_compares")} if len(ctx.samples) < 6 else None)
        if r.get("nbad") or "died" in r:
            lbad.append((job, r))
    if lbad:
        job, r = min(lbad, key=lambda jr: jr[0]["nsteps"])
        b0 = (r.get("bad") or [{}])[0]
        ctx.violation("snapshot-vs-live-%s" % job["mode"], {"job": job, "result": r, "how": "tools/c06_driver.py job_autolive", "n_cases": len(lbad)}, True,
                      "property=C06 %s cadence: snapshot %s restored differs from the live simulation right after it was written in %s (snapshot next_step=%s next=%s, live next_step=%s next=%s)"
                      % (job["mode"], b0.get("snapshot"), b0.get("fields"), b0.get("snapshot_next_step"), b0.get("snapshot_next"), b0.get("live_next_step"), b0.get("live_next")))

    # ---- history vs fresh: an object that was attached to archive A and then detached / re-attached / switched to archive B / changed
    #      cadence / reused the file name after delete_file / was restored from a snapshot must write the same snapshots as a FRESH object
    #      holding the same state that is attached once
    hjobs = []
    for v in ("switch_file", "same_file", "reuse_name_delete", "switch_mode_delete", "restored", "detach", "manual_switch"):
        for rep in range(ctx.scale(2, 12)):
            dt = rng.choice([0.02, -0.02, 0.05, -0.013])
            i1 = abs(dt) * (rng.randint(1, 5) + 0.37); i2 = abs(dt) * (rng.randint(1, 5) + 0.61)
            c1 = rng.choice([("interval", i1), ("interval", i1), ("step", rng.randint(1, 5))])
            if v == "switch_mode_delete":
                c2 = ("step", rng.randint(1, 5)) if c1[0] == "interval" else ("interval", i2)
            elif v == "reuse_name_delete":
                c2 = rng.choice([c1, ("interval", i2) if c1[0] == "interval" else ("step", c1[1] + 1)])
            else:
                c2 = ("interval", i2) if c1[0] == "interval" else ("step", c1[1] + rng.randint(1, 3))
            hjobs.append({"kind": "hvf", "variant": v, "dt": dt, "integrator": rng.choice(["whfast", "leapfrog"]), "c1": list(c1), "c2": list(c2),
                          "n": rng.choice([1, 2, 3]), "n1": rng.randint(3, 15), "n2": rng.randint(5, 20), "nd": rng.randint(1, 6), "k": rng.choice([0, -1, 1]), "t0": rng.choice([0.0, 1.5, -2.0])})
    hres = run_jobs(libdir, [hjobs[i:i + 3] for i in range(0, len(hjobs), 3)], timeout=120)
    hres = [x for b in hres for x in (b if isinstance(b, list) else [{"died": str(b)}] * 3)]
    hbad = []
    for job, r in zip(hjobs, hres):
        ctx.case(key=("hvf", job["variant"], job["dt"], tuple(job["c1"]), tuple(job["c2"]), job["n1"], job["n2"]), nontrivial=r.get("n_fresh", 0) >= 2,
                 sample={"history_vs_fresh": job, "snapshots": [r.get("n_hist"), r.get("n_fresh")]} if len(ctx.samples) < 6 else None)
        if r.get("nbad") or "died" in r:
            hbad.append((job, r))
    if hbad:
        job, r = min(hbad, key=lambda jr: jr[0]["n1"] + jr[0]["n2"])
        ctx.violation("history-vs-fresh-%s" % job["variant"], {"job": job, "result": r, "how": "tools/c06_driver.py job_hvf", "n_cases": len(hbad)}, True,
                      "property=C06 an object with an archive history (%s; first %s, then %s) does not write the same snapshots as a fresh object holding the same state: %s"
                      % (job["variant"], job["c1"], job["c2"], (r.get("bad") or [r.get("died")])[0]))

    # ---- cadence value 0 = disabled, for all three cadences
    dr = run_jobs(libdir, [[{"kind": "disabled"}]], timeout=60)[0]
    d0 = dr[0] if isinstance(dr, list) else {"died": str(dr)}
    ctx.case(key=("disabled",), sample=None)
    if any(not isinstance(v, dict) or v.get("file_created") for v in d0.values()) or "exception" in d0 or "died" in d0:
        ctx.violation("zero-cadence-not-disabled", {"result": d0, "how": "tools/c06_driver.py job_disabled"}, True,
                      "property=C06 attaching an archive with cadence value 0 (interval / walltime / step) wrote snapshots or failed: %s" % (d0,))

    # ---- cadence under histories mixing integrate(), manual step()/steps(k), detach / re-attach (all three cadences)
    mjobs = []
    for mode in ("step", "interval", "walltime"):
        for rep in range(ctx.scale(4, 30)):
            dt = rng.choice([0.01, 0.02, -0.015, -0.01])
            val = {"step": rng.choice([1, 1, 2**63, 2**64 - 1, rng.randint(2, 12), rng.randint(2, 12)]), "interval": abs(dt) * (rng.randint(2, 11) + 0.37), "walltime": 1e9}[mode]
            ops = [["attach"]]
            for _ in range(rng.randint(3, 7)):
                u = rng.random()
                if u < 0.45:
                    ops.append(["integrate", rng.randint(1, 30)])
                elif u < 0.75:
                    ops.append(["manual", rng.randint(1, 25)])
                else:
                    ops += [["detach"], [rng.choice(["integrate", "manual"]), rng.randint(1, 25)], ["attach"]]
            ops.append(["integrate", rng.randint(5, 30)])
            mjobs.append({"kind": "automix", "spec": {"n": rng.choice([2, 3]), "integrator": rng.choice(["whfast", "leapfrog", "saba"]), "dt": dt, "t0": rng.choice([0.0, 1.0])},
                          "mode": mode, "val": val, "ops": ops})
    # directed: the documented restart / re-attach call in both directions of time, t0 != 0
    for mode, val, dt, t0 in (("interval", 0.0537, -0.01, 0.0), ("interval", 0.0537, -0.01, 2.5), ("interval", 0.0537, 0.01, -1.5), ("step", 5, -0.01, 1.0)):
        mjobs.append({"kind": "automix", "spec": {"n": 2, "integrator": "whfast", "dt": dt, "t0": t0}, "mode": mode, "val": val,
                      "ops": [["attach"], ["integrate", 17], ["attach"], ["integrate", 9], ["detach"], ["integrate", 3], ["attach"], ["integrate", 14], ["manual", 4], ["attach"], ["integrate", 8]]})
    mres = run_jobs(libdir, [mjobs[i:i + 3] for i in range(0, len(mjobs), 3)], timeout=120)
    mres = [x for b in mres for x in (b if isinstance(b, list) else [{"died": str(b)}] * 3)]
    mterms_n = []; mterms_f = []; mbad = []
    for job, r in zip(mjobs, mres):
        ctx.case(key=("automix", job["mode"], job["val"], json.dumps(job["ops"])), nontrivial=any(o[0] == "manual" for o in job["ops"]),
                 sample={"mixed_history": job, "segments": [s.get("snap_steps") for s in r.get("segs", [])]} if len(ctx.samples) < 6 else None)
        if "segs" not in r or not r.get("in_step"):
            if "died" in r:
                mbad.append((job, "driver died: %s" % r["died"], None))
            continue
        prev_final = None
        for si, s in enumerate(r["segs"]):
            # the attach rule (reb_simulation_save_to_file_{interval,step}): first attach: threshold = current t / steps_done; re-attach
            # with the SAME cadence: threshold kept, whatever the direction of time
            if job["mode"] in ("step", "interval"):
                key0 = "next_step0" if job["mode"] == "step" else "next0"
                want = (s["steps_attach"] if job["mode"] == "step" else s["t_attach"]) if si == 0 else prev_final
                if s[key0] != want:
                    mbad.append((job, "attach #%d set the threshold to %s, expected %s (%s)" % (si + 1, s[key0], want, "first attach: current value" if si == 0 else "same cadence: kept"), r))
                prev_final = s["final_next_step"] if job["mode"] == "step" else s["final_next"]
            # library-only oracle: the heartbeat rule "threshold <= current value => snapshot now, threshold += cadence"
            if job["mode"] == "step":
                nxt = s["next_step0"]; exp = []
                for x in s["xs_steps"]:
                    if nxt <= x:
                        exp.append(x); nxt += job["val"]
                got = s["snap_steps"]; fin_ok = (nxt == s["final_next_step"])
                mterms_n.append("(fst (hb_seq hb_cmp_step %d %d %s) ++ [snd (hb_seq hb_cmp_step %d %d %s)], %s)"
                                % (job["val"], s["next_step0"], L.nl(s["xs_steps"]), job["val"], s["next_step0"], L.nl(s["xs_steps"]), L.nl(s["snap_steps"] + [s["final_next_step"]])))
            elif job["mode"] == "interval":
                nxt = float.fromhex(s["next0"]); exp = []; sg = s["sign"]
                for xh in s["xs_t"]:
                    x = float.fromhex(xh)
                    if sg * nxt <= sg * x:
                        exp.append(xh); nxt += sg * job["val"]
                got = s["snap_t"]; fin_ok = (nxt.hex() == s["final_next"])
                fh = lambda h: vlib.fhex(float.fromhex(h))
                mterms_f.append("(run_thrF %s %s %s [%s], [%s])" % (vlib.fhex(sg), vlib.fhex(job["val"]), fh(s["next0"]), "; ".join(fh(x) for x in s["xs_t"]),
                                                                   "; ".join(fh(x) for x in s["snap_t"] + [s["final_next"]])))
            else:
                exp = s["xs_steps"][:1]; got = s["snap_steps"]; fin_ok = True
            if exp != got or not fin_ok:
                mbad.append((job, "segment %d (after attach #%d): snapshots written at %s, expected %s%s" % (si, si + 1, got[:12], exp[:12], "" if fin_ok else "; final threshold differs"), r))
    if mbad:
        job, what, r = min(mbad, key=lambda x: len(x[0]["ops"]))
        ctx.violation("cadence-mixed-%s" % job["mode"], {"job": job, "observed": what, "how": "tools/c06_driver.py job_automix", "n_cases": len(mbad)}, True,
                      "property=C06 %s cadence under a history mixing integrate(), manual steps and detach/re-attach: %s (history %s)" % (job["mode"], what, json.dumps(job["ops"])))
    mbody = (L.PRELUDE + "From RV Require Import Gen.C06Heartbeat C06.Heartbeat.\nEval vm_compute in (bad_bytes [%s]).\n" % ";\n".join(mterms_n))
    mok, mout = vlib.coq_eval("c06_automix_n", mbody)
    mb = vlib.parse_coq_list_nat(mout) if mok else None
    fbody0 = ("From Coq Require Import List PrimFloat.\nFrom RV Require Import Common.FloatNum C06.RunF.\nImport ListNotations.\nOpen Scope float_scope.\n"
              "Eval vm_compute in (bad_cases [%s]).\n" % ";\n".join(mterms_f))
    mok2, mout2 = vlib.coq_eval("c06_automix_f", fbody0)
    mb2 = vlib.parse_coq_list_nat(mout2) if mok2 else None
    ctx.obligation("correspondence:C06 heartbeat model (hb_seq / run_thr at FNum) == library on %d + %d attach segments of mixed histories (snapshots written and final threshold)"
                   % (len(mterms_n), len(mterms_f)), len(mterms_n) >= 4 and len(mterms_f) >= 4 and mb == [] and mb2 == [],
                   "step segments differing: %s; interval segments differing: %s %s" % (mb, mb2, (mout[-200:] if mb is None else "") + (mout2[-200:] if mb2 is None else "")))

    # ---- interval cadence, binary64: the Num-polymorphic heartbeat term at FNum vs the library, bit for bit
    fjobs = []
    for _ in range(ctx.scale(24, 200)):
        dt = rng.choice([0.05, 0.02, -0.04, 0.1313])
        t0 = rng.choice([0.0, 1.0, -2.0, 1e6, 1e9, -1e12, 3e12])   # dt is never absorbed by t; tiny intervals are
        iv = rng.choice([abs(dt) * rng.uniform(0.2, 5.0), abs(dt), 3 * abs(dt), abs(dt) * 0.37, 1e-3 * abs(dt), abs(dt) * (rng.randint(1, 4) + 0.37),
                         # edges of the domain: disabled, negative, NaN, infinite, longer than the whole run, subnormal
                         0.0, -0.0, -abs(dt) * 2.5, float("nan"), float("inf"), 1e9, 5e-324])
        fjobs.append({"kind": "autoF", "spec": {"n": 2, "integrator": rng.choice(["whfast", "leapfrog", "ias15"]), "dt": dt, "t0": t0},
                      "interval": iv, "presteps": rng.randint(0, 2), "chunks": [rng.randint(1, 9) for _ in range(rng.randint(1, 4))]})
    fres = run_jobs(libdir, [fjobs[i:i + 6] for i in range(0, len(fjobs), 6)], timeout=120)
    fres = [x for b in fres if isinstance(b, list) for x in b]
    fh = lambda s: vlib.fhex(float.fromhex(s))
    terms = []; fmeta = []
    for job, r in zip(fjobs, fres):
        if "xs" not in r or not r.get("same_t"):
            continue
        terms.append("(run_thrF %s %s %s [%s], [%s])" % (vlib.fhex(r["sign"]), vlib.fhex(r["interval"]), fh(r["next0"]),
                                                         "; ".join(fh(x) for x in r["xs"]), "; ".join(fh(x) for x in r["lib_t"] + [r["final_next"]])))
        fmeta.append((job, r))
        ctx.case(key=("autoF", job["spec"]["dt"], job["spec"]["t0"], round(job["interval"], 9), tuple(job["chunks"])),
                 sample={"interval_cadence_binary64": job, "snapshots": len(r["lib_t"])} if len(ctx.samples) < 6 else None)
    fbody = ("From Coq Require Import List PrimFloat.\nFrom RV Require Import Common.FloatNum C06.RunF.\nImport ListNotations.\nOpen Scope float_scope.\n"
             "Eval vm_compute in (bad_cases [%s]).\n" % ";\n".join(terms))
    fok, fout = vlib.coq_eval("c06_autoF", fbody)
    fbad = vlib.parse_coq_list_nat(fout) if fok else None
    ctx.obligation("correspondence:C06 interval cadence at binary64: model run_thr(FNum) == library snapshot times and accumulated simulationarchive_next on %d runs" % len(terms),
                   len(terms) >= 10 and fbad == [], "mismatching runs %s %s" % (fbad, [fmeta[i][0] for i in (fbad or [])[:2]] if fbad else fout[-400:]))
    if fbad == []:
        ctx.traces = getattr(ctx, "traces", 0) + len(terms)
    cres = results[:len(cjobs)]
    ctx.log("histories done; evaluating the model in Coq on %d histories" % len(cjobs))
    n, bad = correspondence(ctx, libdir, cres, cjobs, "corr")
    ctx.traces = getattr(ctx, 'traces', 0) + n
    ctx.obligation("correspondence:C06 model == library on %d comparisons (diff bytes, file bytes after append, index)" % n,
                   n > 0 and not bad, "; ".join("history %d: %s" % (j, m) for j, m in bad[:6]))

    # ---- searcher oracle
    nexc = 0
    found = {}
    dist = {}
    for job, res in zip(alljobs, results):
        if res is None:
            continue
        if "exception" in res:
            nexc += 1
            continue
        if job["kind"] == "hist":
            key = (job["spec"]["integrator"], tuple(sorted({o[0] for o in job["ops"]})), res.get("nsnap"))
            dist[job["spec"]["integrator"]] = dist.get(job["spec"]["integrator"], 0) + 1
            ctx.case(key=key, nontrivial=res.get("nsnap", 0) >= 2,
                     sample={"spec": job["spec"], "ops": job["ops"]} if len(ctx.samples) < 4 else None)
        else:
            ctx.case(key=("auto", job["mode"], job.get("k"), tuple(job["chunks"])), sample=job if len(ctx.samples) < 6 else None)
        for kind, detail in failures_of(res):
            found.setdefault(kind, []).append((job, detail))
    for kind, lst in found.items():
        job, detail = min(lst, key=lambda jd: len(jd[0].get("ops", jd[0].get("chunks", []))))
        key = KNOWN_KINDS.get(kind, kind)
        known = any(kf.get("property") == ctx.pid and kf.get("status") == "open" and kf.get("key") == key for kf in vlib.known_findings())
        if not known:
            ctx.log("failure of kind %s found (%d histories); shrinking" % (kind, len(lst)))
            job = shrink(libdir, job, kind)
            rr = run_jobs(libdir, [[job]])[0]
            if isinstance(rr, list):
                ff = [d for k, d in failures_of(rr[0]) if k == kind]
                detail = ff[0] if ff else detail
        ctx.violation(key, {"history": job, "observed": detail, "how": "tools/c06_driver.py with this job on stdin"}, True,
                      "property=C06 %s (history: %s)" % (detail, json.dumps(job.get("ops", job.get("chunks")))))
    ctx.extra["input_distribution"] = dict(dist, auto=len(ajobs), skipped_histories_with_python_exception=nexc)
    ctx.extra["histories"] = len(alljobs)
    ctx.rule = ("random operation histories over {step, integrate, add, add test particle, remove by index/hash, remove all, change integrator, "
                "reset_integrator, settings, add_variation, init_megno, merging collision, signed zero, manual snapshot} + directed histories "
                "(array vanishes/reappears/shrinks/grows) + automatic step/interval snapshots driven in chunks; distinct by (integrator, set of "
                "operation kinds, number of snapshots); non-trivial = at least two snapshots")
    ctx.assumptions += [
        "diff_overlay is proved for field lists with pairwise distinct types and non-empty payloads in the new snapshot (what the writer emits); "
        "the state is the map type -> payload; decoding payloads into struct members is C05's subject",
        "payload comparison is a parameter of the theorem: with memcmp the overlay is exact; the C code compares particles / var_config member-wise "
        "bitwise and ignores only the pointer members (addresses), which the oracle masks as well",
        "index_of_chain is stated over the chain layout (blob0, trailer, delta, END, trailer, ...); the MODEL writer is proved to produce it "
        "(C06_writer_produces_chain); that reb_simulation_save_to_file equals the model writer is tied by the correspondence (byte-equal files)",
        "offsets / sizes < 2^31 (int32 trailer members are modelled as unsigned)",
        "reuse_index fast path, 16-bit legacy offsets, walltime cadence: not covered",
    ]
