#!/venv/bin/python
"""C13 translator: where does the library change the number of particles upward or a particle's radius / mass, and is the
MERCURIUS critical radius dcrit refreshed on every path after such a change?

Reads clang's JSON AST of $VERIF_REPO/src/{particle.c,collision.c} and writes coq/Gen/C13Dcrit.v with one record per function
that has a `struct reb_simulation *` parameter and (a) increments r->N, or (b) assigns to the member r or m of a struct
reb_particle:   (name, adds_particle, writes_radius_or_mass, refreshed).
refreshed = on every path through the function (taking the branch `integrator == REB_INTEGRATOR_MERCURIUS` as true, an `if`
without else as not refreshing, a loop body as not refreshing) the function sets ri_mercurius.recalculate_r_crit_this_timestep
to a non-zero constant or assigns to an element of ri_mercurius.dcrit — or every caller (in these files) does so after the call.
Fail-closed: unknown statement kinds inside a changing function abort the translation."""
import json, os, subprocess, sys

ROOT = os.path.dirname(os.path.dirname(os.path.abspath(__file__)))
REPO = os.environ.get("VERIF_REPO", "/repo")
SRC = os.path.join(REPO, "src")
DFLAGS = ["-std=c99", "-D_GNU_SOURCE", "-DLIBREBOUND", "-DSERVER"]
FILES = ["particle.c", "collision.c"]
# callers that are exempt, with the reason (listed in the generated file): re-insertion of a particle that src/tree.c took out
# of the array in the same operation (r->N is unchanged over the pair, no radius or mass changes; MERCURIUS refuses trees)
EXEMPT_CALLERS = {"reb_simulation_reinsert_particle": "tree update: re-inserts the particle it removed (N unchanged)"}


class Fail(Exception):
    pass


def load(name):
    r = subprocess.run(["clang", "-Xclang", "-ast-dump=json", "-fsyntax-only", "-w"] + DFLAGS + ["-I" + SRC, os.path.join(SRC, name)],
                       capture_output=True)
    if r.returncode != 0:
        raise Fail("clang failed on %s: %s" % (name, r.stderr.decode()[-400:]))

    def hook(d):
        if d.get("kind") in ("RecordDecl", "EnumDecl", "TypedefDecl"):
            d.pop("inner", None)
        return d
    return json.loads(r.stdout, object_hook=hook)


def kids(n):
    return [c for c in n.get("inner", []) if isinstance(c, dict) and c]


def strip(n):
    while n.get("kind") in ("ImplicitCastExpr", "ParenExpr", "CStyleCastExpr", "ConstantExpr"):
        n = kids(n)[0]
    return n


def walk(n):
    yield n
    for c in kids(n):
        yield from walk(c)


def member_chain(n):
    """names of the member accesses from the outside in, e.g. r->ri_mercurius.dcrit[i] -> ['dcrit', 'ri_mercurius']"""
    out = []
    n = strip(n)
    while True:
        if n.get("kind") == "MemberExpr":
            out.append(n.get("name")); n = strip(kids(n)[0])
        elif n.get("kind") == "ArraySubscriptExpr":
            n = strip(kids(n)[0])
        elif n.get("kind") == "UnaryOperator" and n.get("opcode") in ("*", "&"):
            n = strip(kids(n)[0])
        else:
            return out, n


def qual(n):
    return n.get("type", {}).get("qualType", "")


def is_refresh(n):
    """assignment that refreshes dcrit: flag = non-zero constant, or dcrit[...] = ..."""
    if n.get("kind") != "BinaryOperator" or n.get("opcode") != "=":
        return False
    lhs, rhs = kids(n)
    chain, base = member_chain(lhs)
    if chain and chain[0] == "recalculate_r_crit_this_timestep":
        r = strip(rhs)
        return r.get("kind") == "IntegerLiteral" and r.get("value") not in ("0",)
    if chain and chain[0] == "dcrit" and strip(lhs).get("kind") == "ArraySubscriptExpr":
        return True
    return False


def adds_particle(n):
    """r->N++ / ++r->N / r->N += k / r->N = r->N + ..."""
    if n.get("kind") == "UnaryOperator" and n.get("opcode") == "++":
        chain, base = member_chain(kids(n)[0])
        return chain[:1] == ["N"] and "reb_simulation" in qual(base)
    if n.get("kind") == "CompoundAssignOperator" and n.get("opcode") == "+=":
        chain, base = member_chain(kids(n)[0])
        return chain[:1] == ["N"] and "reb_simulation" in qual(base)
    return False


def writes_rm(n):
    if n.get("kind") in ("BinaryOperator", "CompoundAssignOperator") and n.get("opcode") in ("=", "+=", "-=", "*=", "/="):
        lhs = strip(kids(n)[0])
        if lhs.get("kind") == "MemberExpr" and lhs.get("name") in ("r", "m"):
            b = strip(kids(lhs)[0])
            t = qual(b).replace("const", "").replace("restrict", "")
            return "struct reb_particle" in t and "avx512" not in t
    return False


STMT_OK = {"CompoundStmt", "IfStmt", "ForStmt", "WhileStmt", "DoStmt", "ReturnStmt", "DeclStmt", "BinaryOperator", "CompoundAssignOperator",
           "UnaryOperator", "CallExpr", "NullStmt", "BreakStmt", "ContinueStmt", "SwitchStmt", "ImplicitCastExpr", "ParenExpr",
           "ConditionalOperator", "CStyleCastExpr"}


def cond_is_mercurius(c):
    """condition `r->integrator == REB_INTEGRATOR_MERCURIUS` (possibly as the left operand of ||: treated as not decisive)"""
    c = strip(c)
    if c.get("kind") == "BinaryOperator" and c.get("opcode") == "==":
        names = []
        for side in kids(c):
            for x in walk(side):
                if x.get("kind") == "DeclRefExpr":
                    names.append(x.get("referencedDecl", {}).get("name"))
                if x.get("kind") == "MemberExpr":
                    names.append(x.get("name"))
        return "REB_INTEGRATOR_MERCURIUS" in names and "integrator" in names
    return False


def must_refresh(s, calls_refreshing):
    """every path through statement s performs a refresh (directly or by calling a function that always does)"""
    k = s.get("kind")
    if k not in STMT_OK:
        raise Fail("statement kind %r not understood (function body changed: extend the translator)" % k)
    if k == "CompoundStmt":
        return any(must_refresh(c, calls_refreshing) for c in kids(s))
    if k == "IfStmt":
        ks = kids(s)
        cond, then = ks[0], ks[1]
        els = ks[2] if len(ks) > 2 else None
        if cond_is_mercurius(cond):
            return must_refresh(then, calls_refreshing)
        return els is not None and must_refresh(then, calls_refreshing) and must_refresh(els, calls_refreshing)
    if k in ("ForStmt", "WhileStmt", "DoStmt", "SwitchStmt"):
        return False
    if k in ("BinaryOperator",):
        return is_refresh(s)
    if k == "CallExpr":
        callee = strip(kids(s)[0])
        return callee.get("kind") == "DeclRefExpr" and callee.get("referencedDecl", {}).get("name") in calls_refreshing
    return False


def main():
    funcs = {}
    for f in FILES:
        ast = load(f)
        for d in kids(ast):
            if d.get("kind") == "FunctionDecl" and any(c.get("kind") == "CompoundStmt" for c in kids(d)):
                if d.get("loc", {}).get("includedFrom") or "reb_simulation" not in qual(d):
                    pass
                funcs[d["name"]] = d
    info = {}
    for name, d in funcs.items():
        if "struct reb_simulation *" not in qual(d):
            continue
        body = [c for c in kids(d) if c.get("kind") == "CompoundStmt"][0]
        adds = any(adds_particle(n) for n in walk(body))
        wrm = any(writes_rm(n) for n in walk(body))
        calls = set()
        for n in walk(body):
            if n.get("kind") == "CallExpr":
                c = strip(kids(n)[0])
                if c.get("kind") == "DeclRefExpr":
                    calls.add(c.get("referencedDecl", {}).get("name"))
        info[name] = dict(adds=adds, wrm=wrm, calls=calls, body=body)
    if "reb_simulation_add_local" not in info or "reb_collision_resolve_merge" not in info:
        raise Fail("expected functions reb_simulation_add_local / reb_collision_resolve_merge not found")
    if not any(v["adds"] for v in info.values()):
        raise Fail("no function increments r->N: the translator no longer understands how particles are added")
    # fixpoint: functions that refresh on every path
    refreshing = set()
    changed = True
    while changed:
        changed = False
        for name, v in info.items():
            if name not in refreshing and must_refresh(v["body"], refreshing):
                refreshing.add(name); changed = True
    # a changing function is fine if it refreshes itself, or if it has callers and all of them refresh
    rows = []
    for name, v in sorted(info.items()):
        if not (v["adds"] or v["wrm"]):
            continue
        ok = name in refreshing
        if not ok:
            callers = [g for g, w in info.items() if name in w["calls"]]
            ok = bool(callers) and all(g in refreshing or g in EXEMPT_CALLERS for g in callers) and any(g in refreshing for g in callers)
        rows.append((name, v["adds"], v["wrm"], ok))
    out = ["(* GENERATED by tools/translate_c13_dcrit.py from %s — do not edit. *)" % ", ".join("src/" + f for f in FILES),
           "From Coq Require Import List String Bool.", "Import ListNotations.", "Open Scope string_scope.",
           "(* (function, increments r->N, assigns a particle's r or m, dcrit refreshed on every path afterwards) *)",
           "Definition dcrit_sites : list (string * bool * bool * bool) := ["]
    out.append(";\n".join('  ("%s", %s, %s, %s)' % (n, str(a).lower(), str(w).lower(), str(o).lower()) for n, a, w, o in rows))
    out.append("].")
    out.append("(* exempt callers: %s *)" % "; ".join("%s (%s)" % kv for kv in sorted(EXEMPT_CALLERS.items())))
    out.append("Definition dcrit_unrefreshed : list string :=")
    out.append("  map (fun s => fst (fst (fst s))) (filter (fun s => negb (snd s)) dcrit_sites).")
    os.makedirs(os.path.join(ROOT, "coq", "Gen"), exist_ok=True)
    path = os.path.join(ROOT, "coq", "Gen", "C13Dcrit.v")
    text = "\n".join(out) + "\n"
    if not (os.path.exists(path) and open(path).read() == text):
        open(path, "w").write(text)
    print("C13Dcrit.v: %d sites, unrefreshed: %s" % (len(rows), [n for n, a, w, o in rows if not o]))
    return 0


if __name__ == "__main__":
    try:
        sys.exit(main())
    except Fail as e:
        print("translate_c13_dcrit: FAIL: %s" % e, file=sys.stderr)
        sys.exit(2)
