import warnings
"""C04 — isolated systems conserve momentum, angular momentum and (as advertised) energy.

1. proofs: coq/C04 (diagnostics = definitions; pair forces with back-reaction have zero net force and torque;
   every drift/kick word conserves P and L exactly; COM moves uniformly);
2. correspondence: reb_simulation_energy / angular_momentum / com and one leapfrog step vs the binary64 instance
   of the same Gallina terms, bit for bit;
3. searcher (library only, always run): long runs of every integrator on random bounded systems with interleaved
   synchronize calls and merging collisions; drift of P, L (rounding level where exact) and E (accuracy class),
   diagnostics against exact-rational definitions.
"""
import math, os, sys
from fractions import Fraction
import vlib


def rand_system(rebound, rng, n, test_particles=0, spread=1.0):
    sim = rebound.Simulation()
    sim.G = rng.choice([1.0, 1.0, 4 * math.pi ** 2, 0.5])
    sim.add(m=1.0)
    a = 1.0
    for i in range(1, n):
        a *= rng.uniform(1.5, 1.9)
        m = 10 ** rng.uniform(-6, -3.3) if i < n - test_particles else 0.0
        sim.add(m=m, a=a * spread, e=rng.uniform(0, 0.08), inc=rng.uniform(0, 0.05), Omega=rng.uniform(0, 6), omega=rng.uniform(0, 6), f=rng.uniform(0, 6))
    sim.move_to_com()
    return sim


def plist(sim):
    return [[p.m, p.x, p.y, p.z, p.vx, p.vy, p.vz] for p in sim.particles]


def ll(lists):
    return "[" + "; ".join(vlib.flist(l) for l in lists) + "]"


def exact_PL(sim):
    P = [Fraction(0)] * 3; L = [Fraction(0)] * 3
    for p in sim.particles:
        m, x, y, z, vx, vy, vz = map(Fraction, (p.m, p.x, p.y, p.z, p.vx, p.vy, p.vz))
        P[0] += m * vx; P[1] += m * vy; P[2] += m * vz
        L[0] += m * (y * vz - z * vy); L[1] += m * (z * vx - x * vz); L[2] += m * (x * vy - y * vx)
    return [float(v) for v in P], [float(v) for v in L]


def run(ctx):
    libdir = ctx.lib()
    proved = ctx.prove("C04", extra_targets=["C04/Run.vo"])
    sys.path.insert(0, libdir)
    import rebound
    rng = ctx.rng
    cases = []
    # ------------------------------------------------------------------ correspondence
    for k in range(ctx.scale(120, 1500)):
        n = rng.choice([1, 2, 3, 4, 6, 9])
        sim = rand_system(rebound, rng, n, test_particles=rng.choice([0, 0, 1, 2]) if n > 3 else 0)
        kind = k % 4
        real = None
        corner = None
        if k % 6 == 5:
            # degenerate corners of the quantified space (the comparison is bit for bit, so inf, NaN and -0.0 results count):
            # empty and one-particle simulations, all masses zero, coincident bodies, signed zeros, huge and tiny magnitudes
            corner = rng.choice(["empty", "one", "massless", "coincident", "zeros", "huge", "tiny", "equal"])
            if corner == "empty":
                sim = rebound.Simulation(); n = 0
            elif corner == "one":
                sim = rebound.Simulation(); sim.add(m=rng.choice([0.0, 1.0]), x=rng.uniform(-1, 1), vy=rng.uniform(-1, 1)); n = 1
            else:
                for i_, p_ in enumerate(sim.particles):
                    if corner == "massless": p_.m = 0.0
                    elif corner == "coincident" and i_ > 0: p_.x, p_.y, p_.z = sim.particles[0].x, sim.particles[0].y, sim.particles[0].z
                    elif corner == "zeros": p_.x, p_.vy, p_.z = rng.choice([0.0, -0.0]), rng.choice([0.0, -0.0]), -0.0
                    elif corner == "huge": p_.x *= 1e140; p_.vx *= 1e140
                    elif corner == "tiny": p_.x *= 1e-140; p_.m *= 1e-140
                    elif corner == "equal": p_.m = sim.particles[0].m
            if kind == 3 and corner in ("empty", "coincident"): kind = rng.choice([0, 1, 2])   # the step itself is not the subject here
        if kind != 3 and rng.random() < 0.3 and n >= 2:
            # the diagnostics are defined over the REAL particles: variational particles must not enter them
            real = plist(sim)
            for _ in range(rng.choice([1, 2])):
                v = sim.add_variation()
                for q in v.particles:
                    q.m = rng.uniform(-1, 1); q.x, q.y, q.z, q.vx, q.vy, q.vz = [rng.uniform(-3, 3) for _ in range(6)]
        if kind == 0:
            nact = rng.choice([-1, -1, rng.randint(1, n)]) if n >= 1 else -1
            if corner and n >= 1 and rng.random() < 0.5: nact = rng.choice([0, 1, n])
            sim.N_active = nact
            sim.testparticle_type = rng.choice([0, 1])
            sim.energy_offset = rng.choice([0.0, rng.uniform(-1, 1)])
            _nact = n if nact == -1 else nact
            ninter = _nact if sim.testparticle_type == 0 else n
            got = [sim.energy()]
            term = "(energyF %s %s %d %d %s)" % (vlib.fhex(sim.G), ll(real or plist(sim)), _nact, ninter, vlib.fhex(sim.energy_offset))
        elif kind == 1:
            L = sim.angular_momentum(); got = [L.x, L.y, L.z]
            term = "(angmomF %s)" % ll(real or plist(sim))
        elif kind == 2:
            c = sim.com(); got = [c.m, c.x, c.y, c.z, c.vx, c.vy, c.vz]
            term = "(comF %s)" % ll(real or plist(sim))
        else:
            sim.integrator = "leapfrog"; sim.dt = rng.choice([1, -1]) * rng.uniform(1e-3, 0.1)
            before = plist(sim)
            sim.step()
            acc = [[p.ax, p.ay, p.az] for p in sim.particles]     # accelerations the library used in the kick
            got = sum(plist(sim), [])
            term = "(leapfrogF %s %s %s)" % (vlib.fhex(sim.dt), ll(before), ll(acc))
        cases.append((term, got, ["energy", "angmom", "com", "leapfrog"][kind], n))
        ctx.case(key=(kind, n, k % 7, corner), sample={"kind": cases[-1][2], "N": n} if k < 4 else None)
    jobs = []; chunk = 60
    for c0 in range(0, len(cases), chunk):
        body = ("From Coq Require Import List ZArith PrimFloat.\nFrom RV Require Import Common.FloatNum C04.Run.\nImport ListNotations.\n"
                "Open Scope float_scope.\nDefinition cases : list (list float * list float) := [\n" +
                ";\n".join("(%s, %s)" % (t, vlib.flist(g)) for t, g, _, _ in cases[c0:c0 + chunk]) +
                "].\nEval vm_compute in (bad_cases cases).\n")
        jobs.append(("c04_%d" % (c0 // chunk), body))
    bad_total = []; corr_ok = True
    for (name, ok, out), c0 in zip(vlib.coq_eval_many(jobs), range(0, len(cases), chunk)):
        bad = vlib.parse_coq_list_nat(out) if ok else None
        if bad is None:
            corr_ok = False; ctx.obligation("correspondence:C04:" + name, False, out[-1500:])
        else:
            bad_total += [c0 + b for b in bad]
    ctx.traces = len(cases) if corr_ok else 0
    ctx.obligation("correspondence:C04 diagnostics + leapfrog step model(binary64) == library bit-for-bit on %d cases" % len(cases),
                   corr_ok and not bad_total, "mismatching: %s" % [(cases[b][2], cases[b][3]) for b in bad_total[:8]])

    # ------------------------------------------------------------------ searcher: conservation on the library
    fails = []
    # accuracy classes: (integrator, options, exact P, exact L, energy bound)
    classes = [
        ("leapfrog", {}, True, True, 5e-3), ("whfast", {}, True, True, 1e-5),
        ("whfast", {"coordinates": "democraticheliocentric"}, True, True, 1e-5),
        ("whfast", {"coordinates": "whds"}, True, True, 1e-5), ("whfast", {"coordinates": "barycentric"}, True, False, 1e-4),   # L only to O(dt^2 m_p/m_0): inherent to this splitting (see DESIGN C04)
        ("whfast", {"corrector": 11}, True, True, 1e-6), ("whfast", {"safe_mode": 0}, True, True, 1e-5),
        ("saba", {"type": "(10,6,4)"}, True, True, 1e-7), ("saba", {"type": "cl4"}, True, True, 1e-6),
        ("eos", {"phi0": "lf4", "phi1": "lf4", "n": 4}, True, True, 1e-5),
        ("janus", {}, True, False, 5e-3), ("ias15", {}, True, True, 1e-12), ("bs", {}, True, False, 1e-6),
        ("mercurius", {}, True, True, 1e-5), ("trace", {}, True, True, 1e-5),
    ]
    nrep = ctx.scale(1, 6)
    for integ, opt, exactP, exactL, ebound in classes:
        for rep in range(nrep):
            n = rng.choice([3, 4, 5])
            sim = rand_system(rebound, rng, n)
            sim.integrator = integ
            P_orb = 2 * math.pi * math.sqrt(1.6 ** 3 / sim.G)
            sim.dt = P_orb / rng.choice([60, 87, 113]) * rng.choice([1, 1, -1])
            if integ == "janus":
                sim.ri_janus.order = 4; sim.ri_janus.scale_pos = 1e-16; sim.ri_janus.scale_vel = 1e-16
            for kopt, v in opt.items():
                setattr(getattr(sim, "ri_" + integ), kopt, v)
            nsteps = ctx.scale(300, 3000)
            E0 = sim.energy(); P0, L0 = exact_PL(sim)
            Mtot = sum(p.m for p in sim.particles); vscale = max(abs(p.vx) + abs(p.vy) for p in sim.particles)
            Lscale = max(abs(v) for v in L0) or 1.0
            Pscale = max(p.m * (abs(p.vx) + abs(p.vy) + abs(p.vz)) for p in sim.particles)
            emax = 0.0
            for s in range(nsteps):
                sim.step()
                if s % 37 == 0:
                    sim.synchronize()
                    emax = max(emax, abs((sim.energy() - E0) / E0))
            sim.synchronize()
            emax = max(emax, abs((sim.energy() - E0) / E0))
            P1, L1 = exact_PL(sim)
            dP = max(abs(a - b) for a, b in zip(P0, P1)) / Pscale
            dL = max(abs(a - b) for a, b in zip(L0, L1)) / Lscale
            ctx.case(key=("conserve", integ, str(opt), n))
            # rounding-level drift: random walk ~ eps*sqrt(steps*ops); generous factor
            tolP = 2.2e-16 * math.sqrt(nsteps) * 400 * (1e6 if integ == "janus" else 1)
            why = None
            if dP > tolP: why = "linear momentum drift %.3g (tolerance %.3g)" % (dP, tolP)
            if exactL and dL > tolP: why = "angular momentum drift %.3g (tolerance %.3g)" % (dL, tolP)
            if not exactL and dL > max(1e-7, 10 * ebound): why = "angular momentum error %.3g outside accuracy class" % dL
            if emax > ebound: why = "relative energy error %.3g outside accuracy class %.1g" % (emax, ebound)
            if not (emax == emax): why = "NaN energy"
            if why:
                fails.append({"why": why, "integrator": integ, "options": opt, "N": n, "dt": sim.dt, "steps": nsteps,
                              "G": sim.G, "dP": dP, "dL": dL, "dE": emax})
    # hybrid integrators THROUGH close encounters between two outer planets (the encounter map is then not the
    # identity), with and without safe_mode, synchronizing in between: energy and L stay in the accuracy class
    for integ, sm in (("mercurius", 1), ("mercurius", 0), ("trace", 1), ("trace", 0)):
        for rep in range(ctx.scale(2, 10)):
            sim = rebound.Simulation()
            sim.add(m=1.0)
            sim.add(m=1e-5, a=0.6, e=0.02, f=rng.uniform(0, 6))
            sim.add(m=3e-5, a=1.0, e=0.03, f=rng.uniform(0, 6))
            a3 = 2.0; m3 = 10 ** rng.uniform(-3.5, -3); rh = a3 * (2 * m3 / 3) ** (1 / 3)
            m4 = m3 * 10 ** rng.uniform(-1.5, 0.5)       # unequal masses: the two bodies have different critical radii
            sim.add(m=m3, a=a3, e=0.01, f=0.0)
            sim.add(m=m4, a=a3 + rng.uniform(2.0, 3.2) * rh, e=0.01, f=rng.uniform(0.05, 0.3))
            sim.move_to_com()
            sim.integrator = integ
            try: setattr(getattr(sim, "ri_" + integ), "safe_mode", sm)
            except AttributeError: continue
            sim.dt = 2 * math.pi * 0.6 ** 1.5 / rng.choice([25, 31, 40])
            E0 = sim.energy(); L0 = sim.angular_momentum(); emax = 0.0
            nst = ctx.scale(1500, 6000)
            with warnings.catch_warnings():
                warnings.simplefilter("ignore")
                for s_ in range(nst):
                    sim.step()
                    if s_ % 41 == 0:
                        sim.synchronize(); emax = max(emax, abs((sim.energy() - E0) / E0))
                sim.synchronize()
            L1 = sim.angular_momentum()
            dL = max(abs(L1.x - L0.x), abs(L1.y - L0.y), abs(L1.z - L0.z)) / abs(L0.z)
            emax = max(emax, abs((sim.energy() - E0) / E0))
            ctx.case(key=("encounter", integ, sm))
            why = None
            if not (emax < 1e-4): why = "relative energy error %.3g through planet-planet encounters outside accuracy class 1e-4" % emax
            elif not (dL < 1e-9): why = "angular momentum error %.3g through planet-planet encounters" % dL
            if why: fails.append({"why": why, "integrator": integ, "options": {"safe_mode": sm}, "N": 5, "dt": sim.dt, "steps": nst,
                                  "G": 1.0, "m_outer": [m3, m4]})
    # democratic-heliocentric hybrids do not care in which order the planets were added: the energy error envelope of
    # the same system with a distant giant stored first or last must be of the same size (the encounter map is the
    # identity in one order and a proper sub-map in the other)
    for integ in ("mercurius", "trace"):
        for rep in range(ctx.scale(3, 8)):
            mp = 10 ** rng.uniform(-4.3, -3.7); rhp = (2 * mp / 3) ** (1 / 3)
            pair = [dict(m=mp, a=1.0, e=0.01, f=0.0), dict(m=mp * rng.uniform(0.3, 1), a=1.0 + rng.uniform(4.0, 5.5) * rhp, e=0.01, f=rng.uniform(0.1, 0.5))]
            giant = dict(m=10 ** rng.uniform(-3.3, -2.8), a=rng.uniform(4.5, 6.0), e=0.03, f=rng.uniform(0, 6))
            em = []
            nst = ctx.scale(4000, 12000)
            for order in (pair + [giant], [giant] + pair):
                sim = rebound.Simulation(); sim.add(m=1.0)
                for q in order: sim.add(primary=sim.particles[0], **q)
                sim.move_to_com(); sim.integrator = integ
                getattr(sim, "ri_" + integ).r_crit_hill = 5.0
                sim.dt = 2 * math.pi * 0.01
                E0 = sim.energy(); e_ = 0.0
                with warnings.catch_warnings():
                    warnings.simplefilter("ignore")
                    for s_ in range(nst):
                        sim.step()
                        if s_ % 5 == 0: e_ = max(e_, abs((sim.energy() - E0) / E0))
                em.append(e_)
            ctx.case(key=("order-independence", integ))
            if not (em[1] <= 20 * em[0] + 1e-9 and em[0] <= 20 * em[1] + 1e-9 and max(em) < 1e-4):
                fails.append({"why": "relative energy error envelope depends on the order in which the planets were added: %.3g (giant last) vs %.3g (giant first)" % (em[0], em[1]),
                              "integrator": integ, "options": {"r_crit_hill": 5.0}, "N": 4, "dt": 2 * math.pi * 0.01, "steps": nst, "G": 1.0,
                              "pair": pair, "giant": giant})
    # "these invariants also hold across synchronisation": EOS with every pre/post-processor pair, inner scheme LF8 so that
    # truncation does not hide anything: the energy error stays at the 1e-13 level whether or not the run is synchronized
    # every 10 steps, and the two runs end in the same state (a post-processor that is not the inverse of its
    # pre-processor perturbs the state at every synchronisation)
    for phi0 in ("pmlf4", "pmlf6", "plf7_6_4", "lf4", "lf6", "lf8", "lf4_2"):
        seed_ = rng.randrange(1 << 30); res = []
        try:
            for every in (0, 10):
                import random as _random
                sim = rand_system(rebound, _random.Random(seed_), 4); sim.integrator = "eos"
                sim.ri_eos.phi0 = phi0; sim.ri_eos.phi1 = "lf8"; sim.ri_eos.n = 4; sim.ri_eos.safe_mode = 0
                sim.dt = 2 * math.pi * math.sqrt(1.6 ** 3 / sim.G) / 150
                E0 = sim.energy(); e_ = 0.0
                for s_ in range(300):
                    sim.step()
                    if every and s_ % every == 0:
                        sim.synchronize(); e_ = max(e_, abs((sim.energy() - E0) / E0))
                sim.synchronize(); e_ = max(e_, abs((sim.energy() - E0) / E0))
                res.append((e_, [(p.x, p.y, p.z, p.vx, p.vy, p.vz) for p in sim.particles]))
        except Exception as ex:
            fails.append({"why": "exception in EOS run: %r" % (ex,), "integrator": "eos", "options": {"phi0": phi0}}); continue
        dd = max(abs(a - b) for pa, pb in zip(res[0][1], res[1][1]) for a, b in zip(pa, pb))
        ctx.case(key=("eos-sync", phi0))
        if not (max(res[0][0], res[1][0]) < 1e-10 and dd < 1e-9):
            fails.append({"why": "EOS %s: energy error %.3g (uninterrupted) / %.3g (synchronized every 10 steps), final states differ by %.3g"
                          % (phi0, res[0][0], res[1][0], dd), "integrator": "eos", "options": {"phi0": phi0, "phi1": "lf8", "n": 4, "safe_mode": 0},
                          "N": 4, "seed_case": seed_, "steps": 300})
    # one simulation object, several integrators in turn (state left behind by the previous integrator must not leak into
    # the next one): the invariants hold across the switches at the level of the coarsest scheme involved
    switch_seqs = [("whfast", "ias15", "whfast"), ("whfast", "leapfrog", "whfast"), ("mercurius", "leapfrog", "mercurius"),
                   ("mercurius", "whfast", "ias15"), ("saba", "eos", "saba"), ("trace", "whfast", "trace"), ("ias15", "saba", "bs"),
                   ("whfast:jacobi", "whfast:barycentric", "whfast:democraticheliocentric"), ("eos", "whfast", "leapfrog"),
                   ("leapfrog", "mercurius", "trace")]
    ebounds = {"leapfrog": 5e-3, "whfast": 1e-4, "ias15": 1e-9, "mercurius": 1e-4, "saba": 1e-5, "eos": 5e-3, "trace": 1e-4, "bs": 1e-5}
    for seq in switch_seqs[:ctx.scale(len(switch_seqs), len(switch_seqs))]:
        sim = rand_system(rebound, rng, rng.choice([3, 4]))
        P_orb = 2 * math.pi * math.sqrt(1.6 ** 3 / sim.G)
        sim.dt = P_orb / rng.choice([87, 113])
        E0 = sim.energy(); P0, L0 = exact_PL(sim)
        Pscale = max(p.m * (abs(p.vx) + abs(p.vy) + abs(p.vz)) for p in sim.particles); Lscale = max(abs(v) for v in L0) or 1.0
        emax = 0.0; exc = None
        with warnings.catch_warnings():
            warnings.simplefilter("ignore")
            try:
                for name in seq:
                    integ, _, coords = name.partition(":")
                    sim.integrator = integ
                    if coords: sim.ri_whfast.coordinates = coords
                    elif integ == "whfast": sim.ri_whfast.coordinates = "jacobi"
                    sim.dt = abs(sim.dt)
                    for s_ in range(60):
                        sim.step()
                        if s_ % 20 == 19:
                            sim.synchronize(); emax = max(emax, abs((sim.energy() - E0) / E0))
                    sim.synchronize()
            except Exception as ex:
                exc = repr(ex)[:200]
        ctx.case(key=("switch", seq))
        bound = 20 * max(ebounds[n_.partition(":")[0]] for n_ in seq)
        P1, L1 = exact_PL(sim)
        dP = max(abs(a - b) for a, b in zip(P0, P1)) / Pscale
        dL = max(abs(a - b) for a, b in zip(L0, L1)) / Lscale
        why = None
        if exc: why = "exception while switching integrators: " + exc
        elif not (emax < bound): why = "relative energy error %.3g after switching integrators %s (bound %.1g)" % (emax, "->".join(seq), bound)
        elif dP > 1e-11: why = "linear momentum drift %.3g after switching integrators %s" % (dP, "->".join(seq))
        elif dL > (1e-11 if not any("barycentric" in n_ or n_ in ("bs", "janus", "mercurius", "trace") for n_ in seq) else 1e-5):
            why = "angular momentum error %.3g after switching integrators %s" % (dL, "->".join(seq))
        if why: fails.append({"why": why, "integrator": "->".join(seq), "N": sim.N, "dt": sim.dt, "G": sim.G})
    # user interventions on one simulation object that must not change the physics: asking an unsynchronized WHFast/SABA
    # (safe_mode 0) to recalculate its coordinates, several times in one run, is the same as synchronizing at those
    # points: same end state to rounding, same energy level (what happens must not depend on whether it happened before)
    for integ in ("whfast", "saba"):
        for rep in range(ctx.scale(2, 6)):
            seed_ = rng.randrange(1 << 30); res = []
            try:
                for mode in ("flag", "explicit-sync"):
                    import random as _random
                    sim = rand_system(rebound, _random.Random(seed_), 4); sim.integrator = integ
                    getattr(sim, "ri_" + integ).safe_mode = 0
                    sim.dt = 2 * math.pi * math.sqrt(1.6 ** 3 / sim.G) / 113
                    E0 = sim.energy(); e_ = 0.0
                    with warnings.catch_warnings():
                        warnings.simplefilter("ignore")
                        for s_ in range(240):
                            sim.step()
                            if s_ % 40 == 39:
                                if mode == "explicit-sync": sim.synchronize()
                                sim.ri_whfast.recalculate_coordinates_this_timestep = 1
                        sim.synchronize()
                    e_ = abs((sim.energy() - E0) / E0)
                    res.append((e_, [(p.x, p.y, p.z, p.vx, p.vy, p.vz) for p in sim.particles]))
            except Exception as ex:
                fails.append({"why": "exception in intervention run: %r" % (ex,), "integrator": integ}); continue
            dd = max(abs(a - b) for pa, pb in zip(res[0][1], res[1][1]) for a, b in zip(pa, pb))
            ctx.case(key=("intervention", integ))
            if not (dd < 1e-9 and res[0][0] < 10 * res[1][0] + 1e-9):
                fails.append({"why": "%s safe_mode=0: raising recalculate_coordinates_this_timestep 6 times while unsynchronized differs from "
                              "synchronizing first by %.3g (energy error %.3g vs %.3g)" % (integ, dd, res[0][0], res[1][0]),
                              "integrator": integ, "options": {"safe_mode": 0}, "N": 4, "seed_case": seed_, "steps": 240})
    # "these invariants also hold across synchronisation": a run that ENTERS integrate() unsynchronized (safe_mode 0 after
    # manual steps) with a target closer than one step -- so that the first step of the call is also its shortened last
    # step -- must equal a twin that is synchronized by hand before every integrate() call, and keep the energy level
    for integ, opt in (("whfast", "ri_whfast"), ("saba", "ri_saba"), ("eos", "ri_eos"), ("mercurius", "ri_mercurius")):
        for rep in range(ctx.scale(1, 4)):
            seed_ = rng.randrange(1 << 30); res = []
            frac = rng.choice([0.3, 0.07, 0.9])
            try:
                for mode in ("unsynchronized-entry", "hand-synchronized"):
                    import random as _random
                    sim = rand_system(rebound, _random.Random(seed_), 3); sim.integrator = integ
                    getattr(sim, opt).safe_mode = 0
                    sim.dt = 2 * math.pi * math.sqrt(1.6 ** 3 / sim.G) / 97
                    E0 = sim.energy(); e_ = 0.0
                    with warnings.catch_warnings():
                        warnings.simplefilter("ignore")
                        for cyc in range(ctx.scale(40, 200)):
                            sim.steps(7)
                            if mode == "hand-synchronized": sim.synchronize()
                            sim.integrate(sim.t + frac * sim.dt)
                            e_ = max(e_, abs((sim.energy() - E0) / E0))
                    res.append((e_, [(p.x, p.y, p.z, p.vx, p.vy, p.vz) for p in sim.particles]))
            except Exception as ex:
                fails.append({"why": "exception in unsynchronized-entry run: %r" % (ex,), "integrator": integ}); continue
            dd = max(abs(a - b) for pa, pb in zip(res[0][1], res[1][1]) for a, b in zip(pa, pb))
            ctx.case(key=("unsync-entry", integ, frac))
            if not (dd < 1e-9 and res[0][0] < 10 * res[1][0] + 1e-12):
                fails.append({"why": "%s safe_mode=0: steps(7); integrate(t+%.2g*dt) repeated differs from the twin that synchronizes before each "
                              "integrate() by %.3g (max energy error %.3g vs %.3g)" % (integ, frac, dd, res[0][0], res[1][0]),
                              "integrator": integ, "options": {"safe_mode": 0}, "N": 3, "seed_case": seed_, "frac": frac})
    # merging collisions: mass, momentum, COM
    for rep in range(ctx.scale(10, 100)):
        sim = rebound.Simulation()
        n = rng.randint(3, 10)
        for i in range(n):
            sim.add(m=rng.uniform(0.1, 1), r=rng.uniform(0.05, 0.4), x=rng.uniform(-1, 1), y=rng.uniform(-1, 1), z=rng.uniform(-0.2, 0.2),
                    vx=rng.uniform(-1, 1), vy=rng.uniform(-1, 1), vz=rng.uniform(-0.1, 0.1))
        sim.integrator = "leapfrog"; sim.dt = 1e-3; sim.collision = "direct"; sim.collision_resolve = "merge"; sim.rand_seed = rng.randrange(1 << 30)   # the library would seed the resolution order from clock and pid
        M0 = sum(Fraction(p.m) for p in sim.particles); P0, _ = exact_PL(sim)
        X0 = [float(sum(Fraction(p.m) * Fraction(getattr(p, c)) for p in sim.particles)) for c in "xyz"]
        N0 = sim.N
        sim.G = 0.0
        sim.steps(rng.randint(1, 30))
        M1 = sum(Fraction(p.m) for p in sim.particles); P1, _ = exact_PL(sim)
        t = sim.t
        X1 = [float(sum(Fraction(p.m) * Fraction(getattr(p, c)) for p in sim.particles)) for c in "xyz"]
        ctx.case(key=("merge", N0, sim.N))
        why = None
        if abs(float(M1 - M0)) > 1e-13 * float(M0): why = "merging changed the total mass"
        if max(abs(a - b) for a, b in zip(P0, P1)) > 1e-12: why = "merging changed the total momentum"
        if max(abs(x1 - (x0 + p * t)) for x0, x1, p in zip(X0, X1, P0)) > 1e-11: why = "merging moved the centre of mass off its uniform motion"
        if why: fails.append({"why": why, "N0": N0, "N1": sim.N, "seed_case": rep})
    # merging collisions inside gravitating systems, for every integrator that supports them, with interleaved
    # step / integrate / synchronize calls (state the integrators keep across a change of N must be refreshed)
    mintegs = ["leapfrog", "whfast", "janus", "ias15", "mercurius", "trace", "saba", "eos", "bs", "whfast-dh"]
    for rep in range(ctx.scale(20, 200)):
        integ = mintegs[rep % len(mintegs)]
        n = rng.randint(4, 6)
        sim = rand_system(rebound, rng, n)
        if integ == "whfast-dh":
            integ = "whfast"; sim.ri_whfast.coordinates = "democraticheliocentric"
        sim.integrator = integ
        if integ == "janus":
            sim.ri_janus.order = rng.choice([2, 4, 6]); sim.ri_janus.scale_pos = 1e-16; sim.ri_janus.scale_vel = 1e-16
        sim.dt = 2 * math.pi * math.sqrt(1.6 ** 3 / sim.G) / rng.choice([60, 87, 113])
        i = rng.randint(1, n - 2)
        ps = sim.particles
        ai = math.hypot(ps[i].x - ps[0].x, ps[i].y - ps[0].y); aj = math.hypot(ps[i + 1].x - ps[0].x, ps[i + 1].y - ps[0].y)
        ps[i].r = 0.6 * (aj - ai); ps[i + 1].r = 0.6 * (aj - ai)      # the two neighbours overlap at conjunction
        sim.collision = "direct"; sim.collision_resolve = "merge"; sim.rand_seed = rng.randrange(1 << 30)   # the library would seed the resolution order from clock and pid
        M0 = sum(Fraction(p.m) for p in sim.particles); P0, _ = exact_PL(sim)
        X0 = [float(sum(Fraction(p.m) * Fraction(getattr(p, c)) for p in sim.particles)) for c in "xyz"]
        Pscale = max(p.m * (abs(p.vx) + abs(p.vy) + abs(p.vz)) for p in sim.particles)
        N0 = sim.N; t0 = sim.t; nst = 400
        exc = None
        with warnings.catch_warnings():
            warnings.simplefilter("ignore")
            try:
                for s_ in range(nst):
                    if sim.N < 2: break      # everything merged: a single free body (adaptive schemes then grow dt without bound)
                    if s_ % 3 == 0: sim.step()
                    elif s_ % 3 == 1: sim.integrate(sim.t + 2.5 * sim.dt, exact_finish_time=0)
                    else: sim.synchronize()
                sim.synchronize()
            except Exception as ex:
                exc = "%s at step %d, t=%r, N=%d" % (repr(ex)[:160], s_, sim.t, sim.N)
        ctx.case(key=("merge-grav", integ, N0, sim.N))
        why = None
        if exc:
            why = "exception while integrating through mergers: " + exc
        elif any(not (p.x == p.x and p.vx == p.vx) for p in sim.particles):
            why = "NaN particle after merging"
        else:
            M1 = sum(Fraction(p.m) for p in sim.particles); P1, _ = exact_PL(sim)
            X1 = [float(sum(Fraction(p.m) * Fraction(getattr(p, c)) for p in sim.particles)) for c in "xyz"]
            t = sim.t - t0; jf = 1e6 if integ == "janus" else 1
            tolP = 2.2e-16 * math.sqrt(3 * nst) * 400 * jf
            dP = max(abs(a - b) for a, b in zip(P0, P1)) / Pscale
            dX = max(abs(x1 - (x0 + p_ * t)) for x0, x1, p_ in zip(X0, X1, P0))
            if abs(float(M1 - M0)) > 1e-13 * float(M0): why = "merging changed the total mass (%s)" % integ
            elif dP > tolP: why = "merging changed the total momentum: relative %.3g (tolerance %.3g)" % (dP, tolP)
            elif dX > 1e-10 * jf ** 0.5 * max(1.0, max(abs(v) for v in X0)) + tolP * Pscale * abs(t):
                # (plus the admitted rounding-level momentum error times the elapsed time: adaptive integrators take huge steps once
                #  everything has merged into one body)
                why = "merging moved the centre of mass off its uniform motion by %.3g" % dX
        if why: fails.append({"why": why, "integrator": integ, "N0": N0, "N1": sim.N, "seed_case": rep, "dt": sim.dt, "G": sim.G})
    if fails:
        f = fails[0]
        ctx.violation("conservation:" + f["why"].split(" ")[0] + ":" + str(f.get("integrator", "merge")), f, True, f["why"])
    ctx.rule = ("diagnostics/leapfrog: random hierarchical systems N in 1..9 with N_active/testparticle_type/energy_offset variants; "
                "conservation: 15 integrator/option classes x random 3-5 body systems, interleaved synchronize; merges of 3-10 overlapping spheres")
    ctx.assumptions += [
        "theorems are in exact arithmetic (Coq reals); rounding-level drift of P and L and the energy accuracy class are measured by the searcher with generous envelopes",
        "energy 'bounded and non-drifting' and 'machine precision for IAS15' are NOT theorems (backward error analysis); thresholds per class are empirical",
        "WH-family operators (Kepler, jump, interaction in Jacobi/DH/WHDS coordinates) conserve P and L by theorems of C03/C12/C02 where proved; here they are covered by the searcher",
        "C04_merge_conserves_mass_momentum_com is about C13's model of reb_collision_resolve_merge + removal; that model is tied to the library bit-for-bit by C13's correspondence (reb_collision_search with the merge resolver), not by this check; this check measures the conservation on the real library through mergers for every integrator",
    ]
