#!/venv/bin/python
"""C09 translator: $VERIF_REPO/src/integrator_whfast.c, integrator_saba.c  ->  coq/Gen/C09Access.v

The C09 model TYPES the Wisdom-Holman operators by what they read and write: r->particles (inertial, P) versus the
cache ri_whfast.p_jh (J).  This translator regenerates, from clang's JSON AST of the current source, for every
operator function the ordered list of its accesses:
    Rd root field | Wr root field     a read / write of  <array>[i].<field>   (a compound assignment is Rd then Wr)
    Call name [roots of the pointer arguments]
with root = RPart (r->particles, also through locals), RPjh (ri_whfast.p_jh), RPartV / RPjhV (a slice particles+offset /
 p_jh+offset: variational particles), RTmp (ri_whfast.p_temp),
RSave (a local buffer obtained from malloc: the copy of the cache made by synchronize), ROther.
The typing claims are then CHECKED in Coq on the regenerated table (coq/C09/Access.v, theorem C09_operator_typing).
Fail closed: a pointer local that is re-assigned, an access through a pointer whose root cannot be resolved, an unknown
AST shape or a missing function make the translator exit non-zero.
"""
import json, os, subprocess, sys

ROOT = os.path.dirname(os.path.dirname(os.path.abspath(__file__)))
REPO = os.environ.get("VERIF_REPO", "/repo")
SRC = os.path.realpath(os.path.join(REPO, "src"))
OUT = os.path.join(ROOT, "coq", "Gen", "C09Access.v")
DFLAGS = ["-DLIBREBOUND", "-D_GNU_SOURCE", "-DSERVER", "-std=c99"]
FUNCS = {
    "integrator_whfast.c": ["reb_whfast_kepler_solver", "reb_whfast_kepler_step", "reb_whfast_com_step", "reb_whfast_jump_step",
                            "reb_whfast_interaction_step", "reb_whfast_corrector_Z", "reb_whfast_apply_corrector",
                            "reb_whfast_operator_C", "reb_whfast_operator_Y", "reb_whfast_operator_U", "reb_whfast_apply_corrector2",
                            "reb_whfast_calculate_jerk", "reb_integrator_whfast_from_inertial", "reb_integrator_whfast_to_inertial",
                            "reb_integrator_whfast_synchronize"],
    "integrator_saba.c": ["reb_saba_corrector_step", "reb_integrator_saba_synchronize"],
}
PARTICLE_FIELDS = {"x", "y", "z", "vx", "vy", "vz", "ax", "ay", "az", "m", "r", "hash", "last_collision", "c", "ap", "sim"}


class Fail(Exception):
    pass


def write_if_changed(path, text):
    if os.path.exists(path) and open(path).read() == text:
        return
    with open(path, "w") as f:
        f.write(text)


def load(name):
    r = subprocess.run(["clang", "-Xclang", "-ast-dump=json", "-fsyntax-only", "-w"] + DFLAGS + ["-I" + SRC, os.path.join(SRC, name)],
                       capture_output=True)
    if r.returncode != 0:
        raise Fail("clang failed on %s: %s" % (name, r.stderr.decode()[-400:]))

    def hook(d):
        if d.get("kind") in ("RecordDecl", "EnumDecl", "TypedefDecl"):
            d.pop("inner", None)
        return d
    return json.loads(r.stdout, object_hook=hook)


def kids(n):
    return [c for c in n.get("inner", []) if isinstance(c, dict) and c]


def strip(n):
    while n.get("kind") in ("ImplicitCastExpr", "ParenExpr", "CStyleCastExpr", "ConstantExpr"):
        n = kids(n)[0]
    return n


def is_particle_ptr(n):
    t = n.get("type", {}).get("qualType", "")
    return "reb_particle" in t and "avx512" not in t and ("*" in t or "[" in t)


def is_particle_val(n):
    t = n.get("type", {}).get("qualType", "").replace("const", "").replace("struct", "").strip()
    return t == "reb_particle"


class Fn:
    def __init__(self, decl):
        self.name = decl["name"]
        self.env = {}          # VarDecl id -> root (pointer locals and struct-copy locals)
        self.events = []
        body = [c for c in kids(decl) if c.get("kind") == "CompoundStmt"]
        if len(body) != 1: raise Fail("%s: no body" % self.name)
        for c in kids(decl):
            if c.get("kind") == "ParmVarDecl" and is_particle_ptr(c):
                self.env[c["id"]] = "ROther"       # a particle array handed in by the caller (kepler_solver's p_j): resolved at the call site
        self.stmt(body[0])

    # ---- roots of pointer expressions
    def root(self, e):
        e = strip(e)
        k = e.get("kind")
        if k == "MemberExpr":
            nm = e.get("name")
            if nm == "particles": return "RPart"
            if nm == "p_jh": return "RPjh"
            if nm == "p_temp": return "RTmp"
            return "ROther"
        if k == "DeclRefExpr":
            rid = e.get("referencedDecl", {}).get("id")
            if rid in self.env: return self.env[rid]
            if is_particle_ptr(e): raise Fail("%s: particle pointer %s with unknown origin" % (self.name, e.get("referencedDecl", {}).get("name")))
            return "ROther"
        if k == "BinaryOperator" and e.get("opcode") in ("+", "-"):
            a, b = kids(e)
            base = self.root(a) if is_particle_ptr(strip(a)) else self.root(b)
            # a slice of the array (particles + vc.index: the variational particles) is kept apart from the array itself
            return {"RPart": "RPartV", "RPjh": "RPjhV"}.get(base, base)
        if k == "UnaryOperator" and e.get("opcode") == "&":
            return self.elem_root(kids(e)[0])
        if k == "CallExpr":
            callee = self.callee(e)
            if callee in ("malloc", "realloc", "aligned_alloc", "calloc"): return "RSave"
            return "ROther"
        if k in ("IntegerLiteral", "GNUNullExpr") or (k == "ParenExpr"): return "ROther"
        return "ROther"

    def elem_root(self, e):
        """root of an lvalue of type struct reb_particle (X[i], *X, a local copy)"""
        e = strip(e)
        k = e.get("kind")
        if k == "ArraySubscriptExpr": return self.root(kids(e)[0])
        if k == "UnaryOperator" and e.get("opcode") == "*": return self.root(kids(e)[0])
        if k == "DeclRefExpr":
            rid = e.get("referencedDecl", {}).get("id")
            if rid in self.env: return self.env[rid]
            raise Fail("%s: particle value %s with unknown origin" % (self.name, e.get("referencedDecl", {}).get("name")))
        if k == "MemberExpr" and e.get("isArrow"): return self.root(kids(e)[0])
        raise Fail("%s: particle lvalue of kind %s" % (self.name, k))

    def callee(self, e):
        f = strip(kids(e)[0])
        if f.get("kind") == "DeclRefExpr": return f.get("referencedDecl", {}).get("name", "?")
        return "?indirect"

    # ---- expressions
    def member(self, e, mode):
        """e: MemberExpr; returns True if it was an access to a particle field"""
        base = kids(e)[0]
        sb = strip(base)
        nm = e.get("name")
        if nm in PARTICLE_FIELDS and (is_particle_val(sb) or (e.get("isArrow") and is_particle_ptr(sb))):
            root = self.root(base) if e.get("isArrow") else self.elem_root(base)
            local = sb.get("kind") == "DeclRefExpr" and not e.get("isArrow") and not is_particle_ptr(sb)
            if not local:            # reads of a local struct copy were recorded when the copy was made
                if "r" in mode: self.events.append(("Rd", root, nm))
                if "w" in mode: self.events.append(("Wr", root, nm))
            elif "w" in mode:
                pass                 # writing a local copy does not touch the arrays
            # index expressions may contain further accesses
            if sb.get("kind") == "ArraySubscriptExpr": self.expr(kids(sb)[1])
            return True
        return False

    def expr(self, e, mode="r"):
        k = e.get("kind")
        if k == "MemberExpr":
            if self.member(e, mode): return
            for c in kids(e): self.expr(c, "r")
            return
        if k in ("BinaryOperator",) and e.get("opcode") == "=":
            l, r = kids(e)
            self.expr(r, "r")
            sl = strip(l)
            if sl.get("kind") == "DeclRefExpr" and is_particle_ptr(sl):
                rid = sl.get("referencedDecl", {}).get("id")
                if self.env.get(rid, "ROther") != "ROther":      # only a pointer initialised with NULL may be given its buffer later
                    raise Fail("%s: particle pointer %s is re-assigned" % (self.name, sl.get("referencedDecl", {}).get("name")))
                self.env[rid] = self.root(r)
                return
            if is_particle_val(sl):      # whole-struct assignment X[i] = ...
                self.events.append(("Wr", self.elem_root(sl), "*"))
                return
            self.expr(l, "w")
            return
        if k == "CompoundAssignOperator":
            l, r = kids(e)
            self.expr(r, "r"); self.expr(l, "rw")
            return
        if k == "UnaryOperator" and e.get("opcode") in ("++", "--"):
            self.expr(kids(e)[0], "rw"); return
        if k == "CallExpr":
            name = self.callee(e)
            args = kids(e)[1:]
            roots = []
            for a in args:
                sa = strip(a)
                if is_particle_ptr(sa) or (sa.get("kind") == "CallExpr") or "void *" in a.get("type", {}).get("qualType", ""):
                    roots.append(self.root(a))
                else:
                    self.expr(a, "r")
            self.events.append(("Call", name, roots))
            return
        if k in ("ImplicitCastExpr",) and e.get("castKind") == "LValueToRValue":
            c = kids(e)[0]
            if is_particle_val(strip(c)):        # reading a whole particle (struct copy)
                self.events.append(("Rd", self.elem_root(c), "*"))
                sc = strip(c)
                if sc.get("kind") == "ArraySubscriptExpr": self.expr(kids(sc)[1])
                return
        for c in kids(e):
            self.expr(c, mode if k in ("ImplicitCastExpr", "ParenExpr", "CStyleCastExpr") else "r")

    # ---- statements
    def stmt(self, s):
        k = s.get("kind")
        if k == "DeclStmt":
            for d in kids(s):
                if d.get("kind") != "VarDecl": continue
                init = [c for c in kids(d)]
                if is_particle_ptr(d):
                    self.env[d["id"]] = self.root(init[0]) if init else "ROther"
                    if init and strip(init[0]).get("kind") == "CallExpr": self.expr(init[0])
                elif is_particle_val(d):
                    if not init: raise Fail("%s: uninitialised particle local %s" % (self.name, d.get("name")))
                    self.env[d["id"]] = self.elem_root(init[0])
                    self.events.append(("Rd", self.env[d["id"]], "*"))
                else:
                    for c in init: self.expr(c)
            return
        if k in ("CompoundStmt", "IfStmt", "ForStmt", "WhileStmt", "DoStmt", "SwitchStmt", "CaseStmt", "DefaultStmt", "ReturnStmt",
                 "BreakStmt", "NullStmt", "OMPParallelForDirective", "CapturedStmt", "AttributedStmt", "LabelStmt", "ContinueStmt"):
            for c in kids(s):
                if c.get("kind", "").endswith("Stmt") or c.get("kind") in ("OMPParallelForDirective",):
                    self.stmt(c)
                elif c.get("kind", "").endswith("Decl"):
                    continue
                else:
                    self.expr(c)
            return
        if k.endswith("Operator") or k.endswith("Expr") or k.endswith("Literal"):
            self.expr(s); return
        raise Fail("%s: statement kind %s not understood" % (self.name, k))


def q(s):
    if '"' in s or any(ord(c) < 32 or ord(c) > 126 for c in s): raise Fail("bad string %r" % s)
    return '"%s"' % s


def main():
    out = []
    for fname, wanted in FUNCS.items():
        ast = load(fname)
        decls = {}
        for n in ast["inner"]:
            if n.get("kind") == "FunctionDecl" and n.get("name") in wanted and any(c.get("kind") == "CompoundStmt" for c in kids(n)):
                decls[n["name"]] = n
        for w in wanted:
            if w not in decls: raise Fail("function %s not found in %s" % (w, fname))
            f = Fn(decls[w])
            ev = []
            for e in f.events:
                if e[0] == "Call": ev.append("Call %s [%s]" % (q(e[1]), "; ".join(e[2])))
                else: ev.append("%s %s %s" % (e[0], e[1], q(e[2])))
            out.append("  (%s,\n   [%s])" % (q(w), ";\n    ".join(ev)))
    os.makedirs(os.path.dirname(OUT), exist_ok=True)
    write_if_changed(OUT, "(* GENERATED by tools/translate_c09_access.py from src/integrator_whfast.c and src/integrator_saba.c. Do not edit. *)\n"
                     "From Coq Require Import List String.\nFrom RV Require Import C09.Access.\nImport ListNotations.\nOpen Scope string_scope.\n\n"
                     "Definition access_table : list (string * list acc) := [\n" + ";\n".join(out) + "].\n")


if __name__ == "__main__":
    try:
        main()
    except Fail as e:
        print("translate_c09_access: " + str(e)); sys.exit(1)
