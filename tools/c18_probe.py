"""C18 probe — runs with PYTHONPATH=<libdir> (fresh librebound + $VERIF_REPO/rebound). Library-only: nothing here uses
the Coq model.  argv[1] = job json (written by tools/c18.py), stdout = result json.

job: { "classes": [[class, module], ...],
       "name_pairs": [[class, cstruct, pyfield, cmember], ...]      (intended correspondence by NAME)
       "coff": {cstruct: {cmember: [offset, size]}}, "csize": {cstruct: [size, align]}   (from gcc on the current headers)
       "ckind": {cstruct: {cmember: "signed"|"unsigned"|"float"|"enum"|"ptr"|"funptr"|"char"|"other"}},
       "enum": {CONST: value}                                           (from gcc)
       "option_pairs": [[dict, key, CONST, pyvalue], ...], "symbols": [[module, symbol], ...], "dead_modules": [...] }
"""
import ctypes, importlib, json, struct, sys


def main():
    job = json.load(open(sys.argv[1]))
    out = {"layout": [], "mismatch": [], "checked": {"fields": 0, "sentinels": 0, "options": 0, "symbols": 0, "descriptors": 0,
                                                     "callbacks": 0}}
    import os
    import rebound
    clib = rebound.clibrebound
    pkg = os.path.realpath(os.path.dirname(rebound.__file__)); libp = os.path.realpath(clib._name)
    if pkg != job["expect_pkg"] or os.path.dirname(libp) != job["expect_lib"]:
        print("C18PROBE-WRONG-PACKAGE imported %s with %s, expected %s with a library in %s" % (pkg, libp, job["expect_pkg"], job["expect_lib"]))
        return
    classes = {}
    for cname, mod in job["classes"]:
        try:
            m = importlib.import_module("rebound." + mod) if mod != "__init__" else rebound
            classes[cname] = getattr(m, cname)
        except Exception as e:
            out["mismatch"].append({"what": "class-not-importable", "struct": cname, "member": "", "detail": repr(e)})
    # ---- 1. ctypes' own layout of every class (for the correspondence with the Coq ctypes model)
    for cname, cls in classes.items():
        for fn, ft in cls._fields_:
            d = cls.__dict__.get(fn)
            if d is None or not hasattr(d, "offset"):
                # a property / other attribute hides the field descriptor
                out["mismatch"].append({"what": "field-descriptor-hidden", "struct": cname, "member": fn,
                                        "detail": "class attribute %r is %r" % (fn, type(getattr(cls, fn, None)).__name__)})
                continue
            out["layout"].append([cname, fn, d.offset, d.size])
        out["layout"].append([cname, "<sizeof>", ctypes.sizeof(cls), ctypes.alignment(cls)])

    # ---- 2. sentinel test, field by field, against the C offsets computed by gcc
    pairs = {}
    for cls_, cs, pf, cm in job["name_pairs"]:
        pairs.setdefault(cls_, []).append((cs, pf, cm))
    for cname, lst in pairs.items():
        if cname not in classes:
            continue
        cls = classes[cname]
        cs = lst[0][0]
        if cs not in job["coff"]:
            out["mismatch"].append({"what": "no-such-c-record", "struct": cname, "member": "", "detail": cs}); continue
        csz = job["csize"][cs][0]
        n = max(csz, ctypes.sizeof(cls)) + 64
        ftypes = dict(cls._fields_)
        seen_split = {}
        for idx, (cs, pf, cm) in enumerate(lst):
            out["checked"]["fields"] += 1
            d = cls.__dict__.get(pf)
            if d is None or not hasattr(d, "offset"):
                continue  # reported above
            if cm not in job["coff"][cs]:
                out["mismatch"].append({"what": "no-such-c-member", "struct": cname, "member": pf, "detail": "%s.%s" % (cs, cm)})
                continue
            coff, csize = job["coff"][cs][cm]
            ck = job["ckind"][cs].get(cm, "other")
            ft = ftypes[pf]
            k = seen_split.get(pf, 0); seen_split[pf] = k + 1          # element index when an array field covers several members
            is_arr = isinstance(ft, type) and issubclass(ft, ctypes.Array)
            split = is_arr and sum(1 for x in lst if x[1] == pf) > 1
            poff = d.offset + (k * ctypes.sizeof(ft._type_) if split else 0)
            psize = ctypes.sizeof(ft._type_) if split else d.size
            if poff != coff or psize != csize:
                out["mismatch"].append({"what": "offset-size", "struct": cname, "member": pf,
                                        "detail": "python %s at [%d,+%d) but C %s.%s at [%d,+%d)" % (pf, poff, psize, cs, cm, coff, csize)})
            # byte-level: write through python, read at the C offset; write at the C offset, read through python
            buf = (ctypes.c_ubyte * n)()
            obj = cls.from_buffer(buf)
            el = ft._type_ if split else ft
            code = getattr(el, "_type_", None) if isinstance(el, type) and issubclass(el, ctypes._SimpleCData) else None
            def get():
                v = getattr(obj, pf)
                return v[k] if split else v
            def put(v):
                if split:
                    getattr(obj, pf)[k] = v
                else:
                    setattr(obj, pf, v)
            raw = lambda: bytes(buf[coff:coff + csize])
            def poke(b):
                for i, x in enumerate(b):
                    buf[coff + i] = x
            if code in ("b", "B", "h", "H", "i", "I", "l", "L", "q", "Q") and ck in ("signed", "unsigned", "enum") and csize in (1, 2, 4, 8):
                out["checked"]["sentinels"] += 1
                fmt = {1: "b", 2: "h", 4: "i", 8: "q"}[csize]
                sent = (0x11 * (idx % 7 + 1)) + 1
                try:
                    put(sent)
                    got = struct.unpack("<" + fmt, raw())[0]
                    if got != sent:
                        out["mismatch"].append({"what": "sentinel-write", "struct": cname, "member": pf,
                                                "detail": "wrote %d via python field %s; C member %s.%s holds %d" % (sent, pf, cs, cm, got)})
                except Exception as e:
                    out["mismatch"].append({"what": "sentinel-write-raised", "struct": cname, "member": pf, "detail": repr(e)})
                for i in range(n): buf[i] = 0
                poke(b"\xff" * csize)
                cval = (1 << (8 * csize)) - 1 if ck == "unsigned" else -1
                pv = get()
                if ck != "enum" and pv != cval:
                    out["mismatch"].append({"what": "sentinel-read-signedness", "struct": cname, "member": pf,
                                            "detail": "bytes ff..ff in C member %s.%s mean %d for its C type; python field %s reads %d" % (cs, cm, cval, pf, pv)})
                if ck == "enum" and pv not in (cval, (1 << (8 * csize)) - 1):
                    out["mismatch"].append({"what": "sentinel-read", "struct": cname, "member": pf, "detail": "enum read %r" % (pv,)})
            elif code in ("f", "d") and ck == "float":
                out["checked"]["sentinels"] += 1
                sent = 1.0 + idx / 64.0
                put(sent)
                got = struct.unpack("<" + ("d" if csize == 8 else "f"), raw())[0]
                if got != sent:
                    out["mismatch"].append({"what": "sentinel-write", "struct": cname, "member": pf,
                                            "detail": "wrote %r via python field %s; C member %s.%s holds %r" % (sent, pf, cs, cm, got)})
            elif ck in ("ptr", "funptr") and csize == 8:
                out["checked"]["sentinels"] += 1
                sent = 0x1000 * (idx + 1) + 0x10
                poke(struct.pack("<Q", sent))
                try:
                    if code == "P":
                        pv = get()
                    elif code == "z":
                        pv = sent            # reading a c_char_p dereferences; layout already compared above
                    else:
                        pv = ctypes.cast(get(), ctypes.c_void_p).value
                    if pv != sent:
                        out["mismatch"].append({"what": "sentinel-read", "struct": cname, "member": pf,
                                                "detail": "pointer %#x stored in C member %s.%s; python field %s reads %r" % (sent, cs, cm, pf, pv)})
                except Exception as e:
                    out["mismatch"].append({"what": "sentinel-read-raised", "struct": cname, "member": pf, "detail": repr(e)})
            del obj

    # ---- 3. live simulation: sizes, options through the properties, callbacks by name, library-embedded offsets
    sim = rebound.Simulation()
    sim.add(m=1.); sim.add(m=1e-3, a=1.)
    base = ctypes.addressof(sim)
    co = job["coff"]
    clib.reb_simulation_struct_size.restype = ctypes.c_size_t
    lsz = clib.reb_simulation_struct_size()
    if not (lsz == job["csize"]["reb_simulation"][0] == ctypes.sizeof(rebound.Simulation)):
        out["mismatch"].append({"what": "sizeof", "struct": "Simulation", "member": "<sizeof>",
                                "detail": "library %d, gcc on current header %d, ctypes %d" % (lsz, job["csize"]["reb_simulation"][0], ctypes.sizeof(rebound.Simulation))})

    def path_off(struct_, path):
        off = 0; cur = struct_
        for i, p in enumerate(path):
            if cur not in co or p not in co[cur]:
                return None
            off += co[cur][p][0]
            if i + 1 < len(path):
                cur = job["cmember_struct"].get(cur, {}).get(p)
                if cur is None: return None
        return off

    targets = {"INTEGRATORS": [(lambda: sim, "integrator", ["integrator"])],
               "GRAVITIES": [(lambda: sim, "gravity", ["gravity"])],
               "COLLISIONS": [(lambda: sim, "collision", ["collision"])],
               "BOUNDARIES": [(lambda: sim, "boundary", ["boundary"])],
               "WHFAST_KERNELS": [(lambda: sim.ri_whfast, "kernel", ["ri_whfast", "kernel"])],
               "WHFAST_COORDINATES": [(lambda: sim.ri_whfast, "coordinates", ["ri_whfast", "coordinates"])],
               "TRACE_PERI_MODES": [(lambda: sim.ri_trace, "peri_mode", ["ri_trace", "peri_mode"])],
               "SABA_TYPES": [(lambda: sim.ri_saba, "type", ["ri_saba", "type"])],
               "EOS_TYPES": [(lambda: sim.ri_eos, "phi0", ["ri_eos", "phi0"]), (lambda: sim.ri_eos, "phi1", ["ri_eos", "phi1"])]}
    simsize = job["csize"]["reb_simulation"][0]
    SENT = 0x5A5A5A5A

    def others_changed(before, after, off):
        """byte offsets outside [off, off+4) of struct reb_simulation that differ"""
        return [i for i in range(simsize) if before[i] != after[i] and not (off <= i < off + 4)]

    for dname, key, const, pyval in job["option_pairs"]:
        if dname not in targets:
            out["mismatch"].append({"what": "option-dict-without-target", "struct": dname, "member": key, "detail": ""}); continue
        for objf, prop, path in targets[dname]:
            off = path_off("reb_simulation", path)
            if off is None or const not in job["enum"]:
                out["mismatch"].append({"what": "option-no-c-side", "struct": dname, "member": key, "detail": "%s / %s" % (path, const)}); continue
            cval = job["enum"][const]
            # set by NAME and by INTEGER value; each time: park a sentinel in the raw C member, snapshot the whole struct,
            # set through the property, then (a) the raw member holds the C value, (b) the name reads back,
            # (c) no byte of any OTHER member of reb_simulation changed
            for how, val in (("name", key), ("int", cval)):
                out["checked"]["options"] += 1
                try:
                    ctypes.c_uint.from_address(base + off).value = SENT
                    before = ctypes.string_at(base, simsize)
                    setattr(objf(), prop, val)
                    after = ctypes.string_at(base, simsize)
                    rawv = ctypes.c_int.from_address(base + off).value
                    back = getattr(objf(), prop)
                except Exception as e:
                    out["mismatch"].append({"what": "option-set-raised", "struct": dname, "member": key, "detail": "%s=%r: %r" % (prop, val, e)}); continue
                if rawv != cval:
                    out["mismatch"].append({"what": "option-value", "struct": dname, "member": key,
                                            "detail": "%s = %r (by %s) leaves %d in reb_simulation.%s; C %s = %d" % (prop, val, how, rawv, ".".join(path), const, cval)})
                if back != key:
                    out["mismatch"].append({"what": "option-readback", "struct": dname, "member": key,
                                            "detail": "%s = %r (by %s) reads back %r, expected %r" % (prop, val, how, back, key)})
                oc = others_changed(before, after, off)
                if oc:
                    out["mismatch"].append({"what": "option-clobbers-other-member", "struct": dname, "member": key,
                                            "detail": "%s = %r (by %s) changed bytes %s of struct reb_simulation outside %s at [%d,+4)" % (prop, val, how, oc[:8], ".".join(path), off)})
                    for i in oc:     # restore so one defect is not reported for every later item
                        ctypes.c_ubyte.from_address(base + i).value = before[i]
    sim.integrator = "ias15"; sim.gravity = "basic"; sim.collision = "none"; sim.boundary = "none"

    cbs = [(lambda: sim, "collision_resolve", ["collision_resolve"], {"merge": "reb_collision_resolve_merge", "hardsphere": "reb_collision_resolve_hardsphere", "halt": "reb_collision_resolve_halt"}),
           (lambda: sim.ri_mercurius, "L", ["ri_mercurius", "L"], {"mercury": "reb_integrator_mercurius_L_mercury", "C4": "reb_integrator_mercurius_L_C4", "C5": "reb_integrator_mercurius_L_C5", "infinity": "reb_integrator_mercurius_L_infinity"}),
           (lambda: sim.ri_trace, "S", ["ri_trace", "S"], {"default": "reb_integrator_trace_switch_default"}),
           (lambda: sim.ri_trace, "S_peri", ["ri_trace", "S_peri"], {"default": "reb_integrator_trace_switch_peri_default", "none": "reb_integrator_trace_switch_peri_none"})]
    for objf, prop, path, names in cbs:
        off = path_off("reb_simulation", path)
        for nm, sym in names.items():
            out["checked"]["callbacks"] += 1
            try:
                setattr(objf(), prop, nm)
                rawp = ctypes.c_void_p.from_address(base + off).value
                want = ctypes.cast(getattr(clib, sym), ctypes.c_void_p).value
            except Exception as e:
                out["mismatch"].append({"what": "callback-set-raised", "struct": prop, "member": nm, "detail": repr(e)}); continue
            if rawp != want:
                out["mismatch"].append({"what": "callback-pointer", "struct": prop, "member": nm,
                                        "detail": "%s = %r stores %r in reb_simulation.%s; &%s = %r" % (prop, nm, rawp, ".".join(path), sym, want)})

    # offsets the LIBRARY itself was compiled with (reb_binary_field_descriptor_list) vs gcc on the current header
    try:
        from rebound.binary_field_descriptor import binary_field_descriptor_list
        for fd in binary_field_descriptor_list():
            nm = fd.name.decode("ascii")
            path = nm.split(".")
            off = path_off("reb_simulation", path)
            if off is None:
                continue            # descriptor names that are not member paths (e.g. "particles.var"?) are skipped
            out["checked"]["descriptors"] += 1
            if off != fd.offset:
                out["mismatch"].append({"what": "library-offset", "struct": "reb_simulation", "member": nm,
                                        "detail": "loaded library has %s at %d, current header puts it at %d" % (nm, fd.offset, off)})
    except Exception as e:
        out["mismatch"].append({"what": "descriptor-list-raised", "struct": "BinaryFieldDescriptor", "member": "", "detail": repr(e)})

    # ---- 4. symbols resolve in the loaded library
    for mod, sym in job["symbols"]:
        if mod in job["dead_modules"]:
            continue
        out["checked"]["symbols"] += 1
        try:
            getattr(clib, sym)
        except AttributeError:
            try:
                ctypes.c_int.in_dll(clib, sym)
            except Exception:
                out["mismatch"].append({"what": "symbol-missing", "struct": mod, "member": sym, "detail": "dlsym fails"})
    print("C18PROBE " + json.dumps(out))


if __name__ == "__main__":
    main()
