"""C18 probe — runs with PYTHONPATH=<libdir> (fresh librebound + $VERIF_REPO/rebound). Library-only: nothing here uses
the Coq model.  argv[1] = job json (written by tools/c18.py), stdout = result json.

job: { "classes": [[class, module], ...],
       "name_pairs": [[class, cstruct, pyfield, cmember], ...]      (intended correspondence by NAME)
       "coff": {cstruct: {cmember: [offset, size]}}, "csize": {cstruct: [size, align]}   (from gcc on the current headers)
       "ckind": {cstruct: {cmember: "signed"|"unsigned"|"float"|"enum"|"ptr"|"funptr"|"char"|"other"}},
       "enum": {CONST: value}                                           (from gcc)
       "option_pairs": [[dict, key, CONST, pyvalue], ...], "symbols": [[module, symbol], ...], "dead_modules": [...] }
"""
import ctypes, importlib, json, struct, sys


def main():
    job = json.load(open(sys.argv[1]))
    out = {"layout": [], "mismatch": [], "checked": {"fields": 0, "sentinels": 0, "options": 0, "symbols": 0, "descriptors": 0,
                                                     "callbacks": 0}}
    import os
    import rebound
    clib = rebound.clibrebound
    pkg = os.path.realpath(os.path.dirname(rebound.__file__)); libp = os.path.realpath(clib._name)
    if pkg != job["expect_pkg"] or os.path.dirname(libp) != job["expect_lib"]:
        print("C18PROBE-WRONG-PACKAGE imported %s with %s, expected %s with a library in %s" % (pkg, libp, job["expect_pkg"], job["expect_lib"]))
        return
    classes = {}
    for cname, mod in job["classes"]:
        try:
            m = importlib.import_module("rebound." + mod) if mod != "__init__" else rebound
            classes[cname] = getattr(m, cname)
        except Exception as e:
            out["mismatch"].append({"what": "class-not-importable", "struct": cname, "member": "", "detail": repr(e)})
    # ---- 1. ctypes' own layout of every class (for the correspondence with the Coq ctypes model)
    for cname, cls in classes.items():
        for fn, ft in cls._fields_:
            d = cls.__dict__.get(fn)
            if d is None or not hasattr(d, "offset"):
                # a property / other attribute hides the field descriptor
                out["mismatch"].append({"what": "field-descriptor-hidden", "struct": cname, "member": fn,
                                        "detail": "class attribute %r is %r" % (fn, type(getattr(cls, fn, None)).__name__)})
                continue
            out["layout"].append([cname, fn, d.offset, d.size])
        out["layout"].append([cname, "<sizeof>", ctypes.sizeof(cls), ctypes.alignment(cls)])

    # ---- 2. sentinel test, field by field, against the C offsets computed by gcc
    pairs = {}
    for cls_, cs, pf, cm in job["name_pairs"]:
        pairs.setdefault(cls_, []).append((cs, pf, cm))
    for cname, lst in pairs.items():
        if cname not in classes:
            continue
        cls = classes[cname]
        cs = lst[0][0]
        if cs not in job["coff"]:
            out["mismatch"].append({"what": "no-such-c-record", "struct": cname, "member": "", "detail": cs}); continue
        csz = job["csize"][cs][0]
        n = max(csz, ctypes.sizeof(cls)) + 64
        ftypes = dict(cls._fields_)
        seen_split = {}
        for idx, (cs, pf, cm) in enumerate(lst):
            out["checked"]["fields"] += 1
            d = cls.__dict__.get(pf)
            if d is None or not hasattr(d, "offset"):
                continue  # reported above
            if cm not in job["coff"][cs]:
                out["mismatch"].append({"what": "no-such-c-member", "struct": cname, "member": pf, "detail": "%s.%s" % (cs, cm)})
                continue
            coff, csize = job["coff"][cs][cm]
            ck = job["ckind"][cs].get(cm, "other")
            ft = ftypes[pf]
            k = seen_split.get(pf, 0); seen_split[pf] = k + 1          # element index when an array field covers several members
            is_arr = isinstance(ft, type) and issubclass(ft, ctypes.Array)
            split = is_arr and sum(1 for x in lst if x[1] == pf) > 1
            poff = d.offset + (k * ctypes.sizeof(ft._type_) if split else 0)
            psize = ctypes.sizeof(ft._type_) if split else d.size
            if poff != coff or psize != csize:
                out["mismatch"].append({"what": "offset-size", "struct": cname, "member": pf,
                                        "detail": "python %s at [%d,+%d) but C %s.%s at [%d,+%d)" % (pf, poff, psize, cs, cm, coff, csize)})
            # byte-level: write through python, read at the C offset; write at the C offset, read through python
            buf = (ctypes.c_ubyte * n)()
            obj = cls.from_buffer(buf)
            el = ft._type_ if split else ft
            code = getattr(el, "_type_", None) if isinstance(el, type) and issubclass(el, ctypes._SimpleCData) else None
            def get():
                v = getattr(obj, pf)
                return v[k] if split else v
            def put(v):
                if split:
                    getattr(obj, pf)[k] = v
                else:
                    setattr(obj, pf, v)
            raw = lambda: bytes(buf[coff:coff + csize])
            def poke(b):
                for i, x in enumerate(b):
                    buf[coff + i] = x
            if code in ("b", "B", "h", "H", "i", "I", "l", "L", "q", "Q") and ck in ("signed", "unsigned", "enum") and csize in (1, 2, 4, 8):
                out["checked"]["sentinels"] += 1
                fmt = {1: "b", 2: "h", 4: "i", 8: "q"}[csize]
                sent = (0x11 * (idx % 7 + 1)) + 1
                try:
                    put(sent)
                    got = struct.unpack("<" + fmt, raw())[0]
                    if got != sent:
                        out["mismatch"].append({"what": "sentinel-write", "struct": cname, "member": pf,
                                                "detail": "wrote %d via python field %s; C member %s.%s holds %d" % (sent, pf, cs, cm, got)})
                except Exception as e:
                    out["mismatch"].append({"what": "sentinel-write-raised", "struct": cname, "member": pf, "detail": repr(e)})
                for i in range(n): buf[i] = 0
                poke(b"\xff" * csize)
                cval = (1 << (8 * csize)) - 1 if ck == "unsigned" else -1
                pv = get()
                if ck != "enum" and pv != cval:
                    out["mismatch"].append({"what": "sentinel-read-signedness", "struct": cname, "member": pf,
                                            "detail": "bytes ff..ff in C member %s.%s mean %d for its C type; python field %s reads %d" % (cs, cm, cval, pf, pv)})
                if ck == "enum" and pv not in (cval, (1 << (8 * csize)) - 1):
                    out["mismatch"].append({"what": "sentinel-read", "struct": cname, "member": pf, "detail": "enum read %r" % (pv,)})
            elif code in ("f", "d") and ck == "float":
                out["checked"]["sentinels"] += 1
                sent = 1.0 + idx / 64.0
                put(sent)
                got = struct.unpack("<" + ("d" if csize == 8 else "f"), raw())[0]
                if got != sent:
                    out["mismatch"].append({"what": "sentinel-write", "struct": cname, "member": pf,
                                            "detail": "wrote %r via python field %s; C member %s.%s holds %r" % (sent, pf, cs, cm, got)})
            elif ck in ("ptr", "funptr") and csize == 8:
                out["checked"]["sentinels"] += 1
                sent = 0x1000 * (idx + 1) + 0x10
                poke(struct.pack("<Q", sent))
                try:
                    if code == "P":
                        pv = get()
                    elif code == "z":
                        pv = sent            # reading a c_char_p dereferences; layout already compared above
                    else:
                        pv = ctypes.cast(get(), ctypes.c_void_p).value
                    if pv != sent:
                        out["mismatch"].append({"what": "sentinel-read", "struct": cname, "member": pf,
                                                "detail": "pointer %#x stored in C member %s.%s; python field %s reads %r" % (sent, cs, cm, pf, pv)})
                except Exception as e:
                    out["mismatch"].append({"what": "sentinel-read-raised", "struct": cname, "member": pf, "detail": repr(e)})
            del obj

    # ---- 3. live simulation: sizes, options through the properties, callbacks by name, library-embedded offsets
    sim = rebound.Simulation()
    sim.add(m=1.); sim.add(m=1e-3, a=1.)
    base = ctypes.addressof(sim)
    co = job["coff"]
    clib.reb_simulation_struct_size.restype = ctypes.c_size_t
    lsz = clib.reb_simulation_struct_size()
    if not (lsz == job["csize"]["reb_simulation"][0] == ctypes.sizeof(rebound.Simulation)):
        out["mismatch"].append({"what": "sizeof", "struct": "Simulation", "member": "<sizeof>",
                                "detail": "library %d, gcc on current header %d, ctypes %d" % (lsz, job["csize"]["reb_simulation"][0], ctypes.sizeof(rebound.Simulation))})

    def path_off(struct_, path):
        off = 0; cur = struct_
        for i, p in enumerate(path):
            if cur not in co or p not in co[cur]:
                return None
            off += co[cur][p][0]
            if i + 1 < len(path):
                cur = job["cmember_struct"].get(cur, {}).get(p)
                if cur is None: return None
        return off

    targets = {"INTEGRATORS": [(lambda: sim, "integrator", ["integrator"])],
               "GRAVITIES": [(lambda: sim, "gravity", ["gravity"])],
               "COLLISIONS": [(lambda: sim, "collision", ["collision"])],
               "BOUNDARIES": [(lambda: sim, "boundary", ["boundary"])],
               "WHFAST_KERNELS": [(lambda: sim.ri_whfast, "kernel", ["ri_whfast", "kernel"])],
               "WHFAST_COORDINATES": [(lambda: sim.ri_whfast, "coordinates", ["ri_whfast", "coordinates"])],
               "TRACE_PERI_MODES": [(lambda: sim.ri_trace, "peri_mode", ["ri_trace", "peri_mode"])],
               "SABA_TYPES": [(lambda: sim.ri_saba, "type", ["ri_saba", "type"])],
               "EOS_TYPES": [(lambda: sim.ri_eos, "phi0", ["ri_eos", "phi0"]), (lambda: sim.ri_eos, "phi1", ["ri_eos", "phi1"])]}
    simsize = job["csize"]["reb_simulation"][0]
    SENT = 0x5A5A5A5A

    def others_changed(before, after, off):
        """byte offsets outside [off, off+4) of struct reb_simulation that differ"""
        return [i for i in range(simsize) if before[i] != after[i] and not (off <= i < off + 4)]

    for dname, key, const, pyval in job["option_pairs"]:
        if dname not in targets:
            out["mismatch"].append({"what": "option-dict-without-target", "struct": dname, "member": key, "detail": ""}); continue
        for objf, prop, path in targets[dname]:
            off = path_off("reb_simulation", path)
            if off is None or const not in job["enum"]:
                out["mismatch"].append({"what": "option-no-c-side", "struct": dname, "member": key, "detail": "%s / %s" % (path, const)}); continue
            cval = job["enum"][const]
            # set by NAME and by INTEGER value; each time: park a sentinel in the raw C member, snapshot the whole struct,
            # set through the property, then (a) the raw member holds the C value, (b) the name reads back,
            # (c) no byte of any OTHER member of reb_simulation changed
            for how, val in (("name", key), ("int", cval)):
                out["checked"]["options"] += 1
                try:
                    ctypes.c_uint.from_address(base + off).value = SENT
                    before = ctypes.string_at(base, simsize)
                    setattr(objf(), prop, val)
                    after = ctypes.string_at(base, simsize)
                    rawv = ctypes.c_int.from_address(base + off).value
                    back = getattr(objf(), prop)
                except Exception as e:
                    out["mismatch"].append({"what": "option-set-raised", "struct": dname, "member": key, "detail": "%s=%r: %r" % (prop, val, e)}); continue
                if rawv != cval:
                    out["mismatch"].append({"what": "option-value", "struct": dname, "member": key,
                                            "detail": "%s = %r (by %s) leaves %d in reb_simulation.%s; C %s = %d" % (prop, val, how, rawv, ".".join(path), const, cval)})
                if back != key:
                    out["mismatch"].append({"what": "option-readback", "struct": dname, "member": key,
                                            "detail": "%s = %r (by %s) reads back %r, expected %r" % (prop, val, how, back, key)})
                oc = others_changed(before, after, off)
                if oc:
                    out["mismatch"].append({"what": "option-clobbers-other-member", "struct": dname, "member": key,
                                            "detail": "%s = %r (by %s) changed bytes %s of struct reb_simulation outside %s at [%d,+4)" % (prop, val, how, oc[:8], ".".join(path), off)})
                    for i in oc:     # restore so one defect is not reported for every later item
                        ctypes.c_ubyte.from_address(base + i).value = before[i]
    sim.integrator = "ias15"; sim.gravity = "basic"; sim.collision = "none"; sim.boundary = "none"

    # named built-in callbacks (setter branches  if value == "name": ... clibrebound.symbol, regenerated from the sources):
    # setting the name stores the address of that exported function in the C member
    holder = {"Simulation": (lambda: sim, []), "IntegratorMercurius": (lambda: sim.ri_mercurius, ["ri_mercurius"]),
              "IntegratorTRACE": (lambda: sim.ri_trace, ["ri_trace"])}
    for cls_, prop, nm, syms in job["named_callbacks"]:
        out["checked"]["callbacks"] += 1
        pre_ = [r[2] for r in job["named_prefixes"] if r[0] == cls_ and r[1] == prop]
        syms = [pre_[0] + nm] if pre_ else []          # the function the NAME denotes (naming rule), not what the setter code says
        if cls_ not in holder or len(syms) != 1:
            out["mismatch"].append({"what": "callback-unprobed", "struct": prop, "member": nm, "detail": "class %s, symbols %s" % (cls_, syms)}); continue
        objf, pre = holder[cls_]
        cmem = [cm for c2, cs2, pf, cm in job["name_pairs"] if c2 == cls_ and pf == "_" + prop]
        off = path_off("reb_simulation", pre + cmem[:1]) if cmem else None
        try:
            ctypes.c_void_p.from_address(base + off).value = None
            setattr(objf(), prop, nm)
            rawp = ctypes.c_void_p.from_address(base + off).value
            want = ctypes.cast(getattr(clib, syms[0]), ctypes.c_void_p).value
        except Exception as e:
            out["mismatch"].append({"what": "callback-set-raised", "struct": prop, "member": nm, "detail": repr(e)}); continue
        if rawp != want:
            out["mismatch"].append({"what": "callback-pointer", "struct": prop, "member": nm,
                                    "detail": "%s = %r stores %r in reb_simulation.%s; &%s = %r" % (prop, nm, rawp, ".".join(pre + cmem[:1]), syms[0], want)})

    # documented option strings (docs/*.md): each is accepted by the real setter; where the docs pair it with a C constant /
    # C function, the raw C member then holds gcc's value of that constant / the address of that function
    out["checked"]["documented"] = 0
    drules = {r[0]: r for r in job["doc_rules"]}
    paired = {}
    for fn_, path, citem, s_ in job["doc_pairs"]:
        paired.setdefault((path, s_), []).append(citem)
    for fn_, path, s_ in job["doc_py"]:
        out["checked"]["documented"] += 1
        if path not in drules:
            out["mismatch"].append({"what": "doc-unknown-path", "struct": path, "member": s_, "detail": "docs/%s" % fn_}); continue
        parts = path.split(".")
        cpath = parts[:-1] + [cm for c2, cs2, pf, cm in job["name_pairs"] if c2 == drules[path][1] and pf == "_" + parts[-1]][:1]
        off = path_off("reb_simulation", cpath)
        try:
            o = sim
            for a in parts[:-1]: o = getattr(o, a)
            ctypes.c_ulonglong.from_address(base + off).value = 0x5A5A5A5A if drules[path][3] else 0
            setattr(o, parts[-1], s_)
        except Exception as e:
            out["mismatch"].append({"what": "doc-option-rejected", "struct": path, "member": s_,
                                    "detail": "docs/%s documents sim.%s = %r; the setter raised %r" % (fn_, path, s_, e)}); continue
        for citem in paired.get((path, s_), []):
            if drules[path][3]:
                rawv = ctypes.c_int.from_address(base + off).value
                if citem in job["enum"] and rawv != job["enum"][citem]:
                    out["mismatch"].append({"what": "doc-option-value", "struct": path, "member": s_,
                                            "detail": "docs/%s pairs sim.%s = %r with %s (= %d); the C member holds %d" % (fn_, path, s_, citem, job["enum"][citem], rawv)})
            else:
                rawp = ctypes.c_void_p.from_address(base + off).value
                try:
                    want = ctypes.cast(getattr(clib, citem), ctypes.c_void_p).value
                except AttributeError:
                    want = None
                if rawp != want:
                    out["mismatch"].append({"what": "doc-callback-pointer", "struct": path, "member": s_,
                                            "detail": "docs/%s pairs sim.%s = %r with %s (%r); the C member holds %r" % (fn_, path, s_, citem, want, rawp)})
    sim.integrator = "ias15"; sim.gravity = "basic"; sim.collision = "none"; sim.boundary = "none"

    # offsets the LIBRARY itself was compiled with (reb_binary_field_descriptor_list) vs gcc on the current header
    try:
        from rebound.binary_field_descriptor import binary_field_descriptor_list
        for fd in binary_field_descriptor_list():
            nm = fd.name.decode("ascii")
            path = nm.split(".")
            off = path_off("reb_simulation", path)
            if off is None:
                continue            # descriptor names that are not member paths (e.g. "particles.var"?) are skipped
            out["checked"]["descriptors"] += 1
            if off != fd.offset:
                out["mismatch"].append({"what": "library-offset", "struct": "reb_simulation", "member": nm,
                                        "detail": "loaded library has %s at %d, current header puts it at %d" % (nm, fd.offset, off)})
    except Exception as e:
        out["mismatch"].append({"what": "descriptor-list-raised", "struct": "BinaryFieldDescriptor", "member": "", "detail": repr(e)})

    # ---- 5. accessors that search / index a C array: write through python on element i, verify in raw memory (addresses and
    #         offsets from the C side: r->var_config, r->particles, sizeof/offsetof by gcc) that exactly the intended bytes of
    #         exactly element i changed, and read back
    out["checked"]["indexed"] = 0
    vc = "reb_variational_configuration"
    try:
        vstride = job["csize"][vc][0]; pstride = job["csize"]["reb_particle"][0]
        voff = {m: co[vc][m][0] for m in ("order", "index", "testparticle", "index_1st_order_a", "index_1st_order_b", "lrescale")}
        off_vcp = co["reb_simulation"]["var_config"][0]; off_nvc = co["reb_simulation"]["N_var_config"][0]
        off_pp = co["reb_simulation"]["particles"][0]; off_N = co["reb_simulation"]["N"][0]
        poff = {m: co["reb_particle"][m][0] for m in ("x", "m", "hash")}
    except KeyError as e:
        out["mismatch"].append({"what": "indexed-no-c-side", "struct": "Variation", "member": "", "detail": repr(e)})
        vstride = None

    def bad(struct_, member, detail):
        out["mismatch"].append({"what": "indexed-accessor", "struct": struct_, "member": member, "detail": detail})

    def diff_ranges(a, b):
        return [i for i in range(min(len(a), len(b))) if a[i] != b[i]] + ([-1] if len(a) != len(b) else [])

    def mk():
        s_ = rebound.Simulation()
        s_.add(m=1.); s_.add(m=1e-3, a=1., e=0.05); s_.add(m=2e-3, a=2.3, e=0.1, f=1.)
        s_.move_to_com()
        return s_

    def scenario(name):
        s_ = mk(); objs = []
        if name == "k1":
            objs.append(s_.add_variation())
        elif name == "k2-megno":
            s_.init_megno(seed=3); objs.append(None); objs.append(s_.add_variation())
        elif name == "k3-second":
            a = s_.add_variation(); b = s_.add_variation()
            objs += [a, b, s_.add_variation(order=2, first_order=a, first_order_2=b)]
        elif name == "k3-testparticles":
            objs += [s_.add_variation(testparticle=0), s_.add_variation(testparticle=1), s_.add_variation(testparticle=2)]
        elif name == "k4-mixed":
            a = s_.add_variation(); t = s_.add_variation(testparticle=2); b = s_.add_variation()
            objs += [a, t, b, s_.add_variation(order=2, first_order=a, first_order_2=b)]
        return s_, objs

    if vstride is not None:
        for sc in ("k1", "k2-megno", "k3-second", "k3-testparticles", "k4-mixed"):
            try:
                s_, objs = scenario(sc)
            except Exception as e:
                bad("Variation", "add_variation", "scenario %s raised %r" % (sc, e)); continue
            b_ = ctypes.addressof(s_)
            k = ctypes.c_uint.from_address(b_ + off_nvc).value
            if k != len(objs):
                bad("Variation", "N_var_config", "scenario %s: C N_var_config=%d, python created %d sets" % (sc, k, len(objs))); continue
            vbase = lambda: ctypes.c_void_p.from_address(b_ + off_vcp).value
            pbase = lambda: ctypes.c_void_p.from_address(b_ + off_pp).value
            npart = lambda: ctypes.c_uint.from_address(b_ + off_N).value
            varr = lambda: ctypes.string_at(vbase(), k * vstride)
            parr = lambda: ctypes.string_at(pbase(), npart() * pstride)
            cint = lambda i, m: ctypes.c_int.from_address(vbase() + i * vstride + voff[m]).value
            cdbl = lambda i: ctypes.c_double.from_address(vbase() + i * vstride + voff["lrescale"]).value
            serial = [0]
            for i in range(k):
                handles = [("sim.var_config[%d]" % i, s_.var_config[i])]
                if objs[i] is not None:
                    handles.append(("add_variation()#%d" % i, objs[i]))
                for hname, h in handles:
                    # plain fields of the handle describe C element i
                    for m in ("order", "index", "testparticle", "index_1st_order_a", "index_1st_order_b"):
                        out["checked"]["indexed"] += 1
                        if getattr(h, m) != cint(i, m):
                            bad("Variation", m, "%s %s.%s reads %r, C var_config[%d].%s = %r" % (sc, hname, m, getattr(h, m), i, m, cint(i, m)))
                    # property lrescale: write a distinct value, exactly the 8 bytes of element i's lrescale may change
                    out["checked"]["indexed"] += 1
                    serial[0] += 1
                    val = -(1.0 + serial[0] / 16.0)
                    v0, p0 = varr(), parr()
                    try:
                        h.lrescale = val
                        back = h.lrescale
                    except Exception as e:
                        bad("Variation", "lrescale", "%s %s.lrescale = %r raised %r" % (sc, hname, val, e)); continue
                    v1, p1 = varr(), parr()
                    lo = i * vstride + voff["lrescale"]
                    changed = diff_ranges(v0, v1)
                    if cdbl(i) != val:
                        bad("Variation", "lrescale", "%s: wrote %r through %s.lrescale; C var_config[%d].lrescale (of %d sets) holds %r" % (sc, val, hname, i, k, cdbl(i)))
                    if [c for c in changed if not (lo <= c < lo + 8)] or diff_ranges(p0, p1):
                        bad("Variation", "lrescale", "%s: %s.lrescale = %r changed bytes %s of the var_config array outside element %d's lrescale (particles changed: %s)" % (sc, hname, val, [c for c in changed if not (lo <= c < lo + 8)][:6], i, bool(diff_ranges(p0, p1))))
                    if back != val:
                        bad("Variation", "lrescale", "%s: %s.lrescale = %r reads back %r" % (sc, hname, val, back))
                    # property particles: element j of the view is C particle index_i + j
                    try:
                        ps = h.particles
                        want_n = 1 if cint(i, "testparticle") >= 0 else npart() - ctypes.c_int.from_address(b_ + co["reb_simulation"]["N_var"][0]).value
                        if len(ps) != want_n:
                            bad("Variation", "particles", "%s: len(%s.particles)=%d, expected %d" % (sc, hname, len(ps), want_n))
                        for j in range(len(ps)):
                            out["checked"]["indexed"] += 1
                            serial[0] += 1
                            val = 100.0 + serial[0] / 8.0
                            p0 = parr(); v0 = varr()
                            ps[j].x = val
                            p1 = parr(); v1 = varr()
                            lo = (cint(i, "index") + j) * pstride + poff["x"]
                            ch = diff_ranges(p0, p1)
                            got = ctypes.c_double.from_address(pbase() + lo).value
                            if got != val or [c for c in ch if not (lo <= c < lo + 8)] or diff_ranges(v0, v1):
                                bad("Variation", "particles", "%s: %s.particles[%d].x = %r; C particles[%d].x holds %r; other bytes changed: %s" % (sc, hname, j, val, cint(i, "index") + j, got, [c for c in ch if not (lo <= c < lo + 8)][:6]))
                    except Exception as e:
                        bad("Variation", "particles", "%s %s.particles raised %r" % (sc, hname, e))
            # every handle still reads its own last value (no write landed on a neighbour)
            for i in range(k):
                if objs[i] is not None and objs[i].lrescale != cdbl(i):
                    bad("Variation", "lrescale", "%s: add_variation()#%d.lrescale reads %r but C var_config[%d].lrescale = %r" % (sc, i, objs[i].lrescale, i, cdbl(i)))

        # sim.particles[key] (index, negative index, string hash, c_uint32 hash) and Particle.hash
        try:
            s_ = rebound.Simulation()
            names = ["sun", "b", "c", "d", "e"]
            for n_, nm in enumerate(names):
                s_.add(m=1.0 / (n_ + 1), x=float(n_), hash=nm)
            b_ = ctypes.addressof(s_)
            pbase = ctypes.c_void_p.from_address(b_ + off_pp).value
            N = len(names)
            parr = lambda: ctypes.string_at(pbase, N * pstride)
            clib.reb_hash.restype = ctypes.c_uint32
            serial = 0
            for i, nm in enumerate(names):
                h32 = clib.reb_hash(nm.encode("ascii"))
                rawh = ctypes.c_uint32.from_address(pbase + i * pstride + poff["hash"]).value
                out["checked"]["indexed"] += 1
                if rawh != h32:
                    bad("Particle", "hash", "add(hash=%r) on particle %d: C particles[%d].hash = %d, reb_hash = %d" % (nm, i, i, rawh, h32))
                for kname, key in (("[%d]" % i, i), ("[%d]" % (i - N), i - N), ("[%r]" % nm, nm), ("[c_uint32(%d)]" % h32, ctypes.c_uint32(h32))):
                    out["checked"]["indexed"] += 1
                    serial += 1
                    val = 7.0 + serial / 32.0
                    p0 = parr()
                    s_.particles[key].m = val
                    p1 = parr()
                    lo = i * pstride + poff["m"]
                    got = ctypes.c_double.from_address(pbase + lo).value
                    ch = [c for c in diff_ranges(p0, p1) if not (lo <= c < lo + 8)]
                    if got != val or ch or s_.particles[key].m != val:
                        bad("Particles", "__getitem__", "sim.particles%s.m = %r: C particles[%d].m holds %r; other bytes changed: %s" % (kname, val, i, got, ch[:6]))
                # Particle.hash setter: string, int, c_uint32
                for hv, want in ((nm + "_x", clib.reb_hash((nm + "_x").encode("ascii"))), (1000 + i, 1000 + i), (ctypes.c_uint32(2000 + i), 2000 + i)):
                    out["checked"]["indexed"] += 1
                    p0 = parr()
                    s_.particles[i].hash = hv
                    p1 = parr()
                    lo = i * pstride + poff["hash"]
                    got = ctypes.c_uint32.from_address(pbase + lo).value
                    ch = [c for c in diff_ranges(p0, p1) if not (lo <= c < lo + 4)]
                    back = s_.particles[i].hash.value
                    if got != want or ch or back != want:
                        bad("Particle", "hash", "sim.particles[%d].hash = %r: C particles[%d].hash holds %d (expected %d), reads back %d; other bytes changed: %s" % (i, getattr(hv, "value", hv), i, got, want, back, ch[:6]))
                    found = ctypes.addressof(s_.particles[ctypes.c_uint32(want)])
                    if found != pbase + i * pstride:
                        bad("Particles", "__getitem__", "lookup by hash %d returns address %#x, C particles[%d] is at %#x" % (want, found, i, pbase + i * pstride))
        except Exception as e:
            bad("Particles", "__getitem__", "particle container probe raised %r" % (e,))


    # ---- 6. sim.particles container: __len__/__getitem__ (int, negative, slices)/__iter__/__setitem__/Particle.index with
    #         variational particles present, against the raw C array
    try:
        if vstride is None:
            raise KeyError("no C layout")
        s_ = mk()
        s_.add(m=3e-3, a=4.1, e=0.02, hash="outer")
        s_.add_variation(); s_.add_variation(testparticle=3)
        b_ = ctypes.addressof(s_)
        N = ctypes.c_uint.from_address(b_ + off_N).value
        Nvar = ctypes.c_int.from_address(b_ + co["reb_simulation"]["N_var"][0]).value
        pbase = ctypes.c_void_p.from_address(b_ + off_pp).value
        parr = lambda: ctypes.string_at(pbase, N * pstride)
        addr = lambda i: pbase + i * pstride
        out["checked"]["indexed"] += 1
        if len(s_.particles) != N or s_.N != N or s_.N_var != Nvar or s_.N_real != N - Nvar or N != 9 or Nvar != 5:
            bad("Particles", "__len__", "len(sim.particles)=%d sim.N=%d N_var=%d N_real=%d; C N=%d N_var=%d (expected 9, 5)" % (len(s_.particles), s_.N, s_.N_var, s_.N_real, N, Nvar))
        for i in range(-N, N):
            out["checked"]["indexed"] += 1
            try:
                a_ = ctypes.addressof(s_.particles[i])
            except Exception as e:
                bad("Particles", "__getitem__", "sim.particles[%d] with N=%d (N_var=%d) raised %r" % (i, N, Nvar, e)); continue
            if a_ != addr(i % N):
                bad("Particles", "__getitem__", "sim.particles[%d] is at %#x, C particles[%d] at %#x" % (i, a_, i % N, addr(i % N)))
            if i >= 0 and s_.particles[i].index != i:
                bad("Particle", "index", "sim.particles[%d].index = %d" % (i, s_.particles[i].index))
        for i in (N, N + 3, -N - 1):
            out["checked"]["indexed"] += 1
            try:
                s_.particles[i]
                bad("Particles", "__getitem__", "sim.particles[%d] with N=%d did not raise" % (i, N))
            except (AttributeError, IndexError):
                pass
        for sl in (slice(None), slice(1, 3), slice(N - Nvar, None), slice(None, None, -1), slice(-3, None), slice(0, N, 2), slice(2, 100), slice(-100, 2)):
            out["checked"]["indexed"] += 1
            got = [ctypes.addressof(q) for q in s_.particles[sl]]
            want = [addr(i) for i in range(N)[sl]]
            if got != want:
                bad("Particles", "__getitem__", "sim.particles[%r] yields elements %s, expected %s" % (sl, [(g - pbase) // pstride for g in got], list(range(N)[sl])))
        out["checked"]["indexed"] += 1
        if [ctypes.addressof(q) for q in s_.particles] != [addr(i) for i in range(N)]:
            bad("Particles", "__iter__", "iteration does not visit C particles[0..%d) in order" % N)
        serial = 0
        for key, i in ((0, 0), (2, 2), (-1, N - 1), (-N, 0), (N - Nvar, N - Nvar), ("outer", 3), (ctypes.c_uint32(clib.reb_hash(b"outer")), 3)):
            out["checked"]["indexed"] += 1
            serial += 1
            q = rebound.Particle(m=0.5 + serial / 64., x=10. + serial, y=-2., vz=0.25 * serial)
            if i == 3:
                q.hash = "outer"          # keep the hash so that the later lookups still find it
            p0 = parr()
            s_.particles[key] = q
            p1 = parr()
            ch = [c for c in diff_ranges(p0, p1) if not (i * pstride <= c < (i + 1) * pstride)]
            el = p1[i * pstride:(i + 1) * pstride]
            src = ctypes.string_at(ctypes.addressof(q), pstride)
            simp = ctypes.c_void_p.from_address(addr(i) + co["reb_particle"]["sim"][0]).value
            if ch or el != src or simp != b_:
                bad("Particles", "__setitem__", "sim.particles[%r] = Particle(x=%r): element %d equals the value: %s; bytes of other elements changed: %s; C particles[%d].sim == &sim: %s" % (getattr(key, "value", key), q.x, i, el == src, ch[:6], i, simp == b_))
    except Exception as e:
        bad("Particles", "__getitem__", "container probe raised %r" % (e,))

    # ---- 7. Simulationarchive: len / sa[i] / sa[-1] / slices / iteration / t, tmin, tmax / getSimulation index math against
    #         the C index arrays (struct reb_simulationarchive members read at the gcc offsets)
    out["checked"]["archive"] = 0
    try:
        import os, math, warnings
        sa_co = co["reb_simulationarchive"]
        fn = os.path.join(job["tmpdir"], "c18_probe_%d.bin" % os.getpid())
        if os.path.exists(fn): os.remove(fn)
        s_ = mk(); s_.integrator = "whfast"; s_.dt = 0.013
        saved = []
        for tt in (0.0, 0.4, 0.9, 2.5, 2.6, 7.0, 7.3):
            s_.integrate(tt, exact_finish_time=0)
            s_.save_to_file(fn)
            saved.append((s_.t, s_.particles[1].x, s_.particles[2].vy))
        n = len(saved)
        fsize = os.path.getsize(fn)

        def bada(member, detail):
            out["mismatch"].append({"what": "archive-accessor", "struct": "Simulationarchive", "member": member, "detail": detail})
        with warnings.catch_warnings():
            warnings.simplefilter("ignore")
            sa = rebound.Simulationarchive(fn)
            ab = ctypes.addressof(sa)
            nb = ctypes.c_int64.from_address(ab + sa_co["nblobs"][0]).value
            tp = ctypes.c_void_p.from_address(ab + sa_co["t"][0]).value
            op = ctypes.c_void_p.from_address(ab + sa_co["offset"][0]).value
            ct = [ctypes.c_double.from_address(tp + 8 * i).value for i in range(nb)]
            coffs = [ctypes.c_uint64.from_address(op + 8 * i).value for i in range(nb)]
            out["checked"]["archive"] += 1
            if not (nb == n == len(sa) == sa.nblobs):
                bada("nblobs", "saved %d snapshots; C nblobs=%d len(sa)=%d sa.nblobs=%d" % (n, nb, len(sa), sa.nblobs))
            if ct != [x[0] for x in saved]:
                bada("t", "C index t[] = %r, snapshots were saved at %r" % (ct, [x[0] for x in saved]))
            if any(not (0 <= coffs[i] < fsize) for i in range(nb)) or any(coffs[i] >= coffs[i + 1] for i in range(nb - 1)):
                bada("offset", "C offset[] = %r not increasing inside the %d-byte file" % (coffs, fsize))
            for i in range(nb):
                out["checked"]["archive"] += 1
                if sa.t[i] != ct[i] or sa.offset[i] != coffs[i]:
                    bada("t", "sa.t[%d]=%r sa.offset[%d]=%r; C holds %r, %r" % (i, sa.t[i], i, sa.offset[i], ct[i], coffs[i]))
            out["checked"]["archive"] += 1
            if sa.tmin != ct[0] or sa.tmax != ct[nb - 1]:
                bada("tmax", "sa.tmin=%r sa.tmax=%r; C t[0]=%r t[nblobs-1]=%r" % (sa.tmin, sa.tmax, ct[0], ct[nb - 1]))
            for m_, ty in (("version", ctypes.c_int), ("auto_interval", ctypes.c_double), ("auto_walltime", ctypes.c_double), ("auto_step", ctypes.c_uint64)):
                out["checked"]["archive"] += 1
                if getattr(sa, m_) != ty.from_address(ab + sa_co[m_][0]).value:
                    bada(m_, "sa.%s=%r, C holds %r" % (m_, getattr(sa, m_), ty.from_address(ab + sa_co[m_][0]).value))

            def same(sim_, i, how):
                g = (sim_.t, sim_.particles[1].x, sim_.particles[2].vy)
                if g != saved[i]:
                    bada("__getitem__", "%s returned the snapshot with (t, x1, vy2)=%r, snapshot %d is %r" % (how, g, i, saved[i]))
            for i in range(-nb, nb):
                out["checked"]["archive"] += 1
                try:
                    same(sa[i], i % nb, "sa[%d]" % i)
                except Exception as e:
                    bada("__getitem__", "sa[%d] with %d snapshots raised %r" % (i, nb, e))
            for i in (nb, nb + 2, -nb - 1):
                out["checked"]["archive"] += 1
                try:
                    sa[i]; bada("__getitem__", "sa[%d] with %d snapshots did not raise" % (i, nb))
                except IndexError:
                    pass
            for sl in (slice(None), slice(1, 3), slice(None, None, -1)):
                out["checked"]["archive"] += 1
                try:
                    r_ = sa[sl]
                    if [x.t for x in r_] != ct[sl]:
                        bada("__getitem__", "sa[%r] returned times %r, expected %r" % (sl, [x.t for x in r_], ct[sl]))
                except AttributeError:
                    pass           # documented: slicing is not supported
            out["checked"]["archive"] += 1
            it = [x.t for x in sa]
            if it != ct:
                bada("__iter__", "iteration yields times %r, C index has %r" % (it, ct))
            # index math of getSimulation: the snapshot used is the last one with t[j] <= t
            probes = list(ct) + [(ct[i] + ct[i + 1]) / 2 for i in range(nb - 1)] + [math.nextafter(x, -math.inf) for x in ct[1:]] + [math.nextafter(x, math.inf) for x in ct[:-1]]
            for tq in probes:
                out["checked"]["archive"] += 1
                j = max(i for i in range(nb) if ct[i] <= tq)
                try:
                    bi, bt = sa._getSnapshotIndex(tq)
                    if bi != j or bt != ct[j]:
                        bada("getSimulation", "_getSnapshotIndex(%r) = (%d, %r); last snapshot with t<=%r is %d (t=%r)" % (tq, bi, bt, tq, j, ct[j]))
                    same(sa.getSimulation(tq), j, "getSimulation(%r)" % tq)
                    se = sa.getSimulation(tq, mode="exact")
                    # (landing on t to the last bit is C08's contract; here only the index math matters: allow a few ulps)
                    if abs(se.t - tq) > 4 * math.ulp(max(abs(tq), 1e-300)):
                        bada("getSimulation", "getSimulation(%r, mode='exact').t = %r" % (tq, se.t))
                    sc_ = sa.getSimulation(tq, mode="close")
                    if not (tq <= sc_.t < tq + 2 * 0.013 + 1e-12) and sc_.t != ct[j]:
                        bada("getSimulation", "getSimulation(%r, mode='close').t = %r" % (tq, sc_.t))
                except Exception as e:
                    bada("getSimulation", "getSimulation(%r) raised %r" % (tq, e))
            for tq in (math.nextafter(ct[0], -math.inf), math.nextafter(ct[-1], math.inf), ct[-1] + 5):
                out["checked"]["archive"] += 1
                try:
                    sa.getSimulation(tq); bada("getSimulation", "getSimulation(%r) outside [%r, %r] did not raise" % (tq, ct[0], ct[-1]))
                except ValueError:
                    pass
            for op_ in ("set", "del"):
                out["checked"]["archive"] += 1
                try:
                    if op_ == "set": sa[0] = mk()
                    else: del sa[0]
                    bada("__setitem__", "archive accepted %s" % op_)
                except AttributeError:
                    pass
            # second archive sharing the index of the first
            sa2 = rebound.Simulationarchive(fn, reuse_index=sa)
            ab2 = ctypes.addressof(sa2)
            nb2 = ctypes.c_int64.from_address(ab2 + sa_co["nblobs"][0]).value
            tp2 = ctypes.c_void_p.from_address(ab2 + sa_co["t"][0]).value
            out["checked"]["archive"] += 1
            if nb2 != nb or [ctypes.c_double.from_address(tp2 + 8 * i).value for i in range(nb2)] != ct or sa2.tmax != ct[-1] or sa2[-1].t != ct[-1]:
                bada("reuse_index", "archive opened with reuse_index disagrees with the index of the first")
            del sa2, sa
        os.remove(fn)
    except Exception as e:
        import traceback
        out["mismatch"].append({"what": "archive-accessor", "struct": "Simulationarchive", "member": "probe", "detail": "archive probe raised %r %s" % (e, traceback.format_exc()[-300:])})

    # ---- 8. callbacks: every python-settable callback is (a) invoked the way C would invoke it -- through the raw pointer
    #         found at the C member's offset, with the prototype the HEADER declares, structs by value built byte by byte
    #         in the C layout -- and the python callable must receive exactly those arguments; (b) triggered once by the
    #         library itself (step / collision / ODE / remove) with checks on what it receives
    out["checked"]["callback_args"] = 0
    try:
        CT = job["ctypes"]
        PRIM = {"int": ctypes.c_int, "unsigned int": ctypes.c_uint, "long": ctypes.c_long, "unsigned long": ctypes.c_ulong,
                "double": ctypes.c_double, "float": ctypes.c_float, "char": ctypes.c_char, "short": ctypes.c_short,
                "unsigned short": ctypes.c_ushort, "long long": ctypes.c_longlong, "unsigned long long": ctypes.c_ulonglong,
                "unsigned char": ctypes.c_ubyte, "signed char": ctypes.c_byte}
        cls2struct = {}
        field2member = {}
        for cls_, cs_, pf, cm in job["name_pairs"]:
            cls2struct[cls_] = cs_
            field2member.setdefault(cls_, []).append((pf, cm))

        def badc(prop, member, detail):
            out["mismatch"].append({"what": "callback-args", "struct": prop, "member": member, "detail": detail})

        raw_types = {}
        def raw_struct(name):
            sz, al = job["csize"][name]
            if sz <= 16:
                raise ValueError("struct %s is %d bytes: by-value classification not modelled" % (name, sz))
            if name not in raw_types:
                el = {1: ctypes.c_ubyte, 2: ctypes.c_ushort, 4: ctypes.c_uint, 8: ctypes.c_ulonglong}[al]
                raw_types[name] = type("Raw_" + name, (ctypes.Structure,), {"_fields_": [("b", el * (sz // al))]})
            return raw_types[name]

        def leaves(name, base=0, path=()):
            """(path, offset, ctype) of every scalar leaf of C struct `name`"""
            res = []
            for m_, t in CT[name].items():
                o = co[name][m_][0] + base
                if t[0] == "struct":
                    res += leaves(t[1], o, path + (m_,))
                elif t[0] in ("prim", "enum", "ptr"):
                    res.append((path + (m_,), o, t))
                elif t[0] == "arr" and t[2][0] == "prim":
                    for k_ in range(t[1]):
                        res.append((path + (m_, k_), o + k_ * ctypes.sizeof(PRIM[t[2][1]]), t[2]))
            return res

        def sentinel(t, idx):
            if t[0] == "prim":
                n_ = t[1]
                if n_ in ("double", "float"): return 1.5 + idx * 0.25
                if n_.startswith("unsigned"): return (1 << (8 * ctypes.sizeof(PRIM[n_]) - 1)) + 1 + idx
                return -7 - idx
            if t[0] == "enum": return 3 + idx
            raise ValueError(t)

        def py_leaf(obj, cls_, path):
            """read the leaf `path` (C member names) from python object obj of class cls_"""
            cur = obj; ccls = cls_
            for el in path:
                if isinstance(el, int):
                    cur = cur[el]; continue
                pf = [a for a, b in field2member.get(ccls, []) if b == el]
                if not pf:
                    raise KeyError("class %s has no field for C member %s" % (ccls, el))
                cur = getattr(cur, pf[0])
                ccls = type(cur).__name__
            return cur

        s_ = mk()
        ode = s_.create_ode(length=3, needs_nbody=False)
        inst = {"Simulation": s_, "IntegratorMercurius": s_.ri_mercurius, "IntegratorTRACE": s_.ri_trace, "ODE": ode}
        keep = []
        for cls_, prop, field in job["callback_props"]:
            out["checked"]["callback_args"] += 1
            if cls_ not in inst:
                badc(prop, field, "no live instance of class %s to probe" % cls_); continue
            obj = inst[cls_]
            cs_ = cls2struct[cls_]
            cm = [b for a, b in field2member[cls_] if a == field][0]
            ct = CT[cs_][cm]
            if ct[0] != "ptr" or ct[1][0] != "fun":
                badc(prop, field, "C member %s.%s is not a function pointer" % (cs_, cm)); continue
            _, ret, params, variadic = ct[1]
            got = []
            retv = None if ret[0] == "void" else (0.625 if ret[1] in ("double", "float") else 5)
            def cb(*a, _g=got, _r=retv):
                _g.append(a)
                return _r
            try:
                setattr(obj, prop, cb)
            except Exception as e:
                badc(prop, field, "setting %s.%s to a python function raised %r" % (cls_, prop, e)); continue
            rawp = ctypes.c_void_p.from_address(ctypes.addressof(obj) + co[cs_][cm][0]).value
            if not rawp:
                badc(prop, field, "%s.%s = f left NULL in C member %s.%s" % (cls_, prop, cs_, cm)); continue
            # C-side prototype and arguments
            cargs = []; expect = []; ok_proto = True
            for idx, pt in enumerate(params):
                if pt[0] == "prim":
                    v = sentinel(pt, idx); cargs.append(PRIM[pt[1]]); expect.append(("val", v, pt))
                elif pt[0] == "ptr" and pt[1][0] == "struct":
                    sn = pt[1][1]
                    if sn == "reb_simulation":
                        addr_ = ctypes.addressof(s_)
                    else:
                        bufp = (ctypes.c_ubyte * (job["csize"][sn][0] + 16))(); keep.append(bufp); addr_ = ctypes.addressof(bufp)
                    cargs.append(ctypes.c_void_p); expect.append(("sptr", addr_, sn))
                elif pt[0] == "ptr" and pt[1][0] == "prim" and pt[1][1] == "double":
                    arr = (ctypes.c_double * 4)(2.5 + idx, 3.5, 4.5, 5.5); keep.append(arr)
                    cargs.append(ctypes.c_void_p); expect.append(("dptr", ctypes.addressof(arr), 2.5 + idx))
                elif pt[0] == "struct":
                    RT = raw_struct(pt[1]); rv = RT(); lv = leaves(pt[1]); vals_ = {}
                    for li, (path, o, t) in enumerate(lv):
                        v = sentinel(t, li)
                        cty = PRIM[t[1]] if t[0] == "prim" else ctypes.c_int
                        cty.from_address(ctypes.addressof(rv) + o).value = v
                        vals_[path] = v
                    cargs.append(RT); expect.append(("struct", rv, (pt[1], vals_)))
                else:
                    ok_proto = False
            if not ok_proto or variadic:
                badc(prop, field, "C prototype of %s.%s has a parameter kind the probe cannot build" % (cs_, cm)); continue
            rty = None if ret[0] == "void" else PRIM[ret[1]]
            fn = ctypes.CFUNCTYPE(rty, *cargs)(rawp)
            try:
                rv_ = fn(*[e[1] for e in expect])
                if rv_ != retv:
                    badc(prop, field, "python callable returns %r; C (return type %s) receives %r" % (retv, ret[1] if ret[0] != "void" else "void", rv_))
            except Exception as e:
                badc(prop, field, "calling the stored pointer with the C prototype raised %r" % (e,)); continue
            if len(got) != 1 or len(got[0]) != len(expect):
                badc(prop, field, "python callable received %s, C passes %d argument(s)" % (got and len(got[0]), len(expect))); continue
            for idx, (e, a) in enumerate(zip(expect, got[0])):
                try:
                    if e[0] == "val":
                        if a != e[1]:
                            badc(prop, field, "argument %d: C passes %r (%s), python receives %r" % (idx, e[1], e[2][1], a))
                    elif e[0] == "sptr":
                        k_ = type(a.contents).__name__
                        if ctypes.addressof(a.contents) != e[1] or cls2struct.get(k_) != e[2]:
                            badc(prop, field, "argument %d: C passes struct %s* %#x, python receives POINTER(%s) to %#x" % (idx, e[2], e[1], k_, ctypes.addressof(a.contents)))
                    elif e[0] == "dptr":
                        if ctypes.addressof(a.contents) != e[1] or a[0] != e[2]:
                            badc(prop, field, "argument %d: C passes double* %#x -> %r, python sees %#x -> %r" % (idx, e[1], e[2], ctypes.addressof(a.contents), a[0]))
                    elif e[0] == "struct":
                        sn, vals_ = e[2]
                        k_ = type(a).__name__
                        if cls2struct.get(k_) != sn:
                            badc(prop, field, "argument %d: C passes struct %s by value, python receives %s" % (idx, sn, k_)); continue
                        for path, v in vals_.items():
                            out["checked"]["callback_args"] += 1
                            pv = py_leaf(a, k_, path)
                            if pv != v:
                                badc(prop, field, "argument %d (struct %s by value): C member %s = %r, python reads %r" % (idx, sn, ".".join(map(str, path)), v, pv))
                except Exception as ex:
                    badc(prop, field, "argument %d could not be compared: %r" % (idx, ex))
        del inst, ode, s_

        # (b) triggered by the library
        seen = {}
        s_ = mk(); s_.integrator = "whfast"; s_.dt = 0.01
        sa_ = ctypes.addressof(s_)
        def mkcb(name):
            def f(simp):
                seen.setdefault(name, []).append((ctypes.addressof(simp.contents), simp.contents.t, simp.contents.N))
            return f
        for nm in ("heartbeat", "additional_forces", "pre_timestep_modifications", "post_timestep_modifications"):
            setattr(s_, nm, mkcb(nm))
        s_.integrate(0.025)          # the heartbeat is only called from integrate()
        for nm in ("heartbeat", "additional_forces", "pre_timestep_modifications", "post_timestep_modifications"):
            out["checked"]["callback_args"] += 1
            if nm not in seen:
                badc(nm, "_" + nm, "integrate() over three steps did not trigger the callback")
            elif any(a != sa_ or n_ != 3 for a, t_, n_ in seen[nm]):
                badc(nm, "_" + nm, "triggered with sim at %s N=%s, live simulation is at %#x with N=3" % ([hex(a) for a, _, _ in seen[nm]][:2], [n_ for _, _, n_ in seen[nm]][:2], sa_))
        # collision through a ghost box: periodic boundary, two particles overlapping only across the x edge
        s_ = rebound.Simulation()
        s_.configure_box(10.)
        s_.boundary = "periodic"; s_.N_ghost_x = 1; s_.N_ghost_y = 0; s_.N_ghost_z = 0
        s_.integrator = "leapfrog"; s_.gravity = "none"; s_.collision = "direct"; s_.dt = 1e-3
        s_.add(m=1., r=0.3, x=-4.9, vx=-1.); s_.add(m=1., r=0.3, x=4.9, vx=1.)
        sa_ = ctypes.addressof(s_)
        col = []; cor = []
        def resolve(simp, c):
            col.append((ctypes.addressof(simp.contents), c.p1, c.p2, c.gb.x, c.gb.y, c.gb.z, c.gb.vx, c.gb.vy, c.gb.vz, c.ri))
            return 0
        s_.collision_resolve = resolve
        s_.step()
        out["checked"]["callback_args"] += 1
        if not col:
            badc("collision_resolve", "_collision_resolve", "ghost-box collision did not trigger the python resolver")
        else:
            a, p1, p2, gx, gy, gz, gvx, gvy, gvz, ri = col[0]
            if a != sa_ or {p1, p2} != {0, 1} or abs(gx) != 10.0 or (gy, gz, gvx, gvy, gvz) != (0., 0., 0., 0., 0.):
                # (ri is only assigned by the tree search; the direct search leaves it uninitialised, so it is not compared here:
                #  its marshalling is covered by the by-value call with the C prototype above)
                badc("collision_resolve", "_collision_resolve", "ghost-box collision (boxsize 10, periodic in x): resolver received sim=%#x p1=%d p2=%d gb=(%r,%r,%r,%r,%r,%r) ri=%d; expected sim=%#x, {p1,p2}={0,1}, gb=(+-10,0,0,0,0,0)" % (a, p1, p2, gx, gy, gz, gvx, gvy, gvz, ri, sa_))
        s_ = rebound.Simulation()
        s_.integrator = "leapfrog"; s_.gravity = "none"; s_.collision = "direct"; s_.dt = 1e-3
        s_.add(m=1., r=0.3, x=-0.29, vx=0.75); s_.add(m=1., r=0.3, x=0.29, vx=-0.5)
        sa_ = ctypes.addressof(s_)
        def corf(simp, v):
            cor.append((ctypes.addressof(simp.contents), v)); return 0.5
        s_.collision_resolve = "hardsphere"; s_.coefficient_of_restitution = corf
        s_.step()
        out["checked"]["callback_args"] += 1
        if not cor:
            badc("coefficient_of_restitution", "_coefficient_of_restitution", "hard-sphere collision did not trigger the callback")
        elif cor[0][0] != sa_ or abs(abs(cor[0][1]) - 1.25) > 1e-12:
            badc("coefficient_of_restitution", "_coefficient_of_restitution", "head-on collision with relative speed 1.25: callback received sim=%#x v=%r (live sim %#x)" % (cor[0][0], cor[0][1], sa_))
        # ODE derivatives through the BS integrator
        s_ = mk(); s_.integrator = "BS"
        ode = s_.create_ode(length=2, needs_nbody=False)
        ode.y[0] = 1.25; ode.y[1] = -0.5
        oa = ctypes.addressof(ode); ya = ctypes.cast(ode.y, ctypes.c_void_p).value
        od = []
        def der(odep, yDot, y, t):
            od.append((ctypes.addressof(odep.contents), y[0], y[1], t, odep.contents.length))
            yDot[0] = 0.; yDot[1] = 0.
        ode.derivatives = der
        s_.dt = 1e-3; s_.step()
        out["checked"]["callback_args"] += 1
        if not od:
            badc("derivatives", "_derivatives", "a BS step did not call the ODE right-hand side")
        elif any(a != oa or ln != 2 or y0 != 1.25 or y1 != -0.5 or not (0. <= t_ <= 1.) for a, y0, y1, t_, ln in od):
            badc("derivatives", "_derivatives", "right-hand side called with (ode, y0, y1, t, length)=%r; ode is at %#x with y=(1.25,-0.5), length 2" % (od[0], oa))
        # free_particle_ap on remove
        s_ = mk(); fp = []
        def fpa(pp):
            fp.append((ctypes.addressof(pp.contents), pp.contents.m, pp.contents.ap))
        s_.free_particle_ap = fpa
        s_.particles[2].ap = 0x1234
        want_addr = ctypes.addressof(s_.particles[2]); want_m = s_.particles[2].m
        s_.remove(2)
        out["checked"]["callback_args"] += 1
        if not fp:
            badc("free_particle_ap", "_free_particle_ap", "removing a particle with ap set did not trigger the callback")
        elif fp[0] != (want_addr, want_m, 0x1234):
            badc("free_particle_ap", "_free_particle_ap", "callback received (addr, m, ap)=%r, removed particle was (%#x, %r, 0x1234)" % (fp[0], want_addr, want_m))
        # mercurius L and trace S / S_peri
        for integ, obj_name, props_ in (("mercurius", "ri_mercurius", ("L",)), ("trace", "ri_trace", ("S", "S_peri"))):
            s_ = mk(); s_.integrator = integ; s_.dt = 0.05
            sa_ = ctypes.addressof(s_); rec = {}
            def mk2(nm, dflt):
                def f(simp, *a):
                    rec.setdefault(nm, []).append((ctypes.addressof(simp.contents),) + a); return dflt
                return f
            for pr_ in props_:
                setattr(getattr(s_, obj_name), pr_, mk2(pr_, 1.0 if pr_ == "L" else 0))
            s_.step()
            for pr_ in props_:
                out["checked"]["callback_args"] += 1
                if pr_ not in rec:
                    badc(pr_, "_" + pr_, "a %s step did not call the python %s" % (integ, pr_))
                else:
                    for r_ in rec[pr_][:50]:
                        ok_ = r_[0] == sa_ and ((pr_ == "L" and len(r_) == 3 and r_[1] > 0 and r_[2] > 0) or
                                               (pr_ == "S" and len(r_) == 3 and 0 <= r_[1] < 3 and 0 <= r_[2] < 3 and r_[1] != r_[2]) or
                                               (pr_ == "S_peri" and len(r_) == 2 and 0 <= r_[1] < 3))
                        if not ok_:
                            badc(pr_, "_" + pr_, "%s called with %r; live sim at %#x, 3 particles" % (pr_, r_, sa_)); break
    except Exception as e:
        import traceback
        out["mismatch"].append({"what": "callback-args", "struct": "probe", "member": "", "detail": "callback probe raised %r %s" % (e, traceback.format_exc()[-400:])})

    # ---- 9. DERIVED simulations (copy(), pickle round trip, file load, archive snapshot), with the source alive and after the
    #         source was deleted: every pointer the python layer dereferences (sim back pointers of particles, var_config,
    #         odes) points into the object it was reached from, and a write through a handle of the derived object changes
    #         exactly the derived object's bytes and nothing in the source (raw memory of BOTH objects compared)
    out["checked"]["derived"] = 0
    try:
        import gc, pickle, os, warnings
        if vstride is None:
            raise KeyError("no C layout")
        off_odes = co["reb_simulation"]["odes"][0]; off_nodes = co["reb_simulation"]["N_odes"][0]
        off_psim = co["reb_particle"]["sim"][0]; off_vsim = co[vc]["sim"][0]; off_oder = co["reb_ode"]["r"][0]

        def badd(member, detail):
            out["mismatch"].append({"what": "derived-object", "struct": "Variation" if member in ("_sim", "lrescale", "particles", "vary") else "Simulation",
                                    "member": member, "detail": detail})

        def source(kind="full"):
            if kind == "empty":                       # N = 0, no variation sets: particles and var_config are NULL
                return rebound.Simulation()
            if kind == "one":                         # N = 1, no variation sets
                s_ = rebound.Simulation(); s_.add(m=1., hash="b"); return s_
            if kind == "two+1var":                    # N = 2 real particles, a single variation set
                s_ = rebound.Simulation(); s_.add(m=1.); s_.add(m=1e-3, a=1., hash="b"); s_.add_variation(); return s_
            s_ = mk(); s_.integrator = "whfast"; s_.dt = 0.01
            s_.particles[1].hash = "b"
            a = s_.add_variation(); t_ = s_.add_variation(testparticle=2); b = s_.add_variation()
            s_.add_variation(order=2, first_order=a, first_order_2=b)
            return s_

        class Mem:
            """raw view of one simulation: struct, particle array, var_config array (addresses re-read from the struct)"""
            def __init__(self, sim_):
                self.b = ctypes.addressof(sim_)
            def N(self): return ctypes.c_uint.from_address(self.b + off_N).value
            def k(self): return ctypes.c_uint.from_address(self.b + off_nvc).value
            def pbase(self): return ctypes.c_void_p.from_address(self.b + off_pp).value
            def vbase(self): return ctypes.c_void_p.from_address(self.b + off_vcp).value
            def snap(self):
                return (ctypes.string_at(self.b, simsize),
                        ctypes.string_at(self.pbase(), self.N() * pstride) if self.N() else b"",
                        ctypes.string_at(self.vbase(), self.k() * vstride) if self.k() else b"")
            def vint(self, i, m): return ctypes.c_int.from_address(self.vbase() + i * vstride + voff[m]).value
            def back_pointers(self):
                """(what, index, pointer) for every back pointer stored inside this simulation's memory"""
                r_ = [("particles[%d].sim" % j, ctypes.c_void_p.from_address(self.pbase() + j * pstride + off_psim).value) for j in range(self.N())]
                r_ += [("var_config[%d].sim" % i, ctypes.c_void_p.from_address(self.vbase() + i * vstride + off_vsim).value) for i in range(self.k())]
                no = ctypes.c_int.from_address(self.b + off_nodes).value
                ob = ctypes.c_void_p.from_address(self.b + off_odes).value
                for q in range(no):
                    op_ = ctypes.c_void_p.from_address(ob + 8 * q).value
                    r_.append(("odes[%d]->r" % q, ctypes.c_void_p.from_address(op_ + off_oder).value))
                return r_

        def regions_diff(a, b_):
            names = ("struct reb_simulation", "particles[]", "var_config[]")
            return [(names[q], diff_ranges(a[q], b_[q])[:6]) for q in range(3) if a[q] != b_[q]]

        def check_derived(how, D, S, keep=()):
            MD = Mem(D); MS = Mem(S) if S is not None else None
            tag = "%s, source %s" % (how, "alive" if S is not None else "deleted")
            okp = True
            for what_, ptr in MD.back_pointers():
                out["checked"]["derived"] += 1
                if ptr != MD.b:
                    okp = False
                    badd("_sim", "%s: derived simulation at %#x: C %s = %#x%s" % (tag, MD.b, what_, ptr or 0, " (the SOURCE simulation)" if MS is not None and ptr == MS.b else ""))
            if MS is not None:
                for what_, ptr in MS.back_pointers():
                    if ptr != MS.b:
                        okp = False; badd("_sim", "%s: source simulation at %#x: C %s = %#x" % (tag, MS.b, what_, ptr or 0))
            if MD.N() == 0 and len(D.particles) != 0:
                okp = False; badd("particles", "%s: derived simulation has C N=0 but len(particles)=%d" % (tag, len(D.particles)))
            if MS is not None and ((MD.N() and MD.pbase() == MS.pbase()) or (MD.k() and MD.vbase() == MS.vbase())):
                okp = False; badd("particles", "%s: derived and source simulation share the particles / var_config array" % tag)
            # python-level pointers
            for i in range(MD.k()):
                out["checked"]["derived"] += 1
                pa = ctypes.cast(D.var_config[i]._sim, ctypes.c_void_p).value
                if pa != MD.b:
                    okp = False; badd("_sim", "%s: D.var_config[%d]._sim points to %#x, D is at %#x" % (tag, i, pa or 0, MD.b))
            if not okp:
                return False           # dereferencing foreign / dangling pointers below could crash the probe
            serial = [0]
            # a lookup by hash lazily (re)builds the C lookup table: those members of the struct may legitimately change
            cache = []
            for m_ in ("particle_lookup_table", "hash_ctr", "N_lookup", "N_allocated_lookup"):
                o_, n_ = co["reb_simulation"][m_]; cache += list(range(o_, o_ + n_))
            def write_check(label, fn, region, lo, n, expect=None, allow=()):
                out["checked"]["derived"] += 1
                d0 = MD.snap(); s0 = MS.snap() if MS is not None else None
                try:
                    fn()
                except Exception as e:
                    badd(label, "%s: %s raised %r" % (tag, label, e)); return
                d1 = MD.snap(); s1 = MS.snap() if MS is not None else None
                if s0 is not None and s0 != s1:
                    badd(label, "%s: a write through the DERIVED object's %s changed the SOURCE simulation: %s" % (tag, label, regions_diff(s0, s1)))
                for q in range(3):
                    ch = diff_ranges(d0[q], d1[q])
                    if q == region:
                        if [c for c in ch if not (lo <= c < lo + n)] or (expect is not None and d1[q][lo:lo + n] != expect):
                            badd(label, "%s: %s: derived object's bytes [%d,+%d) hold %r (expected %r); other bytes changed: %s" % (tag, label, lo, n, d1[q][lo:lo + n].hex(), expect and expect.hex(), [c for c in ch if not (lo <= c < lo + n)][:6]))
                    elif [c for c in ch if not (q == 0 and c in allow)]:
                        badd(label, "%s: %s changed region %d of the derived object at %s" % (tag, label, q, ch[:6]))
            for i in range(MD.k()):
                h = D.var_config[i]
                serial[0] += 1; val = -(2.0 + serial[0] / 32.0)
                write_check("lrescale", lambda: setattr(h, "lrescale", val), 2, i * vstride + voff["lrescale"], 8, struct.pack("<d", val))
                if h.lrescale != val:
                    badd("lrescale", "%s: D.var_config[%d].lrescale = %r reads back %r" % (tag, i, val, h.lrescale))
                ps = h.particles
                for j in range(len(ps)):
                    serial[0] += 1; val = 50.0 + serial[0] / 16.0
                    write_check("particles", lambda: setattr(ps[j], "x", val), 1, (MD.vint(i, "index") + j) * pstride + poff["x"], 8, struct.pack("<d", val))
                if MD.vint(i, "order") == 1 and MD.vint(i, "testparticle") < 0:
                    lo = MD.vint(i, "index") * pstride
                    write_check("vary", lambda: h.vary(1, "a"), 1, lo, len(ps) * pstride)
            hb = clib.reb_hash(b"b")
            bidx = [q for q in range(MD.N()) if ctypes.c_uint32.from_address(MD.pbase() + q * pstride + poff["hash"]).value == hb]
            for j in ((0, -1) if MD.N() else ()) + (("b",) if bidx else ()):
                serial[0] += 1; val = 0.25 + serial[0] / 64.0
                jj = {0: 0, -1: MD.N() - 1, "b": bidx[0] if bidx else 0}[j]
                write_check("particles[%r].m" % j, lambda: setattr(D.particles[j], "m", val), 1, jj * pstride + poff["m"], 8, struct.pack("<d", val),
                            allow=cache if j == "b" else ())
            if MS is not None:
                # and the other way round: writes through the source's handles leave the derived object alone
                d0 = MD.snap()
                if MS.k() > 2:
                    S.var_config[1].lrescale = -9.5; S.var_config[2].particles[0].x = 77.0
                elif MS.k() == 1:
                    S.var_config[0].lrescale = -9.5; S.var_config[0].particles[0].x = 77.0
                if MS.N():
                    S.particles[MS.N() - 1].m = 0.123
                out["checked"]["derived"] += 1
                if MD.snap() != d0:
                    badd("lrescale", "%s: writes through the SOURCE's handles changed the derived simulation: %s" % (tag, regions_diff(d0, MD.snap())))
            return True

        fn = os.path.join(job["tmpdir"], "c18_derived_%d.bin" % os.getpid())
        def derive(how, S):
            if how == "copy()": return S.copy(), None
            if how == "pickle": return pickle.loads(pickle.dumps(S)), None
            if os.path.exists(fn): os.remove(fn)
            S.save_to_file(fn)
            if how == "file": return rebound.Simulation(fn), None
            sa_ = rebound.Simulationarchive(fn)
            return sa_[0], sa_
        with warnings.catch_warnings():
            warnings.simplefilter("ignore")
            for how in ("copy()", "pickle", "file", "archive[0]"):
                S = source(); D, keep_ = derive(how, S)
                ok_alive = check_derived(how, D, S)
                del D, keep_
                if ok_alive:
                    S = source(); D, keep_ = derive(how, S)
                    del S; gc.collect()
                    junk = [mk() for _ in range(3)]          # let the allocator reuse the freed blocks
                    check_derived(how, D, None)
                    del junk, D, keep_
            # the smallest sources: N = 0 (NULL arrays), N = 1, N = 2 with a single variation set
            for kind in ("empty", "one", "two+1var"):
                for how in ("copy()", "pickle", "file", "archive[0]"):
                    S = source(kind); D, keep_ = derive(how, S)
                    if check_derived("%s of a %s simulation" % (how, kind), D, S):
                        del S; gc.collect()
                        check_derived("%s of a %s simulation" % (how, kind), D, None)
                    del D, keep_
            # derived from a derived one (copy of a copy)
            S = source(); D1 = S.copy(); D2 = D1.copy()
            check_derived("copy() of copy()", D2, D1)
        if os.path.exists(fn): os.remove(fn)
    except Exception as e:
        import traceback
        out["mismatch"].append({"what": "derived-object", "struct": "Simulation", "member": "probe", "detail": "derived-object probe raised %r %s" % (e, traceback.format_exc()[-400:])})

    # ---- 4. symbols resolve in the loaded library
    for mod, sym in job["symbols"]:
        if mod in job["dead_modules"]:
            continue
        out["checked"]["symbols"] += 1
        try:
            getattr(clib, sym)
        except AttributeError:
            try:
                ctypes.c_int.in_dll(clib, sym)
            except Exception:
                out["mismatch"].append({"what": "symbol-missing", "struct": mod, "member": sym, "detail": "dlsym fails"})
    print("C18PROBE " + json.dumps(out))


if __name__ == "__main__":
    main()
