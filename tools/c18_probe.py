"""C18 probe — runs with PYTHONPATH=<libdir> (fresh librebound + $VERIF_REPO/rebound). Library-only: nothing here uses
the Coq model.  argv[1] = job json (written by tools/c18.py), stdout = result json.

job: { "classes": [[class, module], ...],
       "name_pairs": [[class, cstruct, pyfield, cmember], ...]      (intended correspondence by NAME)
       "coff": {cstruct: {cmember: [offset, size]}}, "csize": {cstruct: [size, align]}   (from gcc on the current headers)
       "ckind": {cstruct: {cmember: "signed"|"unsigned"|"float"|"enum"|"ptr"|"funptr"|"char"|"other"}},
       "enum": {CONST: value}                                           (from gcc)
       "option_pairs": [[dict, key, CONST, pyvalue], ...], "symbols": [[module, symbol], ...], "dead_modules": [...] }
"""
import ctypes, importlib, json, struct, sys


def main():
    job = json.load(open(sys.argv[1]))
    out = {"layout": [], "mismatch": [], "checked": {"fields": 0, "sentinels": 0, "options": 0, "symbols": 0, "descriptors": 0,
                                                     "callbacks": 0}}
    import os
    import rebound
    clib = rebound.clibrebound
    pkg = os.path.realpath(os.path.dirname(rebound.__file__)); libp = os.path.realpath(clib._name)
    if pkg != job["expect_pkg"] or os.path.dirname(libp) != job["expect_lib"]:
        print("C18PROBE-WRONG-PACKAGE imported %s with %s, expected %s with a library in %s" % (pkg, libp, job["expect_pkg"], job["expect_lib"]))
        return
    classes = {}
    for cname, mod in job["classes"]:
        try:
            m = importlib.import_module("rebound." + mod) if mod != "__init__" else rebound
            classes[cname] = getattr(m, cname)
        except Exception as e:
            out["mismatch"].append({"what": "class-not-importable", "struct": cname, "member": "", "detail": repr(e)})
    # ---- 1. ctypes' own layout of every class (for the correspondence with the Coq ctypes model)
    for cname, cls in classes.items():
        for fn, ft in cls._fields_:
            d = cls.__dict__.get(fn)
            if d is None or not hasattr(d, "offset"):
                # a property / other attribute hides the field descriptor
                out["mismatch"].append({"what": "field-descriptor-hidden", "struct": cname, "member": fn,
                                        "detail": "class attribute %r is %r" % (fn, type(getattr(cls, fn, None)).__name__)})
                continue
            out["layout"].append([cname, fn, d.offset, d.size])
        out["layout"].append([cname, "<sizeof>", ctypes.sizeof(cls), ctypes.alignment(cls)])

    # ---- 2. sentinel test, field by field, against the C offsets computed by gcc
    pairs = {}
    for cls_, cs, pf, cm in job["name_pairs"]:
        pairs.setdefault(cls_, []).append((cs, pf, cm))
    for cname, lst in pairs.items():
        if cname not in classes:
            continue
        cls = classes[cname]
        cs = lst[0][0]
        if cs not in job["coff"]:
            out["mismatch"].append({"what": "no-such-c-record", "struct": cname, "member": "", "detail": cs}); continue
        csz = job["csize"][cs][0]
        n = max(csz, ctypes.sizeof(cls)) + 64
        ftypes = dict(cls._fields_)
        seen_split = {}
        for idx, (cs, pf, cm) in enumerate(lst):
            out["checked"]["fields"] += 1
            d = cls.__dict__.get(pf)
            if d is None or not hasattr(d, "offset"):
                continue  # reported above
            if cm not in job["coff"][cs]:
                out["mismatch"].append({"what": "no-such-c-member", "struct": cname, "member": pf, "detail": "%s.%s" % (cs, cm)})
                continue
            coff, csize = job["coff"][cs][cm]
            ck = job["ckind"][cs].get(cm, "other")
            ft = ftypes[pf]
            k = seen_split.get(pf, 0); seen_split[pf] = k + 1          # element index when an array field covers several members
            is_arr = isinstance(ft, type) and issubclass(ft, ctypes.Array)
            split = is_arr and sum(1 for x in lst if x[1] == pf) > 1
            poff = d.offset + (k * ctypes.sizeof(ft._type_) if split else 0)
            psize = ctypes.sizeof(ft._type_) if split else d.size
            if poff != coff or psize != csize:
                out["mismatch"].append({"what": "offset-size", "struct": cname, "member": pf,
                                        "detail": "python %s at [%d,+%d) but C %s.%s at [%d,+%d)" % (pf, poff, psize, cs, cm, coff, csize)})
            # byte-level: write through python, read at the C offset; write at the C offset, read through python
            buf = (ctypes.c_ubyte * n)()
            obj = cls.from_buffer(buf)
            el = ft._type_ if split else ft
            code = getattr(el, "_type_", None) if isinstance(el, type) and issubclass(el, ctypes._SimpleCData) else None
            def get():
                v = getattr(obj, pf)
                return v[k] if split else v
            def put(v):
                if split:
                    getattr(obj, pf)[k] = v
                else:
                    setattr(obj, pf, v)
            raw = lambda: bytes(buf[coff:coff + csize])
            def poke(b):
                for i, x in enumerate(b):
                    buf[coff + i] = x
            if code in ("b", "B", "h", "H", "i", "I", "l", "L", "q", "Q") and ck in ("signed", "unsigned", "enum") and csize in (1, 2, 4, 8):
                out["checked"]["sentinels"] += 1
                fmt = {1: "b", 2: "h", 4: "i", 8: "q"}[csize]
                sent = (0x11 * (idx % 7 + 1)) + 1
                try:
                    put(sent)
                    got = struct.unpack("<" + fmt, raw())[0]
                    if got != sent:
                        out["mismatch"].append({"what": "sentinel-write", "struct": cname, "member": pf,
                                                "detail": "wrote %d via python field %s; C member %s.%s holds %d" % (sent, pf, cs, cm, got)})
                except Exception as e:
                    out["mismatch"].append({"what": "sentinel-write-raised", "struct": cname, "member": pf, "detail": repr(e)})
                for i in range(n): buf[i] = 0
                poke(b"\xff" * csize)
                cval = (1 << (8 * csize)) - 1 if ck == "unsigned" else -1
                pv = get()
                if ck != "enum" and pv != cval:
                    out["mismatch"].append({"what": "sentinel-read-signedness", "struct": cname, "member": pf,
                                            "detail": "bytes ff..ff in C member %s.%s mean %d for its C type; python field %s reads %d" % (cs, cm, cval, pf, pv)})
                if ck == "enum" and pv not in (cval, (1 << (8 * csize)) - 1):
                    out["mismatch"].append({"what": "sentinel-read", "struct": cname, "member": pf, "detail": "enum read %r" % (pv,)})
            elif code in ("f", "d") and ck == "float":
                out["checked"]["sentinels"] += 1
                sent = 1.0 + idx / 64.0
                put(sent)
                got = struct.unpack("<" + ("d" if csize == 8 else "f"), raw())[0]
                if got != sent:
                    out["mismatch"].append({"what": "sentinel-write", "struct": cname, "member": pf,
                                            "detail": "wrote %r via python field %s; C member %s.%s holds %r" % (sent, pf, cs, cm, got)})
            elif ck in ("ptr", "funptr") and csize == 8:
                out["checked"]["sentinels"] += 1
                sent = 0x1000 * (idx + 1) + 0x10
                poke(struct.pack("<Q", sent))
                try:
                    if code == "P":
                        pv = get()
                    elif code == "z":
                        pv = sent            # reading a c_char_p dereferences; layout already compared above
                    else:
                        pv = ctypes.cast(get(), ctypes.c_void_p).value
                    if pv != sent:
                        out["mismatch"].append({"what": "sentinel-read", "struct": cname, "member": pf,
                                                "detail": "pointer %#x stored in C member %s.%s; python field %s reads %r" % (sent, cs, cm, pf, pv)})
                except Exception as e:
                    out["mismatch"].append({"what": "sentinel-read-raised", "struct": cname, "member": pf, "detail": repr(e)})
            del obj

    # ---- 3. live simulation: sizes, options through the properties, callbacks by name, library-embedded offsets
    sim = rebound.Simulation()
    sim.add(m=1.); sim.add(m=1e-3, a=1.)
    base = ctypes.addressof(sim)
    co = job["coff"]
    clib.reb_simulation_struct_size.restype = ctypes.c_size_t
    lsz = clib.reb_simulation_struct_size()
    if not (lsz == job["csize"]["reb_simulation"][0] == ctypes.sizeof(rebound.Simulation)):
        out["mismatch"].append({"what": "sizeof", "struct": "Simulation", "member": "<sizeof>",
                                "detail": "library %d, gcc on current header %d, ctypes %d" % (lsz, job["csize"]["reb_simulation"][0], ctypes.sizeof(rebound.Simulation))})

    def path_off(struct_, path):
        off = 0; cur = struct_
        for i, p in enumerate(path):
            if cur not in co or p not in co[cur]:
                return None
            off += co[cur][p][0]
            if i + 1 < len(path):
                cur = job["cmember_struct"].get(cur, {}).get(p)
                if cur is None: return None
        return off

    targets = {"INTEGRATORS": [(lambda: sim, "integrator", ["integrator"])],
               "GRAVITIES": [(lambda: sim, "gravity", ["gravity"])],
               "COLLISIONS": [(lambda: sim, "collision", ["collision"])],
               "BOUNDARIES": [(lambda: sim, "boundary", ["boundary"])],
               "WHFAST_KERNELS": [(lambda: sim.ri_whfast, "kernel", ["ri_whfast", "kernel"])],
               "WHFAST_COORDINATES": [(lambda: sim.ri_whfast, "coordinates", ["ri_whfast", "coordinates"])],
               "TRACE_PERI_MODES": [(lambda: sim.ri_trace, "peri_mode", ["ri_trace", "peri_mode"])],
               "SABA_TYPES": [(lambda: sim.ri_saba, "type", ["ri_saba", "type"])],
               "EOS_TYPES": [(lambda: sim.ri_eos, "phi0", ["ri_eos", "phi0"]), (lambda: sim.ri_eos, "phi1", ["ri_eos", "phi1"])]}
    simsize = job["csize"]["reb_simulation"][0]
    SENT = 0x5A5A5A5A

    def others_changed(before, after, off):
        """byte offsets outside [off, off+4) of struct reb_simulation that differ"""
        return [i for i in range(simsize) if before[i] != after[i] and not (off <= i < off + 4)]

    for dname, key, const, pyval in job["option_pairs"]:
        if dname not in targets:
            out["mismatch"].append({"what": "option-dict-without-target", "struct": dname, "member": key, "detail": ""}); continue
        for objf, prop, path in targets[dname]:
            off = path_off("reb_simulation", path)
            if off is None or const not in job["enum"]:
                out["mismatch"].append({"what": "option-no-c-side", "struct": dname, "member": key, "detail": "%s / %s" % (path, const)}); continue
            cval = job["enum"][const]
            # set by NAME and by INTEGER value; each time: park a sentinel in the raw C member, snapshot the whole struct,
            # set through the property, then (a) the raw member holds the C value, (b) the name reads back,
            # (c) no byte of any OTHER member of reb_simulation changed
            for how, val in (("name", key), ("int", cval)):
                out["checked"]["options"] += 1
                try:
                    ctypes.c_uint.from_address(base + off).value = SENT
                    before = ctypes.string_at(base, simsize)
                    setattr(objf(), prop, val)
                    after = ctypes.string_at(base, simsize)
                    rawv = ctypes.c_int.from_address(base + off).value
                    back = getattr(objf(), prop)
                except Exception as e:
                    out["mismatch"].append({"what": "option-set-raised", "struct": dname, "member": key, "detail": "%s=%r: %r" % (prop, val, e)}); continue
                if rawv != cval:
                    out["mismatch"].append({"what": "option-value", "struct": dname, "member": key,
                                            "detail": "%s = %r (by %s) leaves %d in reb_simulation.%s; C %s = %d" % (prop, val, how, rawv, ".".join(path), const, cval)})
                if back != key:
                    out["mismatch"].append({"what": "option-readback", "struct": dname, "member": key,
                                            "detail": "%s = %r (by %s) reads back %r, expected %r" % (prop, val, how, back, key)})
                oc = others_changed(before, after, off)
                if oc:
                    out["mismatch"].append({"what": "option-clobbers-other-member", "struct": dname, "member": key,
                                            "detail": "%s = %r (by %s) changed bytes %s of struct reb_simulation outside %s at [%d,+4)" % (prop, val, how, oc[:8], ".".join(path), off)})
                    for i in oc:     # restore so one defect is not reported for every later item
                        ctypes.c_ubyte.from_address(base + i).value = before[i]
    sim.integrator = "ias15"; sim.gravity = "basic"; sim.collision = "none"; sim.boundary = "none"

    cbs = [(lambda: sim, "collision_resolve", ["collision_resolve"], {"merge": "reb_collision_resolve_merge", "hardsphere": "reb_collision_resolve_hardsphere", "halt": "reb_collision_resolve_halt"}),
           (lambda: sim.ri_mercurius, "L", ["ri_mercurius", "L"], {"mercury": "reb_integrator_mercurius_L_mercury", "C4": "reb_integrator_mercurius_L_C4", "C5": "reb_integrator_mercurius_L_C5", "infinity": "reb_integrator_mercurius_L_infinity"}),
           (lambda: sim.ri_trace, "S", ["ri_trace", "S"], {"default": "reb_integrator_trace_switch_default"}),
           (lambda: sim.ri_trace, "S_peri", ["ri_trace", "S_peri"], {"default": "reb_integrator_trace_switch_peri_default", "none": "reb_integrator_trace_switch_peri_none"})]
    for objf, prop, path, names in cbs:
        off = path_off("reb_simulation", path)
        for nm, sym in names.items():
            out["checked"]["callbacks"] += 1
            try:
                setattr(objf(), prop, nm)
                rawp = ctypes.c_void_p.from_address(base + off).value
                want = ctypes.cast(getattr(clib, sym), ctypes.c_void_p).value
            except Exception as e:
                out["mismatch"].append({"what": "callback-set-raised", "struct": prop, "member": nm, "detail": repr(e)}); continue
            if rawp != want:
                out["mismatch"].append({"what": "callback-pointer", "struct": prop, "member": nm,
                                        "detail": "%s = %r stores %r in reb_simulation.%s; &%s = %r" % (prop, nm, rawp, ".".join(path), sym, want)})

    # offsets the LIBRARY itself was compiled with (reb_binary_field_descriptor_list) vs gcc on the current header
    try:
        from rebound.binary_field_descriptor import binary_field_descriptor_list
        for fd in binary_field_descriptor_list():
            nm = fd.name.decode("ascii")
            path = nm.split(".")
            off = path_off("reb_simulation", path)
            if off is None:
                continue            # descriptor names that are not member paths (e.g. "particles.var"?) are skipped
            out["checked"]["descriptors"] += 1
            if off != fd.offset:
                out["mismatch"].append({"what": "library-offset", "struct": "reb_simulation", "member": nm,
                                        "detail": "loaded library has %s at %d, current header puts it at %d" % (nm, fd.offset, off)})
    except Exception as e:
        out["mismatch"].append({"what": "descriptor-list-raised", "struct": "BinaryFieldDescriptor", "member": "", "detail": repr(e)})

    # ---- 5. accessors that search / index a C array: write through python on element i, verify in raw memory (addresses and
    #         offsets from the C side: r->var_config, r->particles, sizeof/offsetof by gcc) that exactly the intended bytes of
    #         exactly element i changed, and read back
    out["checked"]["indexed"] = 0
    vc = "reb_variational_configuration"
    try:
        vstride = job["csize"][vc][0]; pstride = job["csize"]["reb_particle"][0]
        voff = {m: co[vc][m][0] for m in ("order", "index", "testparticle", "index_1st_order_a", "index_1st_order_b", "lrescale")}
        off_vcp = co["reb_simulation"]["var_config"][0]; off_nvc = co["reb_simulation"]["N_var_config"][0]
        off_pp = co["reb_simulation"]["particles"][0]; off_N = co["reb_simulation"]["N"][0]
        poff = {m: co["reb_particle"][m][0] for m in ("x", "m", "hash")}
    except KeyError as e:
        out["mismatch"].append({"what": "indexed-no-c-side", "struct": "Variation", "member": "", "detail": repr(e)})
        vstride = None

    def bad(struct_, member, detail):
        out["mismatch"].append({"what": "indexed-accessor", "struct": struct_, "member": member, "detail": detail})

    def diff_ranges(a, b):
        return [i for i in range(min(len(a), len(b))) if a[i] != b[i]] + ([-1] if len(a) != len(b) else [])

    def mk():
        s_ = rebound.Simulation()
        s_.add(m=1.); s_.add(m=1e-3, a=1., e=0.05); s_.add(m=2e-3, a=2.3, e=0.1, f=1.)
        s_.move_to_com()
        return s_

    def scenario(name):
        s_ = mk(); objs = []
        if name == "k1":
            objs.append(s_.add_variation())
        elif name == "k2-megno":
            s_.init_megno(seed=3); objs.append(None); objs.append(s_.add_variation())
        elif name == "k3-second":
            a = s_.add_variation(); b = s_.add_variation()
            objs += [a, b, s_.add_variation(order=2, first_order=a, first_order_2=b)]
        elif name == "k4-mixed":
            a = s_.add_variation(); t = s_.add_variation(testparticle=2); b = s_.add_variation()
            objs += [a, t, b, s_.add_variation(order=2, first_order=a, first_order_2=b)]
        return s_, objs

    if vstride is not None:
        for sc in ("k1", "k2-megno", "k3-second", "k4-mixed"):
            try:
                s_, objs = scenario(sc)
            except Exception as e:
                bad("Variation", "add_variation", "scenario %s raised %r" % (sc, e)); continue
            b_ = ctypes.addressof(s_)
            k = ctypes.c_uint.from_address(b_ + off_nvc).value
            if k != len(objs):
                bad("Variation", "N_var_config", "scenario %s: C N_var_config=%d, python created %d sets" % (sc, k, len(objs))); continue
            vbase = lambda: ctypes.c_void_p.from_address(b_ + off_vcp).value
            pbase = lambda: ctypes.c_void_p.from_address(b_ + off_pp).value
            npart = lambda: ctypes.c_uint.from_address(b_ + off_N).value
            varr = lambda: ctypes.string_at(vbase(), k * vstride)
            parr = lambda: ctypes.string_at(pbase(), npart() * pstride)
            cint = lambda i, m: ctypes.c_int.from_address(vbase() + i * vstride + voff[m]).value
            cdbl = lambda i: ctypes.c_double.from_address(vbase() + i * vstride + voff["lrescale"]).value
            serial = [0]
            for i in range(k):
                handles = [("sim.var_config[%d]" % i, s_.var_config[i])]
                if objs[i] is not None:
                    handles.append(("add_variation()#%d" % i, objs[i]))
                for hname, h in handles:
                    # plain fields of the handle describe C element i
                    for m in ("order", "index", "testparticle", "index_1st_order_a", "index_1st_order_b"):
                        out["checked"]["indexed"] += 1
                        if getattr(h, m) != cint(i, m):
                            bad("Variation", m, "%s %s.%s reads %r, C var_config[%d].%s = %r" % (sc, hname, m, getattr(h, m), i, m, cint(i, m)))
                    # property lrescale: write a distinct value, exactly the 8 bytes of element i's lrescale may change
                    out["checked"]["indexed"] += 1
                    serial[0] += 1
                    val = -(1.0 + serial[0] / 16.0)
                    v0, p0 = varr(), parr()
                    try:
                        h.lrescale = val
                        back = h.lrescale
                    except Exception as e:
                        bad("Variation", "lrescale", "%s %s.lrescale = %r raised %r" % (sc, hname, val, e)); continue
                    v1, p1 = varr(), parr()
                    lo = i * vstride + voff["lrescale"]
                    changed = diff_ranges(v0, v1)
                    if cdbl(i) != val:
                        bad("Variation", "lrescale", "%s: wrote %r through %s.lrescale; C var_config[%d].lrescale (of %d sets) holds %r" % (sc, val, hname, i, k, cdbl(i)))
                    if [c for c in changed if not (lo <= c < lo + 8)] or diff_ranges(p0, p1):
                        bad("Variation", "lrescale", "%s: %s.lrescale = %r changed bytes %s of the var_config array outside element %d's lrescale (particles changed: %s)" % (sc, hname, val, [c for c in changed if not (lo <= c < lo + 8)][:6], i, bool(diff_ranges(p0, p1))))
                    if back != val:
                        bad("Variation", "lrescale", "%s: %s.lrescale = %r reads back %r" % (sc, hname, val, back))
                    # property particles: element j of the view is C particle index_i + j
                    try:
                        ps = h.particles
                        want_n = 1 if cint(i, "testparticle") >= 0 else npart() - ctypes.c_int.from_address(b_ + co["reb_simulation"]["N_var"][0]).value
                        if len(ps) != want_n:
                            bad("Variation", "particles", "%s: len(%s.particles)=%d, expected %d" % (sc, hname, len(ps), want_n))
                        for j in range(len(ps)):
                            out["checked"]["indexed"] += 1
                            serial[0] += 1
                            val = 100.0 + serial[0] / 8.0
                            p0 = parr(); v0 = varr()
                            ps[j].x = val
                            p1 = parr(); v1 = varr()
                            lo = (cint(i, "index") + j) * pstride + poff["x"]
                            ch = diff_ranges(p0, p1)
                            got = ctypes.c_double.from_address(pbase() + lo).value
                            if got != val or [c for c in ch if not (lo <= c < lo + 8)] or diff_ranges(v0, v1):
                                bad("Variation", "particles", "%s: %s.particles[%d].x = %r; C particles[%d].x holds %r; other bytes changed: %s" % (sc, hname, j, val, cint(i, "index") + j, got, [c for c in ch if not (lo <= c < lo + 8)][:6]))
                    except Exception as e:
                        bad("Variation", "particles", "%s %s.particles raised %r" % (sc, hname, e))
            # every handle still reads its own last value (no write landed on a neighbour)
            for i in range(k):
                if objs[i] is not None and objs[i].lrescale != cdbl(i):
                    bad("Variation", "lrescale", "%s: add_variation()#%d.lrescale reads %r but C var_config[%d].lrescale = %r" % (sc, i, objs[i].lrescale, i, cdbl(i)))

        # sim.particles[key] (index, negative index, string hash, c_uint32 hash) and Particle.hash
        try:
            s_ = rebound.Simulation()
            names = ["sun", "b", "c", "d", "e"]
            for n_, nm in enumerate(names):
                s_.add(m=1.0 / (n_ + 1), x=float(n_), hash=nm)
            b_ = ctypes.addressof(s_)
            pbase = ctypes.c_void_p.from_address(b_ + off_pp).value
            N = len(names)
            parr = lambda: ctypes.string_at(pbase, N * pstride)
            clib.reb_hash.restype = ctypes.c_uint32
            serial = 0
            for i, nm in enumerate(names):
                h32 = clib.reb_hash(nm.encode("ascii"))
                rawh = ctypes.c_uint32.from_address(pbase + i * pstride + poff["hash"]).value
                out["checked"]["indexed"] += 1
                if rawh != h32:
                    bad("Particle", "hash", "add(hash=%r) on particle %d: C particles[%d].hash = %d, reb_hash = %d" % (nm, i, i, rawh, h32))
                for kname, key in (("[%d]" % i, i), ("[%d]" % (i - N), i - N), ("[%r]" % nm, nm), ("[c_uint32(%d)]" % h32, ctypes.c_uint32(h32))):
                    out["checked"]["indexed"] += 1
                    serial += 1
                    val = 7.0 + serial / 32.0
                    p0 = parr()
                    s_.particles[key].m = val
                    p1 = parr()
                    lo = i * pstride + poff["m"]
                    got = ctypes.c_double.from_address(pbase + lo).value
                    ch = [c for c in diff_ranges(p0, p1) if not (lo <= c < lo + 8)]
                    if got != val or ch or s_.particles[key].m != val:
                        bad("Particles", "__getitem__", "sim.particles%s.m = %r: C particles[%d].m holds %r; other bytes changed: %s" % (kname, val, i, got, ch[:6]))
                # Particle.hash setter: string, int, c_uint32
                for hv, want in ((nm + "_x", clib.reb_hash((nm + "_x").encode("ascii"))), (1000 + i, 1000 + i), (ctypes.c_uint32(2000 + i), 2000 + i)):
                    out["checked"]["indexed"] += 1
                    p0 = parr()
                    s_.particles[i].hash = hv
                    p1 = parr()
                    lo = i * pstride + poff["hash"]
                    got = ctypes.c_uint32.from_address(pbase + lo).value
                    ch = [c for c in diff_ranges(p0, p1) if not (lo <= c < lo + 4)]
                    back = s_.particles[i].hash.value
                    if got != want or ch or back != want:
                        bad("Particle", "hash", "sim.particles[%d].hash = %r: C particles[%d].hash holds %d (expected %d), reads back %d; other bytes changed: %s" % (i, getattr(hv, "value", hv), i, got, want, back, ch[:6]))
                    found = ctypes.addressof(s_.particles[ctypes.c_uint32(want)])
                    if found != pbase + i * pstride:
                        bad("Particles", "__getitem__", "lookup by hash %d returns address %#x, C particles[%d] is at %#x" % (want, found, i, pbase + i * pstride))
        except Exception as e:
            bad("Particles", "__getitem__", "particle container probe raised %r" % (e,))


    # ---- 4. symbols resolve in the loaded library
    for mod, sym in job["symbols"]:
        if mod in job["dead_modules"]:
            continue
        out["checked"]["symbols"] += 1
        try:
            getattr(clib, sym)
        except AttributeError:
            try:
                ctypes.c_int.in_dll(clib, sym)
            except Exception:
                out["mismatch"].append({"what": "symbol-missing", "struct": mod, "member": sym, "detail": "dlsym fails"})
    print("C18PROBE " + json.dumps(out))


if __name__ == "__main__":
    main()
