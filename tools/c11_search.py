"""C11 library-only searcher: looks for a concrete input on which the real library violates the property.
Oracles are independent of the Coq models: 50-digit decimal arithmetic for Kepler's equation and the anomaly
conversions, the input elements themselves for round trips.  Every tolerance carries the conditioning of the
quantity it judges (1/e, 1/sin inc, 1/|1-e|, |M|, number of 2pi wraps), so that rounding is never flagged.
"""
import ctypes, math
from decimal import Decimal, getcontext

getcontext().prec = 60
PI = Decimal("3.14159265358979323846264338327950288419716939937510582097494459230781640628620899862803")
TWOPI = 2 * PI
TP = 2 * math.pi


def D(x):
    return Decimal(x)


def dred(x):
    """x reduced to [-pi, pi] (Decimal)"""
    k = (x / TWOPI).to_integral_value()
    return x - k * TWOPI


def dsincos(x):
    x = dred(D(x))
    x2 = x * x
    s = t = x
    c = u = Decimal(1)
    n = 1
    while abs(t) > Decimal("1e-58") or abs(u) > Decimal("1e-58"):
        u = -u * x2 / ((2 * n - 1) * (2 * n))
        c += u
        t = -t * x2 / ((2 * n) * (2 * n + 1))
        s += t
        n += 1
    return s, c


def dsinhcosh(x):
    x = D(x)
    a, b = x.exp(), (-x).exp()
    if abs(x) < Decimal("1e-3"):          # avoid cancellation
        x2 = x * x
        sh = x * (1 + x2 / 6 * (1 + x2 / 20 * (1 + x2 / 42 * (1 + x2 / 72 * (1 + x2 / 110)))))
    else:
        sh = (a - b) / 2
    return sh, (a + b) / 2


def angdiff(a, b):
    """|a-b| modulo 2pi, in floats (used with tolerances >= 1e-9 only)"""
    d = math.fmod(a - b, TP)
    if d > math.pi: d -= TP
    if d < -math.pi: d += TP
    return abs(d)


def finite(*xs):
    return all(x == x and abs(x) != float("inf") for x in xs)


# ----------------------------------------------------------------------------- Kepler's equation
def kepler_point(L, e, M):
    """returns None or a dict describing the failure"""
    E = L.clib.reb_M_to_E(e, M)
    f = L.clib.reb_E_to_f(e, E)
    f2 = L.clib.reb_M_to_f(e, M)
    bad = None
    if not finite(E, f, f2):
        return {"what": "non-finite result", "e": e, "M": M, "E": E, "f": f}
    if not ((f2 == f) or (f2 != f2 and f != f)):
        return {"what": "reb_M_to_f != reb_E_to_f(reb_M_to_E)", "e": e, "M": M, "f": f, "f2": f2}
    if not (0 <= f < TP):
        return {"what": "f out of [0,2pi)", "e": e, "M": M, "f": f}
    if e < 1:
        if not (0 <= E < TP):
            return {"what": "E out of [0,2pi)", "e": e, "M": M, "E": E}
        s, c = dsincos(E)
        res = dred(D(E) - D(e) * s - D(M))
        tol = 3e-15 + 4e-16 * abs(M)
        if abs(res) > tol:
            return {"what": "Kepler's equation E - e sin E = M (mod 2pi) violated", "e": e, "M": M, "E": E,
                    "residual": float(res), "tolerance": tol}
        # true anomaly: cos f = (cos E - e)/(1 - e cos E), sin f = sqrt(1-e^2) sin E/(1 - e cos E)
        den = 1 - D(e) * c
        cf, sf = (c - D(e)) / den, (1 - D(e) * D(e)).sqrt() * s / den
        amp = math.sqrt((1 + e) / (1 - e))
    else:
        sh, ch = dsinhcosh(E)
        res = D(e) * sh - D(E) - D(M)
        tol = 2e-15 * (1 + abs(M) + abs(E) + e * abs(float(sh)))
        if abs(res) > tol:
            return {"what": "hyperbolic Kepler equation e sinh E - E = M violated", "e": e, "M": M, "E": E,
                    "residual": float(res), "tolerance": tol}
        den = D(e) * ch - 1
        cf, sf = (D(e) - ch) / den, (D(e) * D(e) - 1).sqrt() * sh / den
        amp = math.sqrt((e + 1) / (e - 1))
    sF, cF = dsincos(f)
    tolf = 4e-15 * (2 + amp)
    if abs(sF - sf) > tolf or abs(cF - cf) > tolf:
        return {"what": "reb_E_to_f inconsistent with E (cos f, sin f)", "e": e, "M": M, "E": E, "f": f,
                "cosf_expected": float(cf), "sinf_expected": float(sf), "cosf": float(cF), "sinf": float(sF), "tolerance": tolf}
    return None


def kepler_search(ctx, L):
    rng = ctx.rng
    es = [0.0, 1e-12, 0.1, 0.5, 0.7999999999, 0.8, 0.9, 0.99, 0.999, 1 - 1e-6, 1 + 1e-6, 1.001, 1.1, 1.5, 2.0, 5.0, 20.0, 50.0]
    Ms = [0.0, -0.0, 1e-300, -1e-300, 1e-20, -1e-20, 1e-8, -1e-8, 0.1, -0.1, 1.0, math.pi, -math.pi, TP, -TP, 2 * TP, 3 * TP,
          math.pi / 2, 3.0, 6.0, 6.283185307179585, 6.28318530717958, 10.0, -10.0, 100.0, -100.0]
    pts = [(e, M) for e in es for M in Ms]
    for _ in range(ctx.scale(1500, 40000)):
        u = rng.random()
        if u < 0.45:
            e = rng.uniform(0, 1) if rng.random() < 0.7 else 1 - 10 ** rng.uniform(-9, -1)
        else:
            e = rng.uniform(1, 50) if rng.random() < 0.7 else 1 + 10 ** rng.uniform(-6, 0)
        M = rng.choice([rng.uniform(-TP, 2 * TP), rng.uniform(-50, 50), rng.uniform(-1, 1) * 10 ** rng.uniform(-12, 0),
                        rng.randint(-5, 5) * TP, rng.randint(-5, 5) * math.pi])
        pts.append((e, M))
    worst = None
    for e, M in pts:
        ctx.evaluations += 1
        r = kepler_point(L, e, M)
        if r and worst is None:
            worst = r
    ctx.nontrivial.add(("kepler", len(pts)))
    if worst:
        worst["kind"] = "kepler"
        ctx.violation("kepler:" + worst["what"].split(" ")[0], worst, True, worst["what"])
    return len(pts)


# ----------------------------------------------------------------------------- round trips
def build(L, c, kw, want_pal=False):
    """Python front end: sim with the primary at index 0, add the particle, return (particle, orbit) or error text"""
    rb = L.rebound
    sim = rb.Simulation()
    sim.G = c["G"]
    sim.t = c["t"]
    sim.add(L.mk_prim(c["prim"]))
    try:
        sim.add(primary=sim.particles[0], m=c["m"], **kw)
    except ValueError as ex:
        return None, None, str(ex)
    p = sim.particles[1]
    comps = (p.x, p.y, p.z, p.vx, p.vy, p.vz)
    if not finite(*comps):
        return comps, None, None
    try:
        o = p.orbit(primary=sim.particles[0])
        od = p.orbit()                     # default (Jacobi) primary: a centre-of-mass particle outside the simulation
    except ValueError as ex:
        return comps, None, str(ex)
    if math.isfinite(o.T) and math.isfinite(od.T) and 0 < abs(o.P) < 1e300 and o.e > 1e-3:      # T is ill-defined for circular orbits
        dd = abs(o.T - od.T)
        if o.e < 1:
            dd = math.fmod(dd, abs(o.P)); dd = min(dd, abs(o.P) - dd)
        if dd > 1e-6 * (abs(o.P) + abs(sim.t) + abs(o.T)):
            return comps, None, "T read with the default primary (%r) differs from T read with primary=particles[0] (%r) at sim.t=%r" % (od.T, o.T, sim.t)
    if want_pal:
        D = ctypes.c_double
        out = [D() for _ in range(6)]
        L.clib.reb_tools_particle_to_pal.restype = None
        L.clib.reb_tools_particle_to_pal(D(sim.G), p, sim.particles[0], *[ctypes.byref(x) for x in out])
        o = (o, [x.value for x in out])       # a, lambda, k, h, ix, iy
    return comps, o, None


def f_to_M(e, f):
    """double-precision helper for generating equivalent anomalies (accuracy is covered by the tolerance)"""
    if e < 1:
        E = 2 * math.atan2(math.sqrt(1 - e) * math.sin(f / 2), math.sqrt(1 + e) * math.cos(f / 2))
        return E, E - e * math.sin(E)
    E = 2 * math.atanh(math.sqrt((e - 1) / (e + 1)) * math.tan(f / 2))
    return E, e * math.sinh(E) - E


def gen_orbit(rng):
    hyper = rng.random() < 0.3
    e = rng.choice([rng.uniform(1.001, 3), rng.uniform(1.001, 50)]) if hyper else \
        rng.choice([0.0, 0.0, rng.uniform(1e-3, 0.999), rng.uniform(1e-3, 0.9), rng.uniform(1e-3, 0.5)])
    a = (-1 if hyper else 1) * 10 ** rng.uniform(-4, 6)
    inc = rng.choice([0.0, 0.0, math.pi, rng.uniform(1e-3, math.pi - 1e-3), rng.uniform(1e-3, math.pi - 1e-3),
                      rng.uniform(1e-3, math.pi / 2 - 1e-3)])
    spec = lambda: rng.choice([0.0, TP, -TP, 2 * TP, math.pi, rng.uniform(-TP, 2 * TP), rng.uniform(0, TP), rng.uniform(0, TP)])
    Om, om = spec(), spec()
    if hyper:
        f = rng.uniform(-1, 1) * 0.95 * math.acos(-1 / e)
    else:
        f = spec()
    G = rng.choice([1.0, 39.47841760435743, 6.6743e-11, 2.959122082855911e-4])
    pm = 10 ** rng.uniform(-3, 3) if G > 1e-6 else 10 ** rng.uniform(25, 32)
    m = rng.choice([0.0, pm * 10 ** rng.uniform(-9, -1)])
    sc = abs(a)
    prim = [pm] + [rng.gauss(0, 1) * sc * rng.choice([0, 1, 10]) for _ in range(3)] + \
           [rng.gauss(0, 1) * math.sqrt(G * pm / sc) * rng.choice([0, 1]) for _ in range(3)]
    return {"G": G, "t": rng.choice([0.0, rng.uniform(-10, 10)]), "prim": prim, "m": m,
            "a": a, "e": e, "inc": inc, "Omega": Om, "omega": om, "f": f}


def roundtrip_case(L, c, rng):
    """returns list of failure dicts"""
    fails = []
    a, e, inc, Om, om, f = c["a"], c["e"], c["inc"], c["Omega"], c["omega"], c["f"]
    G, pm, m, t = c["G"], c["prim"][0], c["m"], c["t"]
    mu = G * (pm + m)
    pro = math.cos(inc) > 0
    planar = (inc == 0.0 or inc == math.pi)
    circ = (e == 0.0)
    base = {"a": a, "e": e, "inc": inc, "Omega": Om, "omega": om, "f": f}
    comps0, o, err = build(L, c, base)
    if err or o is None:
        return [{"what": "valid elements rejected or non-finite particle", "error": err, "particle": comps0}]
    # conditioning
    sini = max(abs(math.sin(inc)), 1e-300)
    ce = 1.0 / abs(1 - e)
    scale_x = abs(a) * (1 + e) + max(abs(x) for x in c["prim"][1:4])
    ang_tol = 2e-6 + 1e-11 * ce * (1 / max(e, 1e-300) if not circ else 1) / (sini if not planar else 1)
    # ---- ranges
    rng_bad = []
    if not (o.e >= 0): rng_bad.append(("e", o.e))
    if not (0 <= o.inc <= math.pi): rng_bad.append(("inc", o.inc))
    for nme in ("f", "M", "l", "theta", "omega"):
        x = getattr(o, nme)
        if not (0 <= x < TP): rng_bad.append((nme, x))
    if not (-math.pi <= o.Omega <= math.pi): rng_bad.append(("Omega", o.Omega))
    if not (-TP <= o.pomega <= TP): rng_bad.append(("pomega", o.pomega))
    if not finite(o.a, o.e, o.inc, o.Omega, o.omega, o.pomega, o.f, o.M, o.l, o.theta, o.T, o.n, o.P, o.d, o.v, o.h):
        rng_bad.append(("non-finite element", str(o)))
    if rng_bad:
        fails.append({"what": "element out of its range", "elements": rng_bad})
    # ---- same orbit
    if abs(o.a - a) > 1e-9 * abs(a) * (1 + ce):
        fails.append({"what": "a not recovered", "got": o.a})
    if abs(o.e - e) > 1e-9 * (1 + ce):
        fails.append({"what": "e not recovered", "got": o.e})
    if abs(o.inc - inc) > 3e-8 + 1e-12 * ce:          # acos near 0/pi: sqrt(eps)
        fails.append({"what": "inc not recovered", "got": o.inc})
    th_in = (Om + om + f) if pro else (Om - om - f)
    po_in = (Om + om) if pro else (Om - om)
    if planar:
        # exactly planar (h along z): Omega = 0 by convention; inc = M_PI is not exactly planar in binary64
        # (sin(M_PI) = 1.2e-16), the node is then the (recoverable) input node
        # (no statement for inc = M_PI: the node direction then hangs on z components of relative size 1e-16)
        if inc == 0.0 and o.Omega != 0.0:
            fails.append({"what": "Omega != 0 for a planar prograde orbit", "got": o.Omega})
        if angdiff(o.theta, th_in) > ang_tol:
            fails.append({"what": "true longitude not recovered (planar)", "got": o.theta, "expected": math.fmod(th_in, TP)})
        if not circ and angdiff(o.pomega, po_in) > ang_tol:
            fails.append({"what": "pomega not recovered (planar)", "got": o.pomega, "expected": math.fmod(po_in, TP)})
        if not circ and angdiff(o.f, f) > ang_tol:
            fails.append({"what": "f not recovered (planar)", "got": o.f})
    else:
        if angdiff(o.Omega, Om) > ang_tol:
            fails.append({"what": "Omega not recovered", "got": o.Omega})
        if circ:
            if angdiff(o.omega + o.f, om + f) > ang_tol:
                fails.append({"what": "omega+f not recovered (circular)", "got": o.omega + o.f})
        else:
            if angdiff(o.omega, om) > ang_tol:
                fails.append({"what": "omega not recovered", "got": o.omega})
            if angdiff(o.f, f) > ang_tol:
                fails.append({"what": "f not recovered", "got": o.f})
        if angdiff(o.theta, th_in) > ang_tol:
            fails.append({"what": "true longitude not recovered", "got": o.theta})
    # ---- defining relations between the returned elements
    rel_tol = 1e-9
    sgn = 1 if o.inc < math.pi / 2 else -1
    rel = []
    if angdiff(o.pomega, o.Omega + sgn * o.omega) > rel_tol: rel.append("pomega = Omega +- omega")
    if angdiff(o.theta, o.pomega + sgn * o.f) > rel_tol + (ang_tol if circ else 0): rel.append("theta = pomega +- f")
    if o.e > 1e-8 and angdiff(o.l, o.pomega + sgn * o.M) > rel_tol: rel.append("l = pomega +- M")
    nn = math.copysign(math.sqrt(mu / abs(o.a) ** 3), o.a)
    if abs(o.n - nn) > 1e-12 * abs(nn): rel.append("n = sign(a) sqrt(mu/|a|^3)")
    if abs(o.P - TP / o.n) > 1e-12 * abs(o.P): rel.append("P = 2pi/n")
    Ein, Min = f_to_M(e, math.fmod(f, TP) if e < 1 else f)
    ampM = (1 + e) ** 2 * ce ** 1.5 + ce
    if not circ:
        # Kepler between returned f and M
        Eo, Mo = f_to_M(o.e, o.f if o.e < 1 else (o.f if o.f < math.pi else o.f - TP))
        if o.e < 1:
            # acos-based E (and f) lose sqrt(eps) at pericentre/apocentre: 1e-6 is far above that, far below any real error
            if angdiff(Mo, o.M) > 1e-6 * (1 + ampM): rel.append("M = E - e sin E with E from f")
        # pericentre time:  (t - T)|n| = M  (mod 2pi for bound orbits)
        Mt = (t - o.T) * abs(o.n)
        if o.e < 1:
            if angdiff(Mt, o.M) > 1e-9 * (1 + abs(t) * abs(o.n)) + 1e-9: rel.append("T = t - M/|n|")
        else:
            if abs(Mt - Min) > 1e-7 * (1 + abs(Min)) * (1 + ampM) + 1e-9 * abs(t) * abs(o.n):
                rel.append("T = t - M/|n| (hyperbolic)")
    if pro and abs(inc - math.pi) > 1e-2:
        pal = []
        if abs(o.pal_h - o.e * math.sin(o.pomega)) > 1e-6 * (1 + ce) * (1 + o.e): pal.append("h")
        if abs(o.pal_k - o.e * math.cos(o.pomega)) > 1e-6 * (1 + ce) * (1 + o.e): pal.append("k")
        if abs(o.pal_ix - 2 * math.sin(o.inc / 2) * math.cos(o.Omega)) > 1e-7: pal.append("ix")
        if abs(o.pal_iy - 2 * math.sin(o.inc / 2) * math.sin(o.Omega)) > 1e-7: pal.append("iy")
        if pal: rel.append("pal " + ",".join(pal))
    if rel:
        fails.append({"what": "defining relation violated: " + "; ".join(rel), "orbit": str(o)})
    # ---- equivalent ways of passing the same orbit give the same particle
    ptol_x = 1e-8 * scale_x * (1 + ampM)
    vsc = math.sqrt(mu / abs(a)) * (1 + e) * ce + max(abs(x) for x in c["prim"][4:7])
    ptol_v = 1e-8 * vsc * (1 + ampM)
    variants = []
    if e < 1:
        variants.append(("P", dict(base, P=TP * math.sqrt(a ** 3 / mu)), ("a",)))
    variants.append(("pomega", dict(base, pomega=po_in), ("omega",)))
    variants.append(("theta", dict(base, theta=th_in), ("f",)))
    if not (e >= 1 and abs(Ein) > 25):
        variants.append(("E", dict(base, E=Ein), ("f",)))
        variants.append(("M", dict(base, M=Min), ("f",)))
        l_in = (Om + om + Min) if pro else (Om - om - Min)
        variants.append(("l", dict(base, l=l_in), ("f",)))
        n_in = math.sqrt(mu / abs(a) ** 3)
        if abs(t) * n_in < 1e3:
            variants.append(("T", dict(base, T=t - Min / n_in), ("f",)))
    for nme, kw, drop in variants:
        for d in drop:
            kw.pop(d)
        comps, _, err2 = build(L, c, kw)
        if err2 or comps is None:
            fails.append({"what": "equivalent arguments (%s) rejected" % nme, "error": err2, "kw": kw})
            continue
        if not finite(*comps):
            fails.append({"what": "equivalent arguments (%s) gave a non-finite particle" % nme, "kw": kw})
            continue
        if max(abs(x - y) for x, y in zip(comps[:3], comps0[:3])) > ptol_x or \
           max(abs(x - y) for x, y in zip(comps[3:], comps0[3:])) > ptol_v:
            fails.append({"what": "equivalent arguments (%s) gave a different particle" % nme, "kw": kw,
                          "particle": comps, "reference": comps0, "tol": (ptol_x, ptol_v)})
    return fails


def pal_case(L, rng):
    ee = rng.uniform(0, 0.9)
    w = rng.uniform(0, TP)
    h, k = ee * math.sin(w), ee * math.cos(w)
    ii = rng.uniform(0, 1.8)
    O = rng.uniform(0, TP)
    ix, iy = ii * math.cos(O), ii * math.sin(O)
    c = {"G": 1.0, "t": 0.0, "prim": [rng.uniform(0.5, 2)] + [rng.gauss(0, 1) for _ in range(6)], "m": rng.choice([0.0, 1e-3])}
    a = 10 ** rng.uniform(-2, 3)
    l = rng.choice([0.0, TP, rng.uniform(-TP, 2 * TP)])
    kw = {"a": a, "h": h, "k": k, "ix": ix, "iy": iy, "l": l}
    comps, o, err = build(L, c, kw, want_pal=True)
    c.update(kw)
    if err or o is None:
        return c, [{"what": "valid Pal elements rejected or non-finite", "error": err, "particle": comps}]
    o, (pa, pl, pk, ph, pix, piy) = o
    fails = []
    ce = 1 / (1 - ee)
    tol = 1e-8 * ce * ce / max(1e-3, (2 - ii))
    # inverse routine reb_tools_particle_to_pal
    if abs(pa - a) > tol * a: fails.append({"what": "Pal a not recovered (particle_to_pal)", "got": pa})
    if abs(ph - h) > tol or abs(pk - k) > tol: fails.append({"what": "Pal h,k not recovered (particle_to_pal)", "got": (ph, pk)})
    if abs(pix - ix) > tol or abs(piy - iy) > tol: fails.append({"what": "Pal ix,iy not recovered (particle_to_pal)", "got": (pix, piy)})
    if angdiff(pl, l) > 1e-6 + tol: fails.append({"what": "Pal lambda not recovered (particle_to_pal)", "got": pl})
    # the same through reb_orbit_from_particle (its l follows the retrograde convention for inc > pi/2: compare l for prograde only)
    if abs(o.a - a) > tol * a: fails.append({"what": "Pal a not recovered", "got": o.a})
    if abs(o.pal_h - h) > tol or abs(o.pal_k - k) > tol: fails.append({"what": "Pal h,k not recovered", "got": (o.pal_h, o.pal_k)})
    if abs(o.pal_ix - ix) > tol or abs(o.pal_iy - iy) > tol: fails.append({"what": "Pal ix,iy not recovered", "got": (o.pal_ix, o.pal_iy)})
    if ee > 1e-3 and ii < 1.4 and angdiff(o.l, l) > 1e-6 + tol: fails.append({"what": "Pal l not recovered", "got": o.l})
    return c, fails


# ----------------------------------------------------------------------------- rejection sweep / silent NaN
def reject_sweep(ctx, L):
    """every invalid or ambiguous argument set must raise; nothing may silently give a non-finite particle"""
    base = {"G": 1.0, "t": 0.0, "prim": [1.0, 0, 0, 0, 0, 0, 0], "m": 1e-3}
    must = [
        ("e=1", dict(a=1., e=1.)), ("e<0", dict(a=1., e=-0.1)), ("e>1,a>0", dict(a=1., e=1.5)), ("e<1,a<0", dict(a=-1., e=0.5)),
        ("f beyond asymptote", dict(a=-1., e=2., f=2.5)), ("f beyond asymptote (neg)", dict(a=-1., e=2., f=-2.5)),
        ("omega+pomega", dict(a=1., omega=0.1, pomega=0.2)), ("a+P", dict(a=1., P=1.)), ("no a, no P", dict(e=0.1)),
        ("cart+orb", dict(a=1., x=1.)), ("pal+e", dict(a=1., h=0.1, e=0.1)), ("pal+f", dict(a=1., k=0.1, f=0.1)),
        ("ix^2+iy^2>4", dict(a=1., ix=1.5, iy=1.5)),
        ("a=0", dict(a=0.)), ("a=0,e", dict(a=0., e=0.5, f=1.0)), ("P=0", dict(P=0.)), ("a=0,pal", dict(a=0., h=0.1)),
        ("pal e>=1", dict(a=1., h=0.8, k=0.6)), ("pal e>1", dict(a=1., h=1.0, k=0.5)),
        ("nan e", dict(a=1., e=float("nan"))), ("nan x", dict(x=float("nan"))), ("nan a", dict(a=float("nan"), P=1.)),
        ("nan h", dict(a=1., h=float("nan"))), ("nan r", dict(a=1., r=float("nan"))),
    ]
    longs = ["f", "M", "E", "l", "theta", "T"]
    for i in range(6):
        for j in range(i + 1, 6):
            must.append(("two anomalies %s,%s" % (longs[i], longs[j]), {"a": 1., longs[i]: 0.1, longs[j]: 0.2}))
    for nme, kw in must:
        ctx.evaluations += 1
        comps, o, err = build(L, base, kw)
        if err is None:
            ctx.violation("reject:" + nme, {"kind": "reject", "kw": kw, "particle": comps}, True,
                          "invalid/ambiguous arguments (%s) are accepted by the Python front end" % nme)
    # massless primary
    ctx.evaluations += 1
    comps, o, err = build(L, dict(base, prim=[0.0, 0, 0, 0, 0, 0, 0], m=0.0), dict(a=1.))
    if err is None:
        ctx.violation("reject:massless primary", {"kind": "reject", "kw": {"a": 1.}, "particle": comps}, True, "massless primary accepted")
    # the C routine directly
    for nme, (a, e, f), code in [("e=1", (1., 1., 0.), 1), ("e<0", (1., -0.5, 0.), 2), ("e>1,a>0", (1., 2., 0.), 3),
                                 ("e<1,a<0", (-1., 0.5, 0.), 4), ("asymptote", (-1., 2., 3.), 5), ("a=0", (0., 0.5, 0.), 15),
                                 ("a=-0", (-0., 2.0, 0.), 15)]:
        err = ctypes.c_int(0)
        p = L.clib.reb_particle_from_orbit_err(1.0, L.mk_prim(base["prim"]), 0.0, a, e, 0.1, 0.2, 0.3, f, ctypes.byref(err))
        ctx.evaluations += 1
        if err.value != code or finite(p.x):
            ctx.violation("reject:c:" + nme, {"kind": "reject-c", "a": a, "e": e, "f": f, "err": err.value, "x": p.x}, True,
                          "reb_particle_from_orbit_err does not reject %s with code %d and a NaN particle" % (nme, code))
    # inputs that are accepted must give finite particles (finite inputs only)
    silent = [("silent-nan:a=0", dict(a=0.)), ("silent-nan:a=0", dict(a=0., e=0.5, f=1.0)), ("silent-nan:a=0", dict(P=0.)),
              ("silent-nan:pal-e>=1", dict(a=1., h=0.8, k=0.6)), ("silent-nan:pal-e>=1", dict(a=1., h=1.0, k=0.5)),
              ("silent-nan:other", dict(a=1., ix=2.0, iy=0.0)), ("silent-nan:other", dict(a=-1., e=1.5, M=0.)),
              ("silent-nan:other", dict(a=-1., e=1.5, T=0.)), ("silent-nan:other", dict(a=1., e=0., inc=math.pi)),
              ("silent-nan:other", dict(a=1e-300, e=0.5)), ("silent-nan:other", dict(a=1., e=1 - 1e-16, f=math.pi)),
              ("silent-nan:other", dict(P=-1.0)), ("silent-nan:other", dict(a=1., h=0.6, k=0.6, l=1.0))]
    for key, kw in silent:
        ctx.evaluations += 1
        comps, o, err = build(L, base, kw)
        if err is None and comps is not None and not finite(*comps):
            ctx.violation(key, {"kind": "silent-nan", "kw": kw, "particle": comps}, True,
                          "finite arguments %s are accepted and give a non-finite particle without any error" % kw)


# ----------------------------------------------------------------------------- element getters / setters of Particle
GETTERS = ["a", "e", "inc", "Omega", "omega", "pomega", "f", "M", "l", "theta", "T", "P", "n", "d", "v", "h", "rhill",
           "pal_h", "pal_k", "pal_ix", "pal_iy"]
ANGLES = {"Omega", "omega", "pomega", "f", "M", "l", "theta"}
SETTERS = ["a", "P", "e", "inc", "Omega", "omega", "pomega", "f", "M", "l", "theta", "T", "pal_h", "pal_k", "pal_ix", "pal_iy"]


def _mk(L, t, mode, rng, two_body):
    rb = L.rebound
    sim = rb.Simulation()
    if mode == "set":
        sim.t = t
    sim.add(m=1.0)
    sim.add(m=rng.choice([0.0, 1e-3]), a=rng.uniform(0.8, 1.5), e=rng.uniform(0.05, 0.6), inc=rng.uniform(0.1, 1.2),
            Omega=rng.uniform(0.2, 6), omega=rng.uniform(0.2, 6), f=rng.uniform(0.2, 6))
    if not two_body:
        sim.add(m=1e-5, a=rng.uniform(4, 6), e=rng.uniform(0.05, 0.3), inc=rng.uniform(0.1, 0.5), Omega=1.0, omega=2.0, f=rng.uniform(0, 6))
    if mode == "integrate" and t != 0:
        sim.integrator = "ias15"
        sim.dt = 0.01 * (1 if t > 0 else -1)
        sim.integrate(t)
    return sim


def element_api(ctx, L):
    """every element getter and setter of rebound.Particle on particles that live in a simulation whose clock is
    t in {0, 12.5, -3} (set directly / reached by integrate)"""
    rng = ctx.rng
    D = ctypes.c_double
    clib = L.clib
    clib.reb_orbit_from_particle.restype = L.rebound.Orbit
    clib.reb_orbit_from_particle.argtypes = [D, L.rebound.Particle, L.rebound.Particle]
    clib.reb_simulation_jacobi_com.restype = L.rebound.Particle
    fails = {}

    def fail(key, rep):
        fails.setdefault(key, rep)
    for t in (0.0, 12.5, -3.0):
        for mode in ("set", "integrate"):
            for rep_i in range(ctx.scale(2, 12)):
                # ---- getters: all read routes agree, T and M are tied by the simulation clock
                sim = _mk(L, t, mode, rng, two_body=True)
                ps = sim.particles
                p = ps[1]
                o = p.orbit()
                ox = p.orbit(primary=ps[0])
                oc = clib.reb_orbit_from_particle(sim.G, p, clib.reb_simulation_jacobi_com(ctypes.byref(p)))
                os_ = sim.orbits()[0]
                desc = {"kind": "element-api", "t": sim.t, "mode": mode, "state": [p.m, p.x, p.y, p.z, p.vx, p.vy, p.vz]}
                for g in GETTERS:
                    ctx.evaluations += 1
                    v = getattr(p, g)
                    ref = getattr(o, g)
                    if not (v == ref or (v != v and ref != ref)):
                        fail("api:getter-" + g, dict(desc, what="p.%s differs from p.orbit().%s" % (g, g), got=v, want=ref))
                    if not (getattr(oc, g) == ref):
                        fail("api:c-route-" + g, dict(desc, what="reb_orbit_from_particle differs from p.orbit() in " + g, got=getattr(oc, g), want=ref))
                    # two-body: the Jacobi primary of particle 1 IS particle 0 (up to one rounding of x*m/m)
                    for nme, oo in (("p.orbit(primary=particles[0])", ox), ("sim.orbits()", os_)):
                        w = getattr(oo, g)
                        bad = angdiff(w, ref) > 1e-7 if g in ANGLES else abs(w - ref) > 1e-7 * (1 + abs(ref))
                        if bad:
                            fail("api:routes-" + g, dict(desc, what="%s.%s differs from p.orbit().%s" % (nme, g, g), got=w, want=ref))
                if angdiff((sim.t - o.T) * abs(o.n), o.M) > 1e-7 * (1 + abs(sim.t) * abs(o.n)):
                    fail("api:T-clock", dict(desc, what="(sim.t - p.T)|n| != M (mod 2pi): T is not measured on the simulation clock",
                                             T=o.T, M=o.M, n=o.n))
                # ---- T is constant along a two-body orbit (modulo the period)
                if o.e < 1:
                    T0, P0 = o.T, o.P
                    sim.integrator = "ias15"
                    sim.integrate(sim.t + rng.uniform(0.3, 2.0) * (1 if t >= 0 else -1))
                    o2 = sim.particles[1].orbit()
                    ctx.evaluations += 1
                    dT = math.fmod(o2.T - T0, P0)
                    dT = min(abs(dT), abs(abs(dT) - abs(P0)))
                    if dT > 1e-6 * abs(P0):
                        fail("api:T-constant", dict(desc, what="T changes along a two-body orbit", T_before=T0, T_after=o2.T, P=P0, t_after=sim.t))
                # ---- sim.orbits() against the per-particle routes in a three-body system (Jacobi by default, or explicit primary)
                sim3 = _mk(L, t, mode, rng, two_body=False)
                os3 = sim3.orbits()
                osx = sim3.orbits(primary=sim3.particles[0])
                for i3 in range(sim3.N - 1):
                    pj = sim3.particles[i3 + 1]
                    oj, ojx = pj.orbit(), pj.orbit(primary=sim3.particles[0])
                    for g in GETTERS:
                        ctx.evaluations += 1
                        for nme, got, want, tol in (("sim.orbits()[%d]" % i3, getattr(os3[i3], g), getattr(oj, g), 1e-8),
                                                    ("sim.orbits(primary=particles[0])[%d]" % i3, getattr(osx[i3], g), getattr(ojx, g), 0.0)):
                            bad = angdiff(got, want) > tol if (g in ANGLES and tol > 0) else abs(got - want) > tol * (1 + abs(want))
                            if bad:
                                fail("api:orbits", {"kind": "element-api", "t": sim3.t, "mode": mode, "index": i3 + 1,
                                                         "what": "%s.%s differs from particles[%d].orbit(...).%s" % (nme, g, i3 + 1, g),
                                                         "got": got, "want": want})
                # ---- setters: set then get; the other elements keep their values
                for sname in SETTERS:
                    sim = _mk(L, t, mode, rng, two_body=False)
                    idx = rng.choice([1, 2])
                    p = sim.particles[idx]
                    o0 = p.orbit()
                    if sname in ANGLES:
                        val = rng.uniform(0.1, 6.1)
                    elif sname == "a":
                        val = o0.a * rng.uniform(0.7, 1.4)
                    elif sname == "P":
                        val = o0.P * rng.uniform(0.7, 1.4)
                    elif sname == "e":
                        val = rng.uniform(0.05, 0.7)
                    elif sname == "inc":
                        val = rng.uniform(0.1, 1.3)
                    elif sname == "T":
                        val = sim.t + rng.uniform(-0.45, 0.45) * o0.P
                    elif sname in ("pal_h", "pal_k"):
                        val = rng.uniform(-0.3, 0.3)
                    else:
                        val = rng.uniform(-0.5, 0.5)
                    ctx.evaluations += 1
                    d2 = {"kind": "element-api", "t": sim.t, "mode": mode, "index": idx, "setter": sname, "value": val,
                          "state": [p.m, p.x, p.y, p.z, p.vx, p.vy, p.vz]}
                    try:
                        setattr(p, sname, val)
                    except Exception as ex:
                        fail("api:setter-" + sname, dict(d2, what="setter raised %r" % (ex,)))
                        continue
                    o1 = p.orbit()
                    got = getattr(p, sname)
                    if sname in ANGLES:
                        bad = angdiff(got, val) > 1e-6
                    elif sname == "T":
                        dd = math.fmod(got - val, o1.P)
                        bad = min(abs(dd), abs(abs(dd) - abs(o1.P))) > 1e-7 * abs(o1.P)
                    else:
                        bad = abs(got - val) > 1e-7 * (1 + abs(val))
                    if bad:
                        fail("api:setter-" + sname, dict(d2, what="p.%s = x; p.%s gives something else" % (sname, sname), got=got))
                    # invariance of what the setter is documented to keep (shape / orientation)
                    cl = ["a", "e", "inc", "Omega", "omega", "f"]
                    keep = {"a": [x for x in cl if x != "a"], "P": [x for x in cl if x != "a"], "e": [x for x in cl if x != "e"],
                            "inc": [x for x in cl if x != "inc"], "Omega": [x for x in cl if x != "Omega"],
                            "omega": [x for x in cl if x != "omega"], "pomega": ["a", "e", "inc", "Omega", "f"],
                            "f": cl[:5], "M": cl[:5], "l": cl[:5], "theta": cl[:5], "T": cl[:5],
                            "pal_h": ["a", "pal_k", "pal_ix", "pal_iy"], "pal_k": ["a", "pal_h", "pal_ix", "pal_iy"],
                            "pal_ix": ["a", "pal_h", "pal_k", "pal_iy"], "pal_iy": ["a", "pal_h", "pal_k", "pal_ix"]}[sname]
                    for kname in keep:
                        b0, b1 = getattr(o0, kname), getattr(o1, kname)
                        moved = angdiff(b1, b0) > 1e-6 if kname in ANGLES else abs(b1 - b0) > 1e-7 * (1 + abs(b0))
                        if moved:
                            fail("api:setter-" + sname, dict(d2, what="p.%s = x changed %s" % (sname, kname), before=getattr(o0, kname), after=getattr(o1, kname)))
                    if angdiff((sim.t - o1.T) * abs(o1.n), o1.M) > 1e-7 * (1 + abs(sim.t) * abs(o1.n)):
                        fail("api:T-clock", dict(d2, what="after the setter (sim.t - p.T)|n| != M (mod 2pi)", T=o1.T, M=o1.M, n=o1.n))
    ctx.nontrivial.add(("element-api", len(GETTERS), len(SETTERS)))
    for key, rep in fails.items():
        ctx.violation(key, rep, True, "Particle element API: " + rep["what"])


# ----------------------------------------------------------------------------- the k-th planet: primary / jacobi_masses
def nbody_roundtrips(ctx, L, drv_run):
    """k-th planet (k = 1..4) created in a simulation that already holds k-1 massive planets, with the orbit's size given
    as a or P and its phase as f / M / E / l / theta / T, jacobi_masses False / True, primary default / explicit
    particles[0] (a copy) / explicit centre of mass; read back with the MATCHING primary and mass convention."""
    rb = L.rebound
    clib = L.clib
    clib.reb_simulation_com.restype = rb.Particle
    rng = ctx.rng
    fails = {}
    c_cases = []
    for rep in range(ctx.scale(1, 6)):
      for k in (1, 2, 3, 4):
        for size in ("a", "P"):
            for an in ("f", "M", "E", "l", "theta", "T"):
                for jm in (False, True):
                    for pmode in ("default", "particle", "com"):
                        if jm and pmode != "default":
                            continue           # jacobi_masses replaces the mass of the primary: documented for the default primary
                        sim = rb.Simulation()
                        sim.G = rng.choice([1.0, 39.47841760435743])
                        sim.t = rng.choice([0.0, 2.5, -1.5])
                        sim.add(m=rng.uniform(0.5, 2))
                        for j in range(k - 1):
                            sim.add(m=10 ** rng.uniform(-3.5, -2.3), a=1.0 + 0.6 * j, e=rng.uniform(0, 0.05), f=rng.uniform(0, 6))
                        masses0 = [p.m for p in sim.particles]
                        m = rng.choice([0.0, 10 ** rng.uniform(-5, -3)])
                        e, inc, Om, om = rng.uniform(0.05, 0.5), rng.uniform(0.1, 1.0), rng.uniform(0.3, 6), rng.uniform(0.3, 6)
                        val = rng.uniform(3, 6) if size == "a" else rng.uniform(4, 25)
                        av = rng.uniform(0.3, 6) if an != "T" else sim.t + rng.uniform(-1.5, 1.5)
                        kw = {"m": m, size: val, "e": e, "inc": inc, "Omega": Om, "omega": om, an: av}
                        if pmode == "particle":
                            prim = sim.particles[0].copy(); kw["primary"] = prim
                        elif pmode == "com":
                            prim = clib.reb_simulation_com(ctypes.byref(sim)); kw["primary"] = prim
                        else:
                            prim = None
                        desc = {"kind": "nbody", "k": k, "size": size, "anomaly": an, "jacobi_masses": jm, "primary": pmode,
                                "G": sim.G, "t": sim.t, "masses": masses0, "kw": {a: b for a, b in kw.items() if a != "primary"}}
                        ctx.evaluations += 1
                        try:
                            sim.add(jacobi_masses=jm, **kw)
                        except Exception as ex:
                            fails.setdefault("nbody:rejected", dict(desc, what="valid request rejected: %r" % (ex,)))
                            continue
                        if [p.m for p in sim.particles][:len(masses0)] != masses0:
                            fails.setdefault("nbody:masses-changed", dict(desc, what="adding a particle changed the masses of existing particles",
                                                                          after=[p.m for p in sim.particles]))
                        p = sim.particles[sim.N - 1]
                        if jm:
                            o = sim.orbits(jacobi_masses=True)[sim.N - 2]
                        elif prim is None:
                            o = p.orbit()
                        else:
                            o = p.orbit(primary=prim)
                        bad = []
                        if size == "a" and abs(o.a - val) > 1e-9 * val: bad.append(("a", o.a, val))
                        if size == "P" and abs(o.P - val) > 1e-9 * val: bad.append(("P", o.P, val))
                        if abs(o.e - e) > 1e-9: bad.append(("e", o.e, e))
                        if abs(o.inc - inc) > 1e-7: bad.append(("inc", o.inc, inc))
                        if angdiff(o.Omega, Om) > 1e-7: bad.append(("Omega", o.Omega, Om))
                        if angdiff(o.omega, om) > 1e-6: bad.append(("omega", o.omega, om))
                        got = {"f": o.f, "M": o.M, "l": o.l, "theta": o.theta, "T": o.T}.get(an)
                        if an == "E":
                            got = math.atan2(math.sqrt(1 - o.e ** 2) * math.sin(o.f), o.e + math.cos(o.f))
                        if an == "T":
                            dd = math.fmod(got - av, o.P); dd = min(abs(dd), abs(abs(dd) - abs(o.P)))
                            if dd > 1e-6 * abs(o.P): bad.append(("T", got, av))
                        elif angdiff(got, av) > 1e-5: bad.append((an, got, av))
                        if bad:
                            fails.setdefault("nbody:roundtrip", dict(desc, what="k-th planet: %s not read back" % ", ".join(b[0] for b in bad), mismatches=bad))
                        # the same request through C (reb_simulation_add_fmt has no jacobi_masses; its default primary is the same centre of mass)
                        if not jm and drv_run is not None and len(c_cases) < 400:
                            cm = prim if prim is not None else None
                            c_cases.append((desc, kw, sim, p))
    # creating a particle must not modify the particles that are already there (primary passed as a member of the simulation)
    for jm in (False, True):
        sim = rb.Simulation(); sim.add(m=1.0); sim.add(m=1e-3, a=1.0)
        before = [p.m for p in sim.particles]
        ctx.evaluations += 1
        sim.add(m=1e-3, a=2.0, primary=sim.particles[0], jacobi_masses=jm)
        after = [p.m for p in sim.particles][:2]
        if after != before:
            fails.setdefault("nbody:primary-mass-modified", {"kind": "nbody", "jacobi_masses": jm, "before": before, "after": after,
                "what": "sim.add(m=1e-3, a=2., primary=sim.particles[0], jacobi_masses=%s) changed particles[0].m" % jm})
    for key, rep in fails.items():
        ctx.violation(key, rep, True, "k-th planet with primary / jacobi_masses: " + rep["what"])
    ctx.nontrivial.add(("nbody",))


# ----------------------------------------------------------------------------- the edges of the quantified space
def edge_corners(ctx, L):
    """degenerate corners: infinite arguments, signed zeros, e next to 1, primary mass at the TINY threshold, particles that
    have no orbit (particles[0], not in a simulation), Kepler conversions at extreme M, and the simulation after an error."""
    rb = L.rebound
    inf = float("inf")
    base = {"G": 1.0, "t": 0.0, "prim": [1.0, 0, 0, 0, 0, 0, 0], "m": 1e-3}
    fails = {}
    # -- infinite arguments: must raise or give a finite particle (x=inf gives an infinite, not a NaN, Cartesian particle)
    for kw in (dict(a=inf), dict(a=-inf, e=2.0), dict(P=inf), dict(a=1., inc=inf), dict(a=1., Omega=inf), dict(a=1., omega=-inf),
               dict(a=1., pomega=inf), dict(a=1., f=inf), dict(a=1., M=inf), dict(a=1., E=inf), dict(a=1., l=inf), dict(a=1., theta=inf),
               dict(a=1., T=inf), dict(a=1., h=0.1, l=inf), dict(a=1., e=inf), dict(a=1., h=inf), dict(a=1., ix=inf)):
        ctx.evaluations += 1
        comps, o, err = build(L, base, kw)
        if err is None and comps is not None and any(x != x for x in comps):
            fails.setdefault("silent-nan:infinite-argument", {"kind": "silent-nan", "kw": {k: str(v) for k, v in kw.items()}, "particle": [str(x) for x in comps],
                "what": "an infinite argument (%s) is accepted and silently gives a particle with NaN coordinates" % kw})
    # -- signed zeros, e next to 1, exactly planar, a at 1e-140 / 1e140 (reb_orbit_from_particle squares distances and speeds:
    #    beyond about 1e-154 / 1e154 its norms underflow / overflow in binary64; not judged)
    na, nb = math.nextafter(1.0, 0.0), math.nextafter(1.0, 2.0)
    for kw, want in ((dict(a=-0.0), "raise"), (dict(P=-0.0), "raise"), (dict(a=1., e=-0.0), "ok"), (dict(a=1., inc=-0.0, Omega=-0.0, f=-0.0), "ok"),
                     (dict(a=1., e=na), "ok"), (dict(a=1., e=na, f=math.pi), "ok"), (dict(a=1., e=na, M=1e-3), "ok"), (dict(a=1., e=na, E=math.pi), "ok"),
                     (dict(a=-1., e=nb), "ok"), (dict(a=-1., e=nb, M=1e-3), "ok"), (dict(a=1., e=1.0, E=0.0), "raise"), (dict(a=1., e=nb), "raise"),
                     (dict(a=1e-140, e=0.3, f=1.0), "ok"), (dict(a=1e140, e=0.3, f=1.0), "ok"), (dict(a=1., inc=math.pi, Omega=0.3, omega=0.2, f=0.1), "ok")):
        ctx.evaluations += 1
        comps, o, err = build(L, base, kw)
        if want == "raise" and err is None:
            fails.setdefault("edge:accepted", {"kind": "edge", "kw": kw, "what": "edge input %s must be rejected" % kw, "particle": comps})
        if want == "ok":
            if err is not None or comps is None or not finite(*comps):
                fails.setdefault("edge:rejected-or-nonfinite", {"kind": "edge", "kw": kw, "error": err, "particle": comps,
                                 "what": "valid edge input %s is rejected or gives a non-finite particle" % kw})
            elif o is not None and "e" in kw and abs(kw["e"]) > 0 and not (abs(o.e - kw["e"]) < 1e-6 and abs(o.a - kw["a"]) < 1e-5 * abs(kw["a"]) * (1 + 1 / max(1e-300, abs(1 - kw["e"])) * 1e-9)):
                if abs(1 - kw["e"]) > 1e-12:      # next to e = 1 the read-back of a loses all digits (a = -mu/(v^2 - 2mu/d)): not judged
                    fails.setdefault("edge:roundtrip", {"kind": "edge", "kw": kw, "got": (o.a, o.e), "what": "a, e not read back at the edge %s" % kw})
    # -- a primary whose mass is exactly the threshold TINY = 1e-308: what can be created must be readable
    for pmass in (1e-308, math.nextafter(1e-308, 1.0), 1e-307):
        ctx.evaluations += 1
        sim = rb.Simulation(); sim.add(m=pmass)
        try:
            sim.add(a=1.0, e=0.1)
        except ValueError:
            continue
        try:
            o = sim.particles[1].orbit(primary=sim.particles[0])
            if not (abs(o.a - 1.0) < 1e-9):
                fails.setdefault("edge:primary-mass-TINY", {"kind": "edge", "primary_mass": pmass, "what": "orbit about a primary of mass %r not read back" % pmass, "a": o.a})
        except ValueError as ex:
            fails.setdefault("edge:primary-mass-TINY", {"kind": "edge", "primary_mass": pmass,
                "what": "a particle can be created around a primary of mass %r but its orbit cannot be read back (%s)" % (pmass, ex)})
    # -- particles without an orbit must raise, never return garbage
    sim = rb.Simulation(); sim.add(m=1.); sim.add(a=1.)
    for label, fn in (("particles[0].a", lambda: sim.particles[0].a), ("particles[0].orbit()", lambda: sim.particles[0].orbit()),
                      ("Particle(m=1).orbit()", lambda: rb.Particle(m=1.).orbit()), ("Particle().T", lambda: rb.Particle(m=1., x=1.).T)):
        ctx.evaluations += 1
        try:
            v = fn()
            fails.setdefault("edge:no-orbit", {"kind": "edge", "what": "%s returned %r instead of raising" % (label, v)})
        except (ValueError, RuntimeError, AttributeError):
            pass
    # -- the same simulation after an error has been raised: nothing added, and it keeps working like a fresh one
    for bad in (dict(a=1., e=1.), dict(a=1., x=1.), dict(a=0.), dict(a=1., f=1., M=1.), dict(a=1., e=float("nan")), dict(a=-1., e=2., f=3.)):
        ctx.evaluations += 1
        s1 = rb.Simulation(); s1.add(m=1.); s1.add(m=1e-3, a=1., e=0.1, f=0.4)
        s2 = rb.Simulation(); s2.add(m=1.); s2.add(m=1e-3, a=1., e=0.1, f=0.4)
        n0 = s1.N
        try:
            s1.add(**bad)
            fails.setdefault("edge:after-error", {"kind": "edge", "kw": {k: str(v) for k, v in bad.items()}, "what": "invalid request %s accepted" % bad})
            continue
        except ValueError:
            pass
        good = dict(m=1e-4, a=2.5, e=0.2, inc=0.3, Omega=1., omega=2., M=0.7)
        s1.add(**good); s2.add(**good)
        a, b = s1.particles[s1.N - 1], s2.particles[s2.N - 1]
        if s1.N != n0 + 1 or (a.x, a.y, a.z, a.vx, a.vy, a.vz) != (b.x, b.y, b.z, b.vx, b.vy, b.vz) or s1.particles[1].a != s2.particles[1].a:
            fails.setdefault("edge:after-error", {"kind": "edge", "kw": {k: str(v) for k, v in bad.items()}, "N": s1.N,
                             "what": "after the rejected request %s the simulation does not behave like a fresh one" % bad})
    # -- Kepler conversions at the edges of the double range: finite M gives finite, in-range results
    for e, M in ((0.5, 1e15), (0.5, -1e15), (0.5, 1e300), (0.0, 1e300), (na, 1e-9), (na, math.pi), (na, 1e300), (nb, 1e-9), (nb, -1e-9),
                 (1.5, 1e300), (1.5, -1e300), (50.0, 1e-300), (5e-324, 1.0), (0.0, -0.0), (1.5, -0.0), (0.9999, 2 * math.pi), (0.5, 5e-324)):
        ctx.evaluations += 1
        E = L.clib.reb_M_to_E(e, M); f = L.clib.reb_M_to_f(e, M)
        if not finite(E, f) or not (0 <= f < TP) or (e < 1 and not (0 <= E < TP)):
            fails.setdefault("edge:kepler", {"kind": "edge", "e": e, "M": M, "E": E, "f": f, "what": "reb_M_to_E/reb_M_to_f(%r, %r) not finite / out of range" % (e, M)})
    ctx.nontrivial.add(("edges",))
    for key, rep in fails.items():
        ctx.violation(key, rep, True, "edge of the domain: " + rep["what"])


def search(ctx, L):
    nk = kepler_search(ctx, L)
    rng = ctx.rng
    nrt = ctx.scale(1200, 30000)
    first = None
    kinds = {}
    for i in range(nrt):
        c = gen_orbit(rng)
        fails = roundtrip_case(L, c, rng)
        ctx.evaluations += 1
        key = ("rt", c["e"] == 0, c["e"] > 1, c["inc"] in (0.0, math.pi), math.cos(c["inc"]) > 0)
        ctx.nontrivial.add(key)
        kinds["e0=%s hyp=%s planar=%s prograde=%s" % key[1:]] = kinds.get("e0=%s hyp=%s planar=%s prograde=%s" % key[1:], 0) + 1
        if fails and first is None:
            first = {"kind": "roundtrip", "case": c, "failures": fails[:4]}
    if first:
        ctx.violation("roundtrip:" + first["failures"][0]["what"].split(":")[0][:40], first, True,
                      "element round trip fails on the library: " + first["failures"][0]["what"])
    firstp = {}
    for i in range(ctx.scale(300, 5000)):
        c, fails = pal_case(L, rng)
        ctx.evaluations += 1
        if fails:
            ee = math.hypot(c.get("h", 0), c.get("k", 0))
            agot = [f["got"] for f in fails if " a " in f["what"]]
            small = all(abs(g - c["a"]) < 1e-3 * c["a"] for g in agot) and \
                not any("rejected" in f["what"] for f in fails)
            key = "roundtrip:pal-low-e-solver-accuracy" if (0.19 < ee < 0.3 and small) else "roundtrip:pal"
            firstp.setdefault(key, {"kind": "pal", "case": c, "failures": fails})
    ctx.nontrivial.add(("pal",))
    for key, rep in firstp.items():
        ctx.violation(key, rep, True, "Pal element round trip fails: " + rep["failures"][0]["what"])
    reject_sweep(ctx, L)
    element_api(ctx, L)
    nbody_roundtrips(ctx, L, None)
    edge_corners(ctx, L)
    ctx.extra["searcher"] = {"kepler_points": nk, "roundtrips": nrt, "roundtrip_classes": kinds}


def replay(ctx, L, r):
    kind = r.get("kind")
    if kind == "kepler":
        print("re-run:", kepler_point(L, r["e"], r["M"]))
    elif kind == "roundtrip":
        print("re-run:", roundtrip_case(L, r["case"], ctx.rng))
    elif kind in ("reject", "silent-nan"):
        print("re-run:", build(L, {"G": 1.0, "t": 0.0, "prim": [1.0, 0, 0, 0, 0, 0, 0], "m": 1e-3}, r["kw"])[::2])
    return 1
