/* C01 correspondence driver: runs ONE step (or step, step, synchronize with safe_mode 0) of a chosen
   composition integrator on a fixed 3-body system. It is run under `gdb -batch` against a -O0 -g build of the
   library from the current tree; breakpoints on the operator functions log (operator, argument).
   usage: c01_driver <integrator> <opt1> <opt2> <opt3> <mode:step|unsync> <dt>
     saba   type  -     -          whfast kernel corrector coordinates(+100: corrector2)     eos phi0 phi1 n      janus order - -   */
#include <stdio.h>
#include <stdlib.h>
#include <string.h>
#include <math.h>
#include "rebound.h"
static double OMEGA = 1.0;
static void osc_rhs(struct reb_ode* const ode, double* const yDot, const double* const y, const double t){
    (void)ode; (void)t;
    yDot[0] = y[1]; yDot[1] = -OMEGA*OMEGA*y[0];
}
/* "ode:<integrator>"  o1 = 10*omega*dt, o2 = SABA type, o3 = number of N-body steps: a harmonic oscillator as user ODE */
static int ode_mode(const char* integ, int o1, int o2, int o3, double dt){
    struct reb_simulation* r = reb_simulation_create();
    struct reb_particle p = {0};
    p.m = 1.0; reb_simulation_add(r, p);
    p.m = 1e-3; p.x = 1.0; p.y = 0.02; p.z = 0.01; p.vx = -0.01; p.vy = 1.0; p.vz = 0.02; reb_simulation_add(r, p);
    p.m = 5e-4; p.x = -0.1; p.y = 2.3; p.z = -0.03; p.vx = -0.65; p.vy = -0.02; p.vz = 0.01; reb_simulation_add(r, p);
    reb_simulation_move_to_com(r);
    r->dt = dt;
    if (!strcmp(integ, "whfast")) r->integrator = REB_INTEGRATOR_WHFAST;
    else if (!strcmp(integ, "leapfrog")) r->integrator = REB_INTEGRATOR_LEAPFROG;
    else if (!strcmp(integ, "saba")){ r->integrator = REB_INTEGRATOR_SABA; r->ri_saba.type = o2; }
    else if (!strcmp(integ, "ias15")) r->integrator = REB_INTEGRATOR_IAS15;
    else if (!strcmp(integ, "mercurius")) r->integrator = REB_INTEGRATOR_MERCURIUS;
    else if (!strcmp(integ, "trace")) r->integrator = REB_INTEGRATOR_TRACE;
    else if (!strcmp(integ, "eos")) r->integrator = REB_INTEGRATOR_EOS;
    else if (!strcmp(integ, "janus")){ r->integrator = REB_INTEGRATOR_JANUS; r->ri_janus.order = 4; r->ri_janus.scale_pos = 1e-14; r->ri_janus.scale_vel = 1e-14; }
    else return 2;
    OMEGA = 0.1*o1/fabs(dt);
    r->ri_bs.eps_rel = 1e-8; r->ri_bs.eps_abs = 1e-8;
    struct reb_ode* ode = reb_ode_create(r, 2);
    ode->derivatives = osc_rhs;
    ode->y[0] = 1.0; ode->y[1] = 0.0;
    reb_simulation_steps(r, o3);
    fprintf(stderr, "STATE %.17g %.17g %.17g\n", ode->y[0], ode->y[1], r->t);
    reb_simulation_free(r);
    return 0;
}
/* "ctl:ias15"  o1 = adaptive_mode, o2 = -log10(epsilon), o3 = steps; mode "unsync" sets min_dt = 0.02
   "ctl:bs"     o1 = unused,        o2 = -log10(eps_rel = eps_abs), o3 = steps            (eccentric system, large first dt) */
static int ctl_mode(const char* integ, int o1, int o2, int o3, int with_min_dt, double dt){
    struct reb_simulation* r = reb_simulation_create();
    struct reb_particle p = {0};
    p.m = 1.0; reb_simulation_add(r, p);
    p.m = 1e-3; p.x = 0.4; p.y = 0.01; p.z = 0.01; p.vx = -0.02; p.vy = 2.0; p.vz = 0.03; reb_simulation_add(r, p);
    p.m = 5e-4; p.x = -0.1; p.y = 2.3; p.z = -0.03; p.vx = -0.65; p.vy = -0.02; p.vz = 0.01; reb_simulation_add(r, p);
    reb_simulation_move_to_com(r);
    r->dt = dt;
    double eps = pow(10., -o2);
    if (!strcmp(integ, "ias15")){
        r->integrator = REB_INTEGRATOR_IAS15; r->ri_ias15.adaptive_mode = o1; r->ri_ias15.epsilon = eps;
        r->ri_ias15.min_dt = with_min_dt ? 0.02 : 0.0;
    }else if (!strcmp(integ, "bs")){
        r->integrator = REB_INTEGRATOR_BS; r->ri_bs.eps_rel = eps; r->ri_bs.eps_abs = eps;
        if (with_min_dt){ r->ri_bs.min_dt = 1e-3; r->ri_bs.max_dt = (o1 ? o1 : 5)*0.01; }   /* requested first step may exceed max_dt */
    }else return 2;
    reb_simulation_steps(r, o3);
    fprintf(stderr, "STATE %.17g %.17g %.17g\n", r->particles[1].x, r->particles[1].y, r->t);
    reb_simulation_free(r);
    return 0;
}
int main(int argc, char** argv){
    if (argc < 7) return 2;
    const char* integ = argv[1];
    int o1 = (int)strtol(argv[2], NULL, 0), o2 = (int)strtol(argv[3], NULL, 0), o3 = (int)strtol(argv[4], NULL, 0);
    int unsync = strcmp(argv[5], "unsync") == 0;
    double dt = atof(argv[6]);
    if (!strncmp(integ, "ode:", 4)) return ode_mode(integ + 4, o1, o2, o3, dt);
    if (!strncmp(integ, "ctl:", 4)) return ctl_mode(integ + 4, o1, o2, o3, unsync, dt);
    struct reb_simulation* r = reb_simulation_create();
    struct reb_particle p = {0};
    p.m = 1.0; reb_simulation_add(r, p);
    p.m = 1e-3; p.x = 1.0; p.y = 0.02; p.z = 0.01; p.vx = -0.01; p.vy = 1.0; p.vz = 0.02; reb_simulation_add(r, p);
    p.m = 5e-4; p.x = -0.1; p.y = 2.3; p.z = -0.03; p.vx = -0.65; p.vy = -0.02; p.vz = 0.01; reb_simulation_add(r, p);
    reb_simulation_move_to_com(r);
    r->dt = dt;
    if (!strcmp(integ, "saba")){
        r->integrator = REB_INTEGRATOR_SABA; r->ri_saba.type = o1; r->ri_saba.safe_mode = !unsync;
    }else if (!strcmp(integ, "whfast")){
        r->integrator = REB_INTEGRATOR_WHFAST; r->ri_whfast.kernel = o1; r->ri_whfast.corrector = o2;
        r->ri_whfast.coordinates = o3 % 100; r->ri_whfast.corrector2 = o3 / 100; r->ri_whfast.safe_mode = !unsync;
    }else if (!strcmp(integ, "eos")){
        r->integrator = REB_INTEGRATOR_EOS; r->ri_eos.phi0 = o1; r->ri_eos.phi1 = o2; r->ri_eos.n = o3; r->ri_eos.safe_mode = !unsync;
    }else if (!strcmp(integ, "janus")){
        r->integrator = REB_INTEGRATOR_JANUS; r->ri_janus.order = o1; r->ri_janus.scale_pos = 1e-14; r->ri_janus.scale_vel = 1e-14;
    }else if (!strcmp(integ, "mercurius")){
        r->integrator = REB_INTEGRATOR_MERCURIUS; r->ri_mercurius.safe_mode = !unsync;
    }else if (!strcmp(integ, "trace")){
        r->integrator = REB_INTEGRATOR_TRACE; r->ri_trace.peri_mode = o1;
    }else return 2;
    if (!strcmp(argv[5], "remove")){
        /* safe_mode 0: two steps, synchronize, remove the particle with index 2, two steps, synchronize:
           the internal coordinates must be recomputed (from_inertial) after the removal */
        struct reb_particle q = {0};
        q.m = 3e-4; q.x = 3.9; q.vy = 0.5; reb_simulation_add(r, q);
        if (!strcmp(integ, "whfast")) r->ri_whfast.safe_mode = 0;
        if (!strcmp(integ, "saba")) r->ri_saba.safe_mode = 0;
        reb_simulation_step(r); reb_simulation_step(r);
        reb_simulation_synchronize(r);
        reb_simulation_remove_particle(r, 2, 1);
        reb_simulation_step(r); reb_simulation_step(r);
        reb_simulation_synchronize(r);
        fprintf(stderr, "STATE %.17g %.17g %.17g\n", r->particles[1].x, r->particles[1].y, r->t);
        reb_simulation_free(r);
        return 0;
    }
    if (!strcmp(argv[5], "recalc")){
        /* safe_mode 0; the recalculate-coordinates flag is raised three times while unsynchronized: WHFast must synchronize each time */
        if (!strcmp(integ, "whfast")) r->ri_whfast.safe_mode = 0;
        if (!strcmp(integ, "saba")) r->ri_saba.safe_mode = 0;
        reb_simulation_step(r); reb_simulation_step(r);
        for (int k=0;k<3;k++){
            r->ri_whfast.recalculate_coordinates_this_timestep = 1;
            reb_simulation_step(r);
        }
        reb_simulation_synchronize(r);
        fprintf(stderr, "STATE %.17g %.17g %.17g\n", r->particles[1].x, r->particles[1].y, r->t);
        reb_simulation_free(r);
        return 0;
    }
    reb_simulation_step(r);
    if (unsync){
        reb_simulation_step(r);
        reb_simulation_synchronize(r);
    }
    /* on stderr: gdb writes the operator log to stdout; separate pipes cannot interleave */
    fprintf(stderr, "STATE %.17g %.17g %.17g\n", r->particles[1].x, r->particles[1].y, r->t);
    reb_simulation_free(r);
    return 0;
}
