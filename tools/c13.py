"""C13 — collisions are detected completely and resolved conservatively.

1. proof obligations: coq/C13 (resolve loop + index fix-up refines the id-level loop for every pending order and
   outcome sequence; merge / hardsphere conservation over R; DIRECT enumeration complete and sound; LINE criterion);
2. correspondence (model evaluated by vm_compute vs the library built from the current tree):
   (a) resolve loop: recording collision_resolve callback returning harness-chosen outcomes 0..3; logged
       (p1,p2,gb,hash1,hash2) sequence and final particle order vs resolve_loop on the same pending array
       (direct and tree, keep_sorted on/off, periodic images);
   (b) DIRECT / LINE search at binary64 followed by the rand_r shuffle vs the array the library hands over;
   (c) the whole reb_collision_search with reb_collision_resolve_merge, (d) with reb_collision_resolve_hardsphere:
       log, final hashes and every particle double bit for bit;
3. library-only searcher (always run): exact-rational O(N^2) oracle (overlap & approach, periodic images) vs the
   recorded pairs for direct and tree, closest-approach oracle for line/linetree, conservation after merges,
   id multiset, hardsphere momentum / energy / separation.
"""
import ctypes, math, sys
from fractions import Fraction
import vlib
import c13_lib as L
import c15_lib
import c13_hist as H
import c13_hvf as V

HDR = ("From Coq Require Import List ZArith Bool PrimFloat.\nFrom RV Require Import Common.FloatNum C13.Model C13.TreeModel C13.Hybrid C13.Run.\n"
       "Import ListNotations.\nOpen Scope Z_scope.\nOpen Scope float_scope.\n")


def load(libdir):
    sys.path.insert(0, libdir)
    import rebound
    return rebound


WRONG_PAIRS = []      # filled by the loop correspondence runs (library-only identity check)


def gen_outs(rng, n):
    style = rng.random()
    outs = []
    for _ in range(n):
        u = rng.random()
        if style < 0.2:
            o = rng.choice([1, 2, 3])
        elif u < 0.4:
            o = 0
        elif u < 0.65:
            o = 1
        elif u < 0.9:
            o = 2
        else:
            o = 3
        outs.append(o)
    return outs


def bstr(b):
    return "true" if b else "false"


def fl(xs):
    return vlib.flist(xs)


def zlit(v):
    return "(%d)%%Z" % v


def wf_term(sim, forest):
    """Coq term `wf_forest_case u pos L N roots` for a dumped forest, in the exact integer units of C15 (None if there is none)"""
    box = c15_lib.Box(sim.root_size, sim.N_root_x, sim.N_root_y, sim.N_root_z)
    part = [(sim.particles[i].x, sim.particles[i].y, sim.particles[i].z) for i in range(sim.N)]
    sc = c15_lib.scale_for(box, part)
    if sc is None:
        return None
    ue, u, Lv = sc
    def draw(c):
        return "(C15.Tree.D %s %s %s %s %s [%s])" % (
            zlit(c15_lib.to_units(c["x"], ue)), zlit(c15_lib.to_units(c["y"], ue)), zlit(c15_lib.to_units(c["z"], ue)),
            zlit(c15_lib.to_units(c["w"], ue)), zlit(c["pt"]), "; ".join("None" if d is None else "(Some %s)" % draw(d) for d in c["oct"]))
    try:
        pos = "; ".join("(%s, %s, %s)" % tuple(zlit(c15_lib.to_units(p[a], ue)) for a in range(3)) for p in part)
        roots = []
        for ri, c in enumerate(forest):
            if c is not None:
                fc = box.root_centre_of_index(ri)
                roots.append("((%s, %s, %s), %s)" % (zlit(c15_lib.to_units(fc[0], ue)), zlit(c15_lib.to_units(fc[1], ue)),
                                                    zlit(c15_lib.to_units(fc[2], ue)), draw(c)))
    except (AssertionError, OverflowError, ValueError):
        return None
    return "wf_forest_case %s [%s] %d%%nat %d%%nat [%s]" % (zlit(u), pos, Lv, sim.N, "; ".join(roots))


def box_args(cfg, sim):
    ng = (sim.N_ghost_x, sim.N_ghost_y, sim.N_ghost_z)
    return "%s %s %s (%d)%%Z (%d)%%Z (%d)%%Z" % (vlib.fhex(sim.boxsize.x), vlib.fhex(sim.boxsize.y), vlib.fhex(sim.boxsize.z),
                                        ng[0], ng[1], ng[2])


def run_jobs(ctx, label, kind, terms, chunk):
    """terms: list of Coq terms (one case each); kind: bad_*_cases function. Returns list of bad indices or None"""
    jobs = []
    for c0 in range(0, len(terms), chunk):
        body = HDR + "Definition cases := [\n" + ";\n".join(terms[c0:c0 + chunk]) + "].\n"
        body += "Eval vm_compute in (%s cases).\n" % kind
        jobs.append(("c13_%s_%d" % (label, c0 // chunk), body))
    bad = []
    ok_all = True
    for (name, ok, out), c0 in zip(vlib.coq_eval_many(jobs), range(0, len(terms), chunk)):
        b = vlib.parse_coq_list_nat(out) if ok else None
        if b is None:
            ok_all = False
            ctx.obligation("correspondence:C13:" + name, False, out[-1500:])
        else:
            bad += [c0 + x for x in b]
    return bad if ok_all else None


# ================================================================================================ correspondence
def correspondence(ctx, rebound):
    rng = ctx.rng
    dist = {}
    # ---------- (a) resolve loop with arbitrary outcomes, (b) search + shuffle
    nloop = ctx.scale(400, 4000)
    loop_terms, loop_info, search_terms, search_info = [], [], [], []
    wf_terms, wf_skipped = [], [0]
    wrong_pairs = WRONG_PAIRS
    for k in range(nloop):
        tree = rng.random() < 0.4
        line = rng.random() < (0.3 if tree else 0.2)
        fast = line and rng.random() < 0.5
        cfg = L.gen_cluster(rng, n=rng.choice([8, 12]) if fast else None, tree=tree, line=line,
                            big=tree and not fast and rng.random() < 0.3, fast=fast, weird=not tree)
        cfg["keep"] = 1 if rng.random() < (0.2 if tree else 0.5) else 0
        cfg["nact"] = -1 if rng.random() < 0.6 else rng.randint(0, cfg["N"])
        hyb = False
        if not tree and not line and cfg["N"] >= 1 and rng.random() < 0.4:
            # the resolve loop inside a MERCURIUS / TRACE step (all particles in the encounter map, or star-only modes):
            # both the loop and reb_simulation_remove_particle force keep_sorted there, whatever the user's setting
            hyb = True
            integ, mode = rng.choice([("mercurius", 1), ("mercurius", 1), ("mercurius", 0), ("trace", 1), ("trace", 3), ("trace", 0), ("trace", 2)])
            cfg["hybrid"] = (integ, mode, list(range(cfg["N"])))
            cfg["nact"] = -1
        full, simA = L.record_all(rebound, cfg)
        outs = gen_outs(rng, len(full))
        log, fin, simB = L.record_outcomes(rebound, cfg, outs)
        ids = [1000 + i for i in range(cfg["N"])]
        loop_terms.append("(%s, %s, %s, (%d)%%Z, %s, %s, %s, %s, %s, (%d)%%Z)" % (
            bstr(tree), bstr(hyb), bstr(cfg["keep"]), cfg["nact"], L.zl(ids), L.entries(full), L.zl(outs), L.events(log), L.idps(fin),
            simB.N_active))
        # library-only: every identity pair handed to resolve must be one of the pairs the search found
        found = set((a[3], a[4], a[2]) for a in full)
        wrong = [a for a in log if (a[3], a[4], a[2]) not in found]
        if wrong and not (tree and cfg["keep"]):
            wrong_pairs.append((cfg, outs[:len(log)], wrong[0]))
        loop_info.append(dict(cfg=cfg, outs=outs[:len(log)], pending=len(full)))
        nrem = sum((o & 1) + ((o >> 1) & 1) for *_, o in log)
        key = ("loop", cfg["mode"], cfg["keep"], cfg["periodic"], cfg["N"], min(len(full), 40) // 4, min(nrem, 6))
        ctx.case(key=key, nontrivial=len(full) >= 2,
                 sample={"kind": "loop", "mode": cfg["mode"], "keep_sorted": cfg["keep"], "N": cfg["N"],
                         "pending": len(full), "outcomes": outs[:8]} if k < 2 else None)
        dk = "loop|%s|keep=%d|periodic=%d%s" % (cfg["mode"], cfg["keep"], cfg["periodic"], "|" + cfg["hybrid"][0] + str(cfg["hybrid"][1]) if hyb else "")
        dist[dk] = dist.get(dk, 0) + 1
        if hyb:
            pass          # the search itself under the hybrid integrators is compared in (h)
        elif not tree:
            ba = box_args(cfg, simA)
            if line:
                term = "pending_line %s %s (%d)%%Z %s" % (ba, vlib.fhex(cfg["dt"]), cfg["seed"], L.particles(cfg))
            else:
                term = "pending_direct %s (%d)%%Z %s" % (ba, cfg["seed"], L.particles(cfg))
            search_terms.append("(%s, %s)" % (term, L.entries(full)))
            search_info.append(cfg)
        else:
            # the walk of the model on the library's own tree (dumped through ctypes after the search)
            forest = c15_lib.dump_tree(simA) or []
            ba = box_args(cfg, simA)
            tail = "(%d)%%Z %s %s %s" % (cfg["seed"], vlib.fhex(simA.max_radius[1]), L.particles_from_sim(simA, 0.0), L.roots_term(forest))
            if line:
                term = "pending_linetree %s %s %s" % (ba, vlib.fhex(simA.dt_last_done), tail)
            else:
                term = "pending_tree %s %s" % (ba, tail)
            search_terms.append("(%s, %s)" % (term, L.entries(full)))
            search_info.append(cfg)
            # the same dump in exact integer units through C15's checker (hypothesis of the walk theorems)
            if len(wf_terms) < ctx.scale(60, 600):
                wt = wf_term(simA, forest)
                if wt is None:
                    wf_skipped[0] += 1
                else:
                    wf_terms.append(wt)
    bad_loop = run_jobs(ctx, "loop", "bad_loop_cases", loop_terms, 40)
    ctx.obligation("correspondence:C13 resolve_loop (fix-up/remap/tombstones) == library log + final particle order on %d runs"
                   % len(loop_terms), bad_loop == [],
                   "mismatching cases: %s" % [loop_info[b] for b in (bad_loop or [])[:2]])
    bad_search = run_jobs(ctx, "search", "bad_search_cases", search_terms, 25)
    ctx.obligation("correspondence:C13 search_direct/line and tree/linetree walks on the dumped tree (binary64)+rand_r shuffle == array handed to resolve on %d runs"
                   % len(search_terms), bad_search == [],
                   "mismatching cases: %s" % [search_info[b] for b in (bad_search or [])[:2]])

    bad_wf = run_jobs(ctx, "wf", "bad_bool_cases", wf_terms, 20)
    ctx.log("tree walks compared: %d, forests through C15.forest_b: %d (skipped %d), rejected: %s"
            % (sum(1 for c in search_info if c["tree"]), len(wf_terms), wf_skipped[0], bad_wf))
    ctx.obligation("correspondence:C13 C15.forest_b (proved-sound wf checker, exact integer units) accepts the %d dumped forests the walks "
                   "were run on (%d skipped: no exact unit)" % (len(wf_terms), wf_skipped[0]), bad_wf == [] and len(wf_terms) > 0,
                   "rejected dumps: %s" % (bad_wf or [])[:5])
    # ---------- (c) full search with merge
    nm = ctx.scale(160, 2000)
    mterms, minfo = [], []
    for k in range(nm):
        cfg = L.gen_cluster(rng, tree=False, weird=True)
        cfg["keep"] = rng.randrange(2)
        cfg["nact"] = -1 if rng.random() < 0.6 else rng.randint(0, cfg["N"])
        if rng.random() < 0.1:
            cfg["t"] = 0.0          # last_collision == t guard: nothing merges
        log, cbs, sim = L.run_merge(rebound, cfg)
        exp = "(%s, %s, %s)" % (L.events(log), L.zl(L.hashes(sim) + [sim.N_active]),
                                fl(L.state(sim) + [sim.max_radius[0], sim.max_radius[1]]))
        term = "merge_search %s (%d)%%Z %s (%d)%%Z %s (%s, %s) %s %s" % (
            bstr(cfg["keep"]), cfg["nact"], box_args(cfg, sim), cfg["seed"], vlib.fhex(cfg["t"]),
            vlib.fhex(sim._c13_mr_before[0]), vlib.fhex(sim._c13_mr_before[1]), fl(cbs), L.particles(cfg))
        mterms.append("(%s, %s)" % (term, exp))
        minfo.append(cfg)
        ctx.case(key=("merge", cfg["keep"], cfg["periodic"], cfg["N"], len(cbs)), nontrivial=len(log) > 0)
        dk = "merge|keep=%d|periodic=%d" % (cfg["keep"], cfg["periodic"])
        dist[dk] = dist.get(dk, 0) + 1
    bad_m = run_jobs(ctx, "merge", "bad_merge_cases", mterms, 20)
    ctx.obligation("correspondence:C13 reb_collision_search+merge: log, hashes, all particle doubles bit-for-bit on %d runs" % len(mterms),
                   bad_m == [], "mismatching cases: %s" % [minfo[b] for b in (bad_m or [])[:2]])

    # ---------- (d) full search with hardsphere
    nh = ctx.scale(160, 2000)
    hterms, hinfo = [], []
    for k in range(nh):
        cfg = L.gen_cluster(rng, tree=False, weird=True)
        eps = rng.choice([None, None, 0.5, 0.0, 1.0, 0.9])
        mcv = rng.choice([0.0, 0.0, 0.01, 1.0])
        log, orcs, sim = L.run_hardsphere(rebound, cfg, eps, mcv)
        exp = "(%s, %s, %s)" % (L.events(log), L.zl(L.hashes(sim)), fl(L.state(sim)))
        otxt = "[" + "; ".join("(%s, %s, %s, %s)" % tuple(vlib.fhex(v) for v in o) for o in orcs) + "]"
        term = "hs_search %s (%d)%%Z %s %s %s %s %s" % (box_args(cfg, sim), cfg["seed"], vlib.fhex(cfg["t"]),
                                                    vlib.fhex(1.0 if eps is None else eps), vlib.fhex(mcv), otxt, L.particles(cfg))
        hterms.append("(%s, %s)" % (term, exp))
        hinfo.append(dict(cfg=cfg, eps=eps, mcv=mcv))
        ctx.case(key=("hs", eps, mcv, cfg["periodic"], cfg["N"], min(len(log), 20)), nontrivial=len(log) > 0)
        dk = "hardsphere|periodic=%d" % cfg["periodic"]
        dist[dk] = dist.get(dk, 0) + 1
    bad_h = run_jobs(ctx, "hs", "bad_merge_cases", hterms, 20)
    ctx.obligation("correspondence:C13 reb_collision_search+hardsphere: log and all particle doubles bit-for-bit on %d runs" % len(hterms),
                   bad_h == [], "mismatching cases: %s" % [hinfo[b] for b in (bad_h or [])[:2]])
    # ---------- (h) hybrid integrators: DIRECT restricted to the encounter map (fields set through ctypes, outcome 0)
    nh2 = ctx.scale(120, 1200)
    mterms2, minfo2 = [], []
    for k in range(nh2):
        cfg = L.gen_cluster(rng, tree=False, line=False)
        sim = L.make_sim(rebound, cfg)
        n = cfg["N"]
        kind = rng.choice(["mercurius0", "mercurius1", "mercurius1", "trace_kepler", "trace_kepler", "trace_interaction", "trace_none", "trace_full"])
        sub = sorted(rng.sample(range(n), rng.randint(1, n))) if n >= 1 else []
        if n >= 1 and rng.random() < 0.7 and 0 not in sub:
            sub = [0] + sub
        arr = (ctypes.c_int * n)(*(sub + [0] * (n - len(sub))))
        if kind.startswith("mercurius"):
            sim.integrator = "mercurius"
            rim = sim.ri_mercurius
            rim.mode = int(kind[-1])
            holder, field = rim, "_encounter_map"
            rim._encounter_N = len(sub)
        else:
            sim.integrator = "trace"
            rit = sim.ri_trace
            rit._mode = {"kepler": 1, "interaction": 0, "none": 2, "full": 3}[kind.split("_")[1]]
            holder, field = rit, "_encounter_map"
            rit._encounter_N = len(sub)
        setattr(holder, field, ctypes.cast(arr, ctypes.POINTER(ctypes.c_int)))
        got = []
        def cbh(sp, c, got=got, sim=sim):
            got.append((c.p1, c.p2, L.gbid(L.gb_int(sp.contents, c))))
            return 0
        try:
            L.search(rebound, sim, cbh)
        finally:
            setattr(holder, field, ctypes.POINTER(ctypes.c_int)())      # the library must not free our array
        if kind in ("mercurius1", "trace_kepler"):
            emap, ninner = sub, len(sub)
        elif kind == "trace_full":
            emap, ninner = list(range(n)), n
        else:
            emap, ninner = list(range(n)), 1
        term = "pending_mapped %s (%d)%%Z %s [%s] %d%%nat" % (box_args(cfg, sim), cfg["seed"], L.particles(cfg),
                                                            "; ".join("%d%%nat" % v for v in emap), ninner)
        mterms2.append("(%s, %s)" % (term, L.entries(got)))
        minfo2.append(dict(kind=kind, sub=sub, cfg=cfg))
        ctx.case(key=("mapped", kind, cfg["periodic"], n, len(sub), min(len(got), 20)), nontrivial=len(got) > 0)
        dist["mapped|" + kind] = dist.get("mapped|" + kind, 0) + 1
    bad_mp = run_jobs(ctx, "mapped", "bad_search_cases", mterms2, 30)
    ctx.obligation("correspondence:C13 DIRECT restricted to the MERCURIUS/TRACE encounter map (binary64)+shuffle == array handed to resolve on %d runs"
                   % len(mterms2), bad_mp == [], "mismatching cases: %s" % [minfo2[b] for b in (bad_mp or [])[:2]])
    # ---------- (e) max_radius0/1 after a sequence of reb_simulation_add calls
    nr = ctx.scale(200, 2000)
    rterms = []
    for k in range(nr):
        n = rng.randrange(0, 9)
        pool = [rng.choice([0.0, 0.5, 1.0, 1.0, 2.5, rng.uniform(0, 3)]) for _ in range(4)]
        rs = [rng.choice(pool) if rng.random() < 0.6 else rng.uniform(0, 3) for _ in range(n)]
        sim = rebound.Simulation()
        for i, rr in enumerate(rs):
            sim.add(m=1.0, x=float(i), r=rr)
        rterms.append("(radii_fold %s, %s)" % (fl(rs), fl([sim.max_radius[0], sim.max_radius[1]])))
        ctx.case(key=("radii", n, len(set(rs))), nontrivial=n >= 2)
    bad_r = run_jobs(ctx, "radii", "bad_cases", rterms, 100)
    ctx.obligation("correspondence:C13 add_radius_num(binary64) == max_radius0/1 after reb_simulation_add on %d sequences" % len(rterms),
                   bad_r == [], "mismatching cases: %s" % (bad_r or [])[:5])
    allok = bad_loop == [] and bad_search == [] and bad_m == [] and bad_h == [] and bad_r == [] and bad_wf == [] and bad_mp == []
    ctx.traces = (len(loop_terms) + len(search_terms) + len(mterms) + len(hterms) + len(rterms) + len(mterms2)) if allok else 0
    ctx.extra["input_distribution"] = dict(sorted(dist.items()))
    return allok


# ================================================================================================ searcher
def cfg_replay(cfg):
    c = dict(cfg)
    for k in ("x", "y", "z", "vx", "vy", "vz", "m", "r"):
        c[k + "_hex"] = [float(v).hex() for v in cfg[k]]
    return c


def detect_oracle(cfg):
    """exact classification of every ordered pair and image: 'yes' (must be reported), 'no' (must not), 'edge'"""
    out = {}
    n = cfg["N"]
    line = cfg["mode"] in ("line", "linetree")
    for g in L.images(cfg):
        for i in range(n):
            for j in range(n):
                if i == j:
                    continue
                if line:
                    mg, A = L.line_margin(cfg, i, j, g)
                    tol = Fraction(1, 10 ** 9) * (A + 1)
                    out[(i, j, g)] = "yes" if mg < -tol else ("no" if mg > tol else "edge")
                else:
                    ov, ap, A = L.overlap_margin(cfg, i, j, g)
                    tol = Fraction(1, 10 ** 12) * (A + 1)
                    d, v = L.rel(cfg, i, j, g)
                    tolv = Fraction(1, 10 ** 12) * (1 + abs(d[0] * v[0]) + abs(d[1] * v[1]) + abs(d[2] * v[2]))
                    if ov < -tol and ap < -tolv:
                        out[(i, j, g)] = "yes"
                    elif ov > tol or ap > tolv:
                        out[(i, j, g)] = "no"
                    else:
                        out[(i, j, g)] = "edge"
    return out


def search_detection(ctx, rebound, fails):
    rng = ctx.rng
    n = ctx.scale(600, 12000)
    for k in range(n):
        u = rng.random()
        tree = u < 0.45
        line = rng.random() < 0.3
        fast = line and rng.random() < 0.5
        cfg = L.gen_cluster(rng, n=rng.choice([8, 12, 16]) if fast else None, tree=tree, line=line,
                            big=tree and not fast and rng.random() < 0.5, fast=fast)
        sim = L.make_sim(rebound, cfg)
        if rng.random() < 0.25 and cfg["N"] >= 2:
            # the same object keeps being used: a first search whose resolver removes particles (with a tree and keep_sorted the
            # library refuses and raises an error message), then the tree update; detection is judged on what is left
            sim.collision_resolve_keep_sorted = 1 if rng.random() < 0.4 else 0
            outs0 = gen_outs(rng, 64)
            cnt0 = [0]
            def cb0(sp, c, cnt0=cnt0, outs0=outs0):
                cnt0[0] += 1
                return outs0[(cnt0[0] - 1) % 64]
            L.search(rebound, sim, cb0)
            if cfg["tree"]:
                rebound.clibrebound.reb_simulation_update_tree(ctypes.byref(sim))
            cfg = dict(cfg, N=sim.N)
            for key_ in ("x", "y", "z", "vx", "vy", "vz", "m", "r"):
                cfg[key_] = [getattr(sim.particles[i], key_) for i in range(sim.N)]
            for i in range(sim.N):
                sim.particles[i].hash = 1000 + i
            sim.rand_seed = cfg["seed"]
            try:
                sim.process_messages()
            except Exception:
                pass
        seen = {}
        def cb(sp, c, sim=sim, seen=seen):
            s = sp.contents
            key = (s.particles[c.p1].hash.value - 1000, s.particles[c.p2].hash.value - 1000, L.gb_int(s, c))
            seen[key] = seen.get(key, 0) + 1
            return 0
        L.search(rebound, sim, cb)
        ctx.evaluations += 1
        orc = detect_oracle(cfg)
        linemode = cfg["mode"] in ("line", "linetree")
        bad = None
        for (i, j, g), cls in orc.items():
            if linemode and cfg["mode"] == "line":
                # LINE reports each unordered pair once per image, as (i<j, g)
                rep = seen.get((i, j, g), 0) if i < j else None
                if rep is None:
                    continue
            else:
                rep = seen.get((i, j, g), 0)
            if cls == "yes" and rep == 0 and cfg["tree"] and seen.get((j, i, (-g[0], -g[1], -g[2])), 0) > 0:
                # tree walks prune with p1.r + max_radius1: the walk started at the smaller sphere may skip the
                # largest one; the pair must then be reported by the walk started at the other particle
                continue
            if cls == "yes" and rep == 0:
                bad = ("missed", i, j, g)
            elif cls == "no" and rep > 0:
                bad = ("spurious", i, j, g)
            elif rep > 1:
                bad = ("duplicate", i, j, g)
            if bad:
                break
        if not bad:
            for key in seen:
                if key not in orc:
                    bad = ("unknown-pair",) + key
                    break
        ctx.nontrivial.add(("detect", cfg["mode"], cfg["periodic"], cfg["N"], min(len(seen), 30)))
        if bad:
            fails.append((linetree_key(cfg, bad[0]),
                          dict(kind="detect", cfg=cfg_replay(cfg), problem=list(map(str, bad)), reported=sorted(map(str, seen)))))


def sums(sim):
    M = Fraction(0); P = [Fraction(0)] * 3; X = [Fraction(0)] * 3
    for i in range(sim.N):
        p = sim.particles[i]
        if p.y != p.y and all(math.isfinite(v) for v in (p.x, p.z, p.vx, p.vy, p.vz, p.m)):      # flagged for removal (tree)
            continue
        if not all(math.isfinite(v) for v in (p.x, p.y, p.z, p.vx, p.vy, p.vz, p.m)):
            return None
        m = Fraction(p.m)
        M += m
        P = [P[0] + m * Fraction(p.vx), P[1] + m * Fraction(p.vy), P[2] + m * Fraction(p.vz)]
        X = [X[0] + m * Fraction(p.x), X[1] + m * Fraction(p.y), X[2] + m * Fraction(p.z)]
    return M, P, X


def scale_of(cfg):
    sm = sum(abs(m) for m in cfg["m"])
    sv = max([abs(v) for k in ("vx", "vy", "vz") for v in cfg[k]] + [0.0]) or 1.0
    sx = max([abs(v) for k in ("x", "y", "z") for v in cfg[k]] + [0.0]) or 1.0
    return sm, sv, sx


def search_merge(ctx, rebound, fails):
    rng = ctx.rng
    n = ctx.scale(800, 10000)
    for k in range(n):
        tree = rng.random() < 0.4
        cfg = L.gen_cluster(rng, tree=tree, line=rng.random() < 0.2)
        cfg["keep"] = 0 if tree else rng.randrange(2)
        sim = L.make_sim(rebound, cfg)
        M0, P0, X0 = sums(sim)
        fm = rebound.clibrebound.reb_collision_resolve_merge
        fm.argtypes = [ctypes.POINTER(rebound.Simulation), rebound.simulation.CollisionS]
        fm.restype = ctypes.c_int
        merges = []
        def cbm(sp, c, merges=merges):
            s_ = sp.contents
            h = (s_.particles[c.p1].hash.value, s_.particles[c.p2].hash.value)
            o = fm(sp, c)
            if o:
                merges.append(h)
            return o
        L.search(rebound, sim, cbm)
        ctx.evaluations += 1
        cnt = {}
        for h in merges:
            for x in h:
                cnt[x] = cnt.get(x, 0) + 1
        twice = sorted(x for x, v in cnt.items() if v > 1)
        S1 = sums(sim)
        M1, P1, X1 = S1 if S1 is not None else (M0, P0, X0)
        live = [sim.particles[i].hash.value for i in range(sim.N) if sim.particles[i].y == sim.particles[i].y]
        nmerged = cfg["N"] - len(live)
        sm, sv, sx = scale_of(cfg)
        eps = 2.3e-16 * 8 * (cfg["N"] + 2)
        bad = None
        if twice:
            bad = "particles %s took part in more than one merger in a single step: %s" % (twice, merges)
        elif S1 is None:
            # 1/(m_i+m_j) with two massless particles is outside the theorem's hypothesis m_i+m_j != 0
            if sum(1 for m in cfg["m"] if m == 0.0) >= 2:
                fails.append(("merge:massless_pair:nan", dict(kind="merge", cfg=cfg_replay(cfg),
                              problem="non-finite particle data after a step in which massless particles could merge")))
                continue
            bad = "non-finite particle data after merging particles with non-zero mass sums"
        elif len(set(live)) != len(live) or not set(live) <= set(range(1000, 1000 + cfg["N"])):
            bad = "ids duplicated or invented: %s" % live
        elif abs(M1 - M0) > Fraction(eps * sm):
            bad = "mass %r -> %r" % (float(M0), float(M1))
        elif any(abs(a - b) > Fraction(eps * sm * sv) for a, b in zip(P0, P1)):
            bad = "momentum %s -> %s" % ([float(v) for v in P0], [float(v) for v in P1])
        elif any(abs(a - b) > Fraction(eps * sm * sx) for a, b in zip(X0, X1)):
            bad = "mass-weighted position %s -> %s" % ([float(v) for v in X0], [float(v) for v in X1])
        # after the step every surviving particle has been merged at most ... and the tree removes flagged ones
        if not bad and tree:
            rebound.clibrebound.reb_simulation_update_tree(ctypes.byref(sim))
            after = sorted(sim.particles[i].hash.value for i in range(sim.N))
            if after != sorted(live):
                bad = "tree update: ids %s != surviving %s" % (after, sorted(live))
        ctx.nontrivial.add(("merge", cfg["mode"], cfg["keep"], cfg["periodic"], cfg["N"], nmerged))
        if bad:
            fails.append(("merge:%s:keep=%d" % (cfg["mode"], cfg["keep"]), dict(kind="merge", cfg=cfg_replay(cfg), problem=bad)))


def search_hardsphere(ctx, rebound, fails):
    rng = ctx.rng
    n = ctx.scale(600, 8000)
    for k in range(n):
        # exactly one overlapping approaching pair (+ bystanders far away), so that each bounce can be judged alone
        cfg = L.gen_cluster(rng, n=2, periodic=False, tree=rng.random() < 0.3)
        cfg["m"] = [rng.uniform(0.01, 3), rng.uniform(0.01, 3)]
        sim = L.make_sim(rebound, cfg)
        e_res = rng.choice([1.0, 1.0, 0.5, 0.0, 0.9])
        if e_res != 1.0 or rng.random() < 0.5:
            sim.coefficient_of_restitution = lambda sp, v, e_res=e_res: e_res
        ov, ap, A = L.overlap_margin(cfg, 0, 1, (0, 0, 0))
        calls = []
        clib = rebound.clibrebound
        f = clib.reb_collision_resolve_hardsphere
        f.argtypes = [ctypes.POINTER(rebound.Simulation), rebound.simulation.CollisionS]
        f.restype = ctypes.c_int
        def cb(sp, c, calls=calls):
            calls.append((c.p1, c.p2))
            return f(sp, c)
        L.search(rebound, sim, cb)
        ctx.evaluations += 1
        if not calls:
            continue
        m = [Fraction(v) for v in cfg["m"]]
        v0 = [[Fraction(cfg[k][i]) for k in ("vx", "vy", "vz")] for i in range(2)]
        v1 = [[Fraction(getattr(sim.particles[i], k)) for k in ("vx", "vy", "vz")] for i in range(2)]
        d, _ = L.rel(cfg, 0, 1, (0, 0, 0))
        sv = max(abs(float(c)) for vv in v0 for c in vv) or 1.0
        sm = float(m[0] + m[1])
        eps = 1e-13
        bad = None
        for a in range(3):
            if abs(m[0] * (v1[0][a] - v0[0][a]) + m[1] * (v1[1][a] - v0[1][a])) > Fraction(eps * sm * sv):
                bad = "momentum component %d changed" % a
        ke0 = sum(m[i] * L.dot(v0[i], v0[i]) for i in range(2))
        ke1 = sum(m[i] * L.dot(v1[i], v1[i]) for i in range(2))
        v21 = [v0[0][a] - v0[1][a] for a in range(3)]
        vd = L.dot(v21, d)
        mu = m[0] * m[1] / (m[0] + m[1])
        er = Fraction(e_res)
        rv = [v1[0][a] - v1[1][a] for a in range(3)]
        sep = L.dot(rv, d)
        if not bad and A != 0:
            # C13_hardsphere_energy / _restitution: 2 KE changes by -mu (1-e^2) vn^2, the normal relative velocity becomes -e vn
            if abs(ke1 - ke0 + mu * (1 - er * er) * vd * vd / A) > Fraction(eps * sm * sv * sv * 8):
                bad = "kinetic energy %r -> %r at restitution %r, expected change %r" % (
                    float(ke0 / 2), float(ke1 / 2), e_res, float(-mu * (1 - er * er) * vd * vd / A / 2))
            elif abs(sep + er * vd) > Fraction(eps * sv * (float(A) ** 0.5 + 1e-300) * 8):
                bad = "normal relative velocity (times distance) %r -> %r at restitution %r" % (float(vd), float(sep), e_res)
        if not bad and sep < -Fraction(eps * sv * (float(A) ** 0.5 + 1e-300)):
            bad = "pair still approaching after the bounce: dv.dx = %r" % float(sep)
        ctx.nontrivial.add(("hs", cfg["tree"], len(calls), e_res))
        if bad:
            fails.append(("hardsphere", dict(kind="hardsphere", cfg=cfg_replay(cfg), problem=bad)))


LINETREE_REPRO = dict(N=4, periodic=False, box=8.0, x=[1.7, 0.3, 1.6, 0.0], y=[0.5, 1.2, 0.8, 1.2], z=[0.0] * 4,
                      vx=[0.0] * 4, vy=[0.0] * 4, vz=[0.0] * 4, m=[1.0] * 4, r=[1.0, 1.0, 0.0, 0.0], tree=True, keep=0,
                      mode="linetree", seed=1, t=1.0, dt=0.01)


# backward integration: dt_last_done < 0 makes both drift terms of the LINETREE pruning radius negative
LINETREE_BACKWARD = dict(N=4, periodic=False, box=8.0, x=[-1.4, -1.9, 0.1, -1.8], y=[-1.2, -1.0, -1.9, -0.1], z=[0.0] * 4,
                         vx=[0.0, 3.0, 0.0, 0.0], vy=[0.0] * 4, vz=[0.0] * 4, m=[1.0] * 4, r=[0.15, 0.15, 0.0, 0.0], tree=True,
                         keep=0, mode="linetree", seed=1, t=1.0, dt=-0.5)


def linetree_key(cfg, what):
    """violation key of a detection failure; LINETREE misses under backward integration are a finding of their own"""
    back = ":backward" if (cfg["mode"] in ("line", "linetree") and cfg["dt"] < 0) else ""
    return "detect:%s:%s%s" % (cfg["mode"], what, back)


def search_linetree_regression(ctx, rebound, fails):
    """fixed input: two overlapping unit spheres at rest (centre distance 1.565 < 2) sharing tree cells with two point
    particles.  LINE reports the pair; LINETREE prunes with p1.r + drift + 0.866 w, i.e. without the partner's radius."""
    def pairs(mode, base=LINETREE_REPRO):
        c = dict(base); c["mode"] = mode; c["tree"] = mode == "linetree"
        sim = L.make_sim(rebound, c)
        seen = set()
        def cb(sp, col):
            seen.add(frozenset((col.p1, col.p2)))
            return 0
        L.search(rebound, sim, cb)
        return seen
    a, b = pairs("line"), pairs("linetree")
    ctx.evaluations += 2
    if frozenset((0, 1)) not in a:
        fails.append(("detect:line:missed", dict(kind="detect", cfg=cfg_replay(dict(LINETREE_REPRO, mode="line", tree=False)),
                                                 problem="LINE misses the overlapping pair (0,1)")))
    if frozenset((0, 1)) not in b:
        fails.append(("detect:linetree:missed", dict(kind="detect", cfg=cfg_replay(LINETREE_REPRO),
                                                     problem="LINETREE misses the overlapping pair (0,1) that LINE reports")))
    a, b = pairs("line", LINETREE_BACKWARD), pairs("linetree", LINETREE_BACKWARD)
    ctx.evaluations += 2
    if frozenset((0, 1)) not in a:
        fails.append(("detect:line:missed:backward", dict(kind="detect", cfg=cfg_replay(dict(LINETREE_BACKWARD, mode="line", tree=False)),
                                                          problem="LINE misses the pair (0,1) whose paths cross during the last (backward) step")))
    if frozenset((0, 1)) not in b:
        fails.append(("detect:linetree:missed:backward",
                      dict(kind="detect", cfg=cfg_replay(LINETREE_BACKWARD),
                           problem="LINETREE with dt_last_done<0 misses the pair (0,1) that LINE reports (and that LINETREE "
                                   "reports for the mirrored forward step)")))


def stale_radius_cfg(mode):
    r0 = 0.8
    A = (-1.06, -1.06, -1.06); B = (0.06, 0.06, 0.06)
    P = [A, B, (A[0] + 0.5, A[1] - 0.5, A[2]), (B[0] - 0.5, B[1] + 0.5, B[2]), (-1.9, -1.9, -1.9), (0.9, 0.9, 0.9)]
    return dict(N=6, periodic=False, box=8.0, x=[p[0] for p in P], y=[p[1] for p in P], z=[p[2] for p in P],
                vx=[0.0] * 6, vy=[0.0] * 6, vz=[0.0] * 6, m=[1.0, 1.0, 1e-9, 1e-9, 1e-9, 1e-9],
                r=[r0, r0, r0, r0, 0.0, 0.0], tree=(mode == "tree"), keep=0, mode=mode, seed=1, t=1.0, dt=0.01)


def search_stale_radius_regression(ctx, rebound, fails):
    """two steps: step 1 merges (0,2) and (1,3) -> two spheres of radius 0.8*2^(1/3) = 1.008 at distance 1.94 (overlapping);
    reb_collision_resolve_merge does not update max_radius0/1 (still 0.8), so in step 2 the TREE walk prunes with
    p1.r + 0.8 + 0.866 w and both walks miss the pair that DIRECT reports."""
    clib = rebound.clibrebound
    res = {}
    for mode in ("direct", "tree"):
        sim = L.make_sim(rebound, stale_radius_cfg(mode))
        sim.collision_resolve = "merge"
        clib.reb_collision_search(ctypes.byref(sim))
        sim.t = 2.0
        if mode == "tree":
            clib.reb_simulation_update_tree(ctypes.byref(sim))
        seen = set()
        def cb(sp, c, seen=seen):
            s = sp.contents
            seen.add(frozenset((s.particles[c.p1].hash.value, s.particles[c.p2].hash.value)))
            return 0
        L.search(rebound, sim, cb)
        res[mode] = (seen, sim.N, sim.max_radius[0], sim.max_radius[1], max(sim.particles[i].r for i in range(sim.N)))
        ctx.evaluations += 1
    want = frozenset((1000, 1001))
    if want not in res["direct"][0] or res["direct"][1] != 4:
        fails.append(("detect:direct:missed:after_merge", dict(kind="two-step", cfg=cfg_replay(stale_radius_cfg("direct")),
                                                               problem="DIRECT misses the pair of merged spheres in the second step")))
    if want not in res["tree"][0]:
        fails.append(("detect:tree:missed:stale_max_radius",
                      dict(kind="two-step", cfg=cfg_replay(stale_radius_cfg("tree")),
                           problem="after merging, max_radius = (%r, %r) but the largest radius is %r; TREE misses the overlapping pair "
                                   "(1000,1001) in the next step, DIRECT reports it" % res["tree"][2:5])))


def wrong_pair_key(cfg):
    moved = cfg.get("nact", -1) > 0 and not cfg["keep"] and not cfg["tree"]
    return "resolve:wrong_pair" + (":N_active" if moved else "")


def search_nactive_regression(ctx, rebound, fails):
    """fixed input: 5 spheres on a line, (0,1) and (2,3) overlap, 4 is far away, N_active = 3, keep_sorted = 0, no tree,
    merge resolver.  Between /repo a7d12d9 and 95ccee5, when (1,0) was resolved first, removing the active particle 1 moved
    particle 2 into slot 1 and particle 4 into slot 2; the pending entry (2,3) was not renumbered and the far-away particle 4
    was merged with particle 3."""
    clib = rebound.clibrebound
    f = clib.reb_collision_resolve_merge
    f.argtypes = [ctypes.POINTER(rebound.Simulation), rebound.simulation.CollisionS]
    f.restype = ctypes.c_int
    cfg = dict(N=5, periodic=False, box=8.0, x=[0.0, 0.5, 10.0, 10.5, 50.0], y=[0.0] * 5, z=[0.0] * 5, vx=[0.0] * 5, vy=[0.0] * 5,
               vz=[0.0] * 5, m=[1.0] * 5, r=[0.4] * 5, tree=False, keep=0, mode="direct", seed=4, t=1.0, dt=0.01, nact=3)
    for seed in range(1, 9):
        cfg["seed"] = seed
        sim = L.make_sim(rebound, cfg)
        handed = []
        def cb(sp, c, handed=handed):
            s = sp.contents
            handed.append(frozenset((s.particles[c.p1].hash.value, s.particles[c.p2].hash.value)))
            return f(sp, c)
        L.search(rebound, sim, cb)
        ctx.evaluations += 1
        bad = [sorted(h) for h in handed if h not in (frozenset((1000, 1001)), frozenset((1002, 1003)))]
        if bad:
            fails.append((wrong_pair_key(cfg), dict(kind="merge", cfg=cfg_replay(cfg),
                          problem="ids %s handed to the merge resolver although they do not overlap; final x = %s"
                                  % (bad[0], [round(sim.particles[i].x, 3) for i in range(sim.N)]))))
            return


def search_restore(ctx, rebound, fails):
    """copies and restored simulations: max_radius0/1 must still bound the largest / second largest radius (the hypothesis of
    the tree completeness theorems) and the tree searches must hand over the same identity pairs as the fresh simulation"""
    import tempfile, shutil
    rng = ctx.rng
    tmp = tempfile.mkdtemp(prefix="c13_restore_")
    try:
        for k in range(ctx.scale(40, 400)):
            cfg = L.gen_cluster(rng, tree=True, line=rng.random() < 0.4, big=rng.random() < 0.6, periodic=rng.random() < 0.3)
            fresh = L.make_sim(rebound, cfg)
            path = "%s/s%d.bin" % (tmp, k)
            fresh.save_to_file(path)
            variants = {"fresh": fresh, "copy": fresh.copy(), "restored": rebound.Simulation(path)}
            radii = sorted((fresh.particles[i].r for i in range(fresh.N)), reverse=True) + [0.0, 0.0]
            got = {}
            for name, sim in variants.items():
                ctx.evaluations += 1
                if not (sim.max_radius[0] >= radii[0] and sim.max_radius[1] >= radii[1]):
                    fails.append(("restore:max_radius:%s" % name,
                                  dict(kind="restore", cfg=cfg_replay(cfg),
                                       problem="%s simulation: max_radius = (%r, %r) but the two largest radii are (%r, %r)"
                                               % (name, sim.max_radius[0], sim.max_radius[1], radii[0], radii[1]))))
                seen = set()
                def cb(sp, c, seen=seen):
                    s_ = sp.contents
                    seen.add((s_.particles[c.p1].hash.value, s_.particles[c.p2].hash.value, L.gb_int(s_, c)))
                    return 0
                sim.rand_seed = cfg["seed"]
                L.search(rebound, sim, cb)
                got[name] = seen
            for name in ("copy", "restored"):
                if got[name] != got["fresh"]:
                    miss = sorted(got["fresh"] - got[name])[:3]; extra = sorted(got[name] - got["fresh"])[:3]
                    fails.append(("restore:detect:%s:%s" % (cfg["mode"], name),
                                  dict(kind="restore", cfg=cfg_replay(cfg),
                                       problem="%s simulation hands over a different pair set: missing %s extra %s" % (name, miss, extra))))
            ctx.nontrivial.add(("restore", cfg["mode"], cfg["periodic"], cfg["N"], min(len(got["fresh"]), 30)))
    finally:
        shutil.rmtree(tmp, ignore_errors=True)


def fixed_hybrid_scenario(rebound, integrator):
    """star, a small planet P, a puffy body C on an impact course with P (hit after ~200 steps), a projectile D that passes P at
    a distance 0.012: it misses the small P but must hit the grown body once C and P have merged"""
    sc = dict(integrator=integrator, dt=1e-3, seed=1, bodies=[], ops=[])
    sim = H.new_sim(rebound, sc)
    sim.add(m=1.0, r=1e-3, hash=1)
    sim.add(m=1e-10, r=3e-4, a=1.0, f=0.0, hash=10)
    p = sim.particles[1]
    sim.add(m=1e-10, r=0.02, x=p.x, y=p.y - 0.03, z=0, vx=p.vx, vy=p.vy + 0.05, vz=0, hash=11)
    sim.add(m=1e-10, r=1e-3, x=p.x + 0.012, y=p.y - 0.06, z=0, vx=p.vx, vy=p.vy + 0.08, vz=0, hash=12)
    handed, cnt, grown = set(), dict(handed=0, merges=0), set()
    H.merge_recorder(rebound, sim, handed, cnt, grown)
    v, done = H.step_and_judge(sim, handed, 1200)
    if v:
        cause, info = H.cause_of(sim, sc, v["pair"], grown, set())
        v.update(cause=cause, info=info, N=sim.N, fresh_simulation_also_misses=True)
    return sc, v


def hybrid_key(sc, v):
    return "hybrid:%s:missed:%s%s" % (sc["integrator"], v["cause"], "" if v["fresh_simulation_also_misses"] else ":history")


def search_histories(ctx, rebound, fails):
    """MERCURIUS and TRACE with the direct search: histories of steps / removals / mergers / additions (into freed slots or beyond)
    judged at every step boundary by a brute-force overlap oracle, and re-run from the same state in a fresh simulation"""
    rng = ctx.rng
    for integ in ("mercurius", "trace"):
        sc, v = fixed_hybrid_scenario(rebound, integ)
        ctx.evaluations += 1
        if v:
            fails.append((hybrid_key(sc, v), dict(kind="history", scenario="fixed: P(1e-10, r 3e-4, a=1), C(r 0.02) 0.03 behind at +0.05, "
                          "D(r 1e-3) 0.06 behind, 0.012 aside at +0.08, dt 1e-3", problem=v)))
    for integ, n in (("mercurius", ctx.scale(36, 400)), ("trace", ctx.scale(14, 150))):
        for k in range(n):
            sc = H.gen_history(rng, integ)
            res = H.run_history(rebound, sc)
            ctx.evaluations += 1
            ctx.nontrivial.add(("history", integ, tuple(o[0] for o in sc["ops"]), min(res["merges"], 4)))
            if res["violation"]:
                fails.append((hybrid_key(sc, res["violation"]), dict(kind="history", scenario=sc, problem=res["violation"])))


def check_dcrit_sites(ctx, regen_ok):
    """regenerated from the source: every function that adds a particle or changes a radius / mass refreshes dcrit on every path"""
    if not regen_ok:
        return
    body = ("From Coq Require Import List String.\nFrom RV Require Import Gen.C13Dcrit.\nImport ListNotations.\n"
            "Eval vm_compute in dcrit_unrefreshed.\nEval vm_compute in (List.length dcrit_sites).\n")
    ok, out = vlib.coq_eval("c13_dcrit", body)
    import re
    m = re.search(r"=\s*\[(.*?)\]\s*:\s*list string", out, re.S)
    ctx.obligation("regenerated:C13 dcrit refresh sites evaluated", ok and m is not None, out[-800:])
    if ok and m:
        for name in re.findall(r'"([^"]+)"', m.group(1)):
            ctx.violation("dcrit:unrefreshed:" + name,
                          dict(function=name, what="changes a particle's radius/mass or adds a particle without refreshing ri_mercurius.dcrit "
                               "(no recalculate_r_crit_this_timestep = 1 and no dcrit[i] assignment on some path)"),
                          found_input=False, what="%s does not refresh the MERCURIUS critical radius on every path" % name)


def search_massless_regression(ctx, rebound, fails):
    """two massless (test) particles that overlap while approaching, a massive body and a far-away bystander: the resolvers
    must leave every particle finite, and the bystander must not be merged away in the following searches"""
    clib = rebound.clibrebound
    for resolver in ("merge", "hardsphere"):
        cfg = dict(N=4, periodic=False, box=16.0, x=[0.0, 5.0, 5.15, -7.0], y=[0.0] * 4, z=[0.0] * 4, vx=[0.0, 0.1, -0.1, 0.0],
                   vy=[0.0] * 4, vz=[0.0] * 4, m=[1.0, 0.0, 0.0, 0.0], r=[0.01, 0.1, 0.1, 0.1], tree=False, keep=0, mode="direct",
                   seed=1, t=1.0, dt=0.01)
        sim = L.make_sim(rebound, cfg)
        sim.collision_resolve = resolver
        bad = None
        for k in range(3):
            clib.reb_collision_search(ctypes.byref(sim))
            sim.t += 1.0
            ctx.evaluations += 1
            vals = [v for i in range(sim.N) for v in (sim.particles[i].x, sim.particles[i].vx, sim.particles[i].m)]
            if not all(math.isfinite(v) for v in vals):
                bad = "search %d: non-finite particle data after resolving the collision of two massless particles: %s" % (
                    k + 1, [(sim.particles[i].hash.value, sim.particles[i].x, sim.particles[i].vx) for i in range(sim.N)])
                break
            if 1003 not in [sim.particles[i].hash.value for i in range(sim.N)]:
                bad = "search %d: the far-away bystander was merged away" % (k + 1)
                break
        if bad:
            fails.append(("%s:massless_pair:nan" % resolver, dict(kind=resolver, cfg=cfg_replay(cfg), problem=bad)))


def search_hybrid_multi(ctx, rebound, fails):
    """several collisions found in ONE search call under MERCURIUS / TRACE (real steps, library merge resolver): overlapping pairs
    and bystanders with distinct power-of-two masses and hashes, added in a shuffled order, keep_sorted 0 and 1, several
    rand_seeds.  Judged by identity: every pair handed to resolve must be one of the overlapping pairs, every overlapping pair must
    end as ONE particle carrying the sum of its two masses, every bystander must survive unchanged."""
    rng = ctx.rng
    for k in range(ctx.scale(24, 240)):
        integ = rng.choice(["mercurius", "trace"])
        keep = rng.randrange(2)
        npairs = rng.randint(2, 4)
        nby = rng.randint(1, 3)
        sc = dict(integrator=integ, dt=1e-3, seed=rng.randrange(1, 2 ** 31), bodies=[], ops=[])
        sim = H.new_sim(rebound, sc)
        sim.collision_resolve_keep_sorted = keep
        sim.t = 1.0
        sim.add(m=1.0, r=1e-4, hash=1)
        slots = [("pair", i) for i in range(npairs)] + [("by", i) for i in range(nby)]
        rng.shuffle(slots)
        angles = [2 * math.pi * (i + 0.3 * rng.random()) / len(slots) for i in range(len(slots))]
        bodies = []          # (hash, mass, kind, group)
        e = 0
        for (kind, gi), f in zip(slots, angles):
            a = rng.uniform(0.9, 1.1)
            x, y = a * math.cos(f), a * math.sin(f)
            v = 1.0 / math.sqrt(a)
            vx, vy = -v * math.sin(f), v * math.cos(f)
            m1 = 2.0 ** -(12 + e); e += 1
            r1 = rng.uniform(2e-3, 4e-3)
            bodies.append(dict(hash=100 + len(bodies), m=m1, r=r1, x=x, y=y, vx=vx, vy=vy, kind=kind, g=gi))
            if kind == "pair":
                m2 = 2.0 ** -(12 + e); e += 1
                r2 = rng.uniform(2e-3, 4e-3)
                d = 0.6 * (r1 + r2)
                ux, uy = -math.sin(f), math.cos(f)
                bodies.append(dict(hash=100 + len(bodies), m=m2, r=r2, x=x - d * ux, y=y - d * uy, vx=vx + 2e-3 * ux, vy=vy + 2e-3 * uy,
                                   kind=kind, g=gi))
        order = list(range(len(bodies)))
        rng.shuffle(order)          # pair members are not adjacent in the array, bystanders sit in between
        for i in order:
            b = bodies[i]
            sim.add(m=b["m"], r=b["r"], x=b["x"], y=b["y"], z=0.0, vx=b["vx"], vy=b["vy"], vz=0.0, hash=b["hash"])
        designed = {}
        for b in bodies:
            if b["kind"] == "pair":
                designed.setdefault(b["g"], []).append(b)
        pairs = {frozenset(q["hash"] for q in v): sum(q["m"] for q in v) for v in designed.values()}
        handed, cnt, grown = set(), dict(handed=0, merges=0), set()
        all_handed = []
        H.merge_recorder(rebound, sim, handed, cnt, grown)
        bad = None
        try:
            for _ in range(2):
                sim.step()
                all_handed += list(handed); handed.clear()
        except RuntimeError as ex:
            bad = "the integrator raised %r" % (ex,)
        ctx.evaluations += 1
        final = {p.hash.value: p.m for p in sim.particles}
        if not bad:
            wrong = [sorted(h) for h in all_handed if h not in pairs]
            if wrong:
                bad = "pair %s handed to the resolver although it does not overlap (designed overlapping pairs: %s)" % (
                    wrong[0], [sorted(p) for p in pairs])
        if not bad:
            for hp, msum in pairs.items():
                alive = [h for h in hp if h in final]
                if len(alive) != 1 or final[alive[0]] != msum:
                    bad = "overlapping pair %s did not end as one particle of mass %r: %s" % (sorted(hp), msum, {h: final.get(h) for h in hp})
                    break
        if not bad:
            for b in bodies:
                if b["kind"] == "by" and final.get(b["hash"]) != b["m"]:
                    bad = "bystander %d (mass %r) ended as %r" % (b["hash"], b["m"], final.get(b["hash"]))
                    break
        ctx.nontrivial.add(("hybrid_multi", integ, keep, npairs, nby))
        if bad:
            fails.append(("hybrid:%s:multi_collision:keep=%d" % (integ, keep),
                          dict(kind="hybrid_multi", integrator=integ, keep_sorted=keep, rand_seed=sc["seed"],
                               bodies_in_array_order=[bodies[i] for i in order], problem=bad)))


def search_history_vs_fresh(ctx, rebound, fails):
    """an object with a history (earlier searches with merge / hardsphere / arbitrary removals, removals of the largest spheres,
    remove+add with N unchanged, radii shrunk or grown by assignment, search mode switched and switched back or switched to the
    tree, time advanced) must hand the same collisions to the resolver and, after resolving them with merge, hold the same
    particles as a FRESH simulation built from its current particles, time and settings."""
    rng = ctx.rng
    for k in range(ctx.scale(120, 1500)):
        tree = rng.random() < 0.5
        cfg = L.gen_cluster(rng, tree=tree, line=rng.random() < 0.3, big=tree and rng.random() < 0.4)
        sim = L.make_sim(rebound, cfg)
        ops = V.apply_history(rng, rebound, sim, cfg)
        treemode = int(sim._collision) in (2, 5)
        bad = None
        stuck = [sim.particles[i].hash.value for i in range(sim.N)
                 if not all(math.isfinite(getattr(sim.particles[i], c)) for c in ("m", "x", "y", "z", "vx", "vy", "vz", "r"))]
        f = None
        if stuck:
            # finite inputs only: a non-finite particle here is one that was flagged for removal (y = NaN) and is still in the
            # array after the tree update, i.e. the object no longer holds a state a fresh simulation could be given
            bad = "particles %s are non-finite (flagged for removal but never taken out by the tree update) after the history %s" % (stuck, ops)
        else:
            f = V.fresh_like(rebound, sim, cfg)
            if f is None:
                continue
        ctx.evaluations += 1
        a, b = (V.handed_set(rebound, sim), V.handed_set(rebound, f)) if f is not None else ([], [])
        if bad:
            pass
        elif (V.unordered(a) != V.unordered(b)) if treemode else (a != b):
            bad = "handed to resolve with history %s but not fresh: %s; fresh but not with history: %s" % (
                ops, sorted(set(V.unordered(a)) - set(V.unordered(b)))[:3], sorted(set(V.unordered(b)) - set(V.unordered(a)))[:3])
        else:
            for s_ in (sim, f):
                s_.collision_resolve = "merge"
                rebound.clibrebound.reb_collision_search(ctypes.byref(s_))
            A, B = V.state_by_hash(sim), V.state_by_hash(f)
            if treemode:
                # the pending array of a tree search legitimately depends on the history (max_radius0/1 are upper bounds, so the
                # object with history may list a pair in both orientations), hence the shuffle, the processing order and which member
                # of a chain of overlapping spheres survives: only the total mass is compared
                ma, mb = math.fsum(v[0] for v in A.values()), math.fsum(v[0] for v in B.values())
                if abs(ma - mb) > 1e-12 * (abs(ma) + abs(mb) + 1e-300):
                    bad = "after merging, total mass %r with history %s, %r fresh" % (ma, ops, mb)
            elif set(A) != set(B):
                bad = "after merging, history %s keeps %s, fresh keeps %s" % (ops, sorted(set(A) - set(B)), sorted(set(B) - set(A)))
            elif any(not vlib.same_bits(x, y) for h in A for x, y in zip(A[h], B[h])):
                bad = "after merging, particle data differ between the object with history %s and the fresh one" % ops
        ctx.nontrivial.add(("hvf", cfg["mode"], tuple(sorted(set(ops)))))
        if bad:
            cause = "radius_assigned_after_add" if ("grow" in ops and treemode) else ("tree_switched_on_after_add" if "to_tree" in ops else "other")
            mode = {1: "direct", 2: "tree", 4: "line", 5: "linetree"}.get(int(sim._collision), "?")
            fails.append(("hvf:%s:%s" % ("tree" if treemode else mode, cause),
                          dict(kind="history_vs_fresh", cfg=cfg_replay(cfg), ops=ops, problem=bad)))


# ================================================================================================ entry point
def run(ctx):
    libdir = ctx.lib()
    rebound = load(libdir)
    regen_ok = ctx.regen("translate_c13_dcrit.py")
    proved = ctx.prove("C13", extra_targets=["C13/Run.vo"])
    check_dcrit_sites(ctx, regen_ok)
    ctx.log("proofs checked")
    corr_ok = correspondence(ctx, rebound)
    ctx.log("correspondence done")
    fails = []
    for cfg, outs, ev in WRONG_PAIRS[:50]:
        fails.append((wrong_pair_key(cfg), dict(kind="loop", cfg=cfg_replay(cfg), outcomes=outs,
                      problem="callback received (p1,p2,gb,hash1,hash2,outcome) = %s: an identity pair the search never reported" % (ev,))))
    search_nactive_regression(ctx, rebound, fails)
    search_massless_regression(ctx, rebound, fails)
    search_linetree_regression(ctx, rebound, fails)
    search_stale_radius_regression(ctx, rebound, fails)
    search_detection(ctx, rebound, fails)
    ctx.log("detection searcher done")
    search_merge(ctx, rebound, fails)
    search_hardsphere(ctx, rebound, fails)
    search_restore(ctx, rebound, fails)
    search_histories(ctx, rebound, fails)
    search_hybrid_multi(ctx, rebound, fails)
    search_history_vs_fresh(ctx, rebound, fails)
    ctx.log("history-vs-fresh done")
    ctx.log("history searcher done")
    seen = set()
    for key, rep in fails:
        if key in seen:
            continue
        seen.add(key)
        ctx.violation(key, rep, True, "collision detection/resolution oracle fails on the library: %s" % rep.get("problem"))
    ctx.rule = ("clusters/chains of 2..12 spheres (radii incl. 0, 1e-6..2.5), open or periodic box with N_ghost=1 and particles "
                "at opposite faces, direct/line/tree/linetree, keep_sorted on/off, outcome sequences over {0,1,2,3}; a case is "
                "distinct by (kind, mode, keep_sorted, periodic, N, #pending bucket, #removed); non-trivial = at least 2 pending collisions")
    ctx.assumptions += [
        "theorems about the resolve loop quantify over every pending array (hence every processing order) and every resolver that "
        "does not reorder/add/remove particles; excluded: tree together with keep_sorted (the library refuses the removal with an error)",
        "resolver theorems are over Coq reals (exact arithmetic); libm results (cbrt, atan2/sin/cos) enter the model as oracle arguments, "
        "constrained in the theorems by c^2+s^2=1 and the spherical-coordinate identities",
        "MERCURIUS/TRACE encounter maps, MPI, OPENMP, shearing-sheet ghost boxes, track_energy_offset and N_var>0 are not modelled",
        "tree walk pruning geometry is validated by the searcher only",
    ]


def replay(ctx, rep):
    """./check C13 --replay FILE : rebuild the recorded configuration on the current library and show what it does"""
    import json
    r = rep.get("replay", {})
    print(json.dumps({k: v for k, v in rep.items() if k != "replay"}, indent=1))
    cfg = r.get("cfg")
    if not cfg:
        print(json.dumps(r, indent=1)); return 0
    for k in ("x", "y", "z", "vx", "vy", "vz", "m", "r"):
        cfg[k] = [float.fromhex(h) for h in cfg[k + "_hex"]]
    rebound = load(ctx.lib())
    sim = L.make_sim(rebound, cfg)
    calls = []
    if r.get("kind") == "detect":
        def cb(sp, c):
            s = sp.contents
            calls.append((s.particles[c.p1].hash.value - 1000, s.particles[c.p2].hash.value - 1000, L.gb_int(s, c)))
            return 0
        L.search(rebound, sim, cb)
        orc = detect_oracle(cfg)
        print("reported:", sorted(calls))
        print("oracle yes:", sorted(k for k, v in orc.items() if v == "yes"))
        print("problem recorded:", r.get("problem"))
    else:
        before = L.state(sim)
        sim.collision_resolve = "merge" if r.get("kind") == "merge" else "hardsphere"
        rebound.clibrebound.reb_collision_search(ctypes.byref(sim))
        print("before:", before); print("after :", L.state(sim), "hashes", L.hashes(sim))
        print("problem recorded:", r.get("problem"))
    return 1
