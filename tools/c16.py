"""C16 — variational particles are the derivatives of the trajectory.

1. regeneration: tools/translate_derivs.py (all 65 reb_particle_derivative_* + from_orbit + from_pal -> coq/Gen/Derivs.v);
2. proof obligations: coq/C16 (dual numbers; variational force loops = dual parts of the force loops for all N;
   first-order element-derivative constructors = dual parts of from_orbit / from_pal);
3. correspondence (bit for bit): grav_var1 / grav_var1_tp / grav_var2 at binary64 vs reb_simulation_update_acceleration
   with variational particles; every translated constructor at binary64 vs its exported C function;
4. searcher (library only, always run): tools/c16_search.py — finite differences of the element->Cartesian map,
   of neighbouring real trajectories per integrator, rescaling, MEGNO/Lyapunov.
"""
import ctypes, json, math, os, sys
import vlib
import c16_search

COMPS7 = ["m", "x", "y", "z", "vx", "vy", "vz"]


def chunks(l, n):
    for i in range(0, len(l), n):
        yield i, l[i:i + n]


# ------------------------------------------------------------------ gravity correspondence
def gen_cloud(rng, n):
    sc = 10 ** rng.uniform(-1, 1)
    ms = []
    for i in range(n):
        u = rng.random()
        ms.append(rng.uniform(0.1, 2) if i == 0 else (0.0 if u < 0.15 else 10 ** rng.uniform(-6, 0)))
    pos = [[rng.gauss(0, 1) * sc for _ in range(n)] for _ in range(3)]
    return ms, pos


def gen_var(rng, n, with_mass=True):
    kind = rng.random()
    dm = [0.0] * n
    d = [[0.0] * n for _ in range(3)]
    if kind < 0.3:      # a single coordinate / the mass of one particle
        i = rng.randrange(n)
        c = rng.randrange(4 if with_mass else 3)
        if c == 3:
            dm[i] = 1.0
        else:
            d[c][i] = 1.0
    else:
        for i in range(n):
            if with_mass and rng.random() < 0.5:
                dm[i] = rng.gauss(0, 1)
            for c in range(3):
                d[c][i] = rng.gauss(0, 1) * 10 ** rng.uniform(-3, 3)
    return dm, d


def grav_cases(ctx, rebound, ncases):
    rng = ctx.rng
    clib = rebound.clibrebound
    cases = []
    for k in range(ncases):
        kind = ["v1", "v1", "v1tp", "v2", "v2tp"][k % 5]
        n = rng.choice([1, 2, 2, 3, 3, 4, 5, 6, 9])
        ms, pos = gen_cloud(rng, n)
        corner = rng.random()
        if corner < 0.06 and n >= 2:             # two coincident particles (NaN/inf on both sides)
            for c in range(3):
                pos[c][1] = pos[c][0]
        elif corner < 0.12:                      # huge / tiny magnitudes (overflow and underflow of the powers of r)
            f = rng.choice([1e-120, 1e-60, 1e70, 1e130])
            pos = [[v * f for v in row] for row in pos]
        elif corner < 0.16:
            ms = [(-0.0 if i else ms[0]) for i in range(n)]
        G = rng.choice([1.0, 6.674e-11, 39.47841760435743, rng.uniform(0.5, 2)])
        ign = rng.choice([0, 0, 1, 2])
        nact = rng.choice([n, n, rng.randint(0, n)]) if kind not in ("v2", "v2tp") else n
        tp = rng.random() < 0.3 if kind not in ("v2", "v2tp") else False
        sim = rebound.Simulation()
        sim.G = G
        for i in range(n):
            sim.add(m=ms[i], x=pos[0][i], y=pos[1][i], z=pos[2][i])
        sim.N_active = nact if (nact < n or rng.random() < 0.2) else -1      # N_active = N explicitly or -1
        sim.testparticle_type = 1 if tp else 0
        sim.gravity_ignore = ign
        soft = rng.choice([0.0, 0.0, 10 ** rng.uniform(-3, 0)])
        sim.softening = soft
        if rng.random() < 0.2:
            sim.gravity = "compensated"      # falls through to the BASIC variational code
            grav = "compensated"
        else:
            grav = "basic"
        if kind == "v1":
            v = sim.add_variation()
            dm, d = gen_var(rng, n)
            for i in range(n):
                p = v.particles[i]
                p.m, p.x, p.y, p.z = dm[i], d[0][i], d[1][i], d[2][i]
            clib.reb_simulation_update_acceleration(ctypes.byref(sim))
            exp = sum(([v.particles[i].ax, v.particles[i].ay, v.particles[i].az] for i in range(n)), [])
            term = "(runVar1 %s %s %d %d %s %s %s %s %s %s %s %s %s)" % (
                vlib.fhex(G), vlib.fhex(soft), ign, nact, "true" if tp else "false", vlib.flist(ms), vlib.flist(pos[0]),
                vlib.flist(pos[1]), vlib.flist(pos[2]), vlib.flist(dm), vlib.flist(d[0]), vlib.flist(d[1]), vlib.flist(d[2]))
        elif kind == "v1tp":
            i = rng.randrange(n)
            v = sim.add_variation(testparticle=i)
            dv = [rng.gauss(0, 1) for _ in range(3)]
            p = v.particles[0]
            p.x, p.y, p.z = dv
            clib.reb_simulation_update_acceleration(ctypes.byref(sim))
            exp = [v.particles[0].ax, v.particles[0].ay, v.particles[0].az]
            term = "(runVar1tp %s %s %d %s %s %s %s %s %s %s %d)" % (
                vlib.fhex(G), vlib.fhex(soft), ign, vlib.flist(ms), vlib.flist(pos[0]), vlib.flist(pos[1]), vlib.flist(pos[2]),
                vlib.fhex(dv[0]), vlib.fhex(dv[1]), vlib.fhex(dv[2]), i)
        elif kind == "v2tp":
            i = rng.randrange(n)
            va = sim.add_variation(testparticle=i)
            vb = sim.add_variation(testparticle=i)
            same = rng.random() < 0.3
            vw = sim.add_variation(order=2, first_order=va, first_order_2=va if same else vb, testparticle=i)
            d3 = {}
            for nm, vv in (("a", va), ("b", vb), ("w", vw)):
                d3[nm] = [rng.gauss(0, 1) * 10 ** rng.uniform(-2, 2) for _ in range(3)]
                vv.particles[0].x, vv.particles[0].y, vv.particles[0].z = d3[nm]
            if same:
                d3["b"] = d3["a"]
            clib.reb_simulation_update_acceleration(ctypes.byref(sim))
            exp = [vw.particles[0].ax, vw.particles[0].ay, vw.particles[0].az]
            term = "(runVar2tp %s %s %s %s %s %s %s %s %d)" % (
                vlib.fhex(G), vlib.fhex(soft), vlib.flist(ms), vlib.flist(pos[0]), vlib.flist(pos[1]), vlib.flist(pos[2]),
                " ".join(vlib.fhex(v) for v in d3["w"]), " ".join(vlib.fhex(v) for v in d3["a"] + d3["b"]), i)
        else:
            va = sim.add_variation()
            vb = sim.add_variation()
            if rng.random() < 0.3:
                vw = sim.add_variation(order=2, first_order=va)
                vb_used = va
            else:
                vw = sim.add_variation(order=2, first_order=va, first_order_2=vb)
                vb_used = vb
            sets = {}
            for nm, vv in (("a", va), ("b", vb), ("w", vw)):
                dm, d = gen_var(rng, n)
                sets[nm] = (dm, d)
                for i in range(n):
                    p = vv.particles[i]
                    p.m, p.x, p.y, p.z = dm[i], d[0][i], d[1][i], d[2][i]
            if vb_used is va:
                sets["b"] = sets["a"]
            clib.reb_simulation_update_acceleration(ctypes.byref(sim))
            exp = sum(([vw.particles[i].ax, vw.particles[i].ay, vw.particles[i].az] for i in range(n)), [])
            fl = lambda s: " ".join([vlib.flist(s[0])] + [vlib.flist(x) for x in s[1]])
            term = "(runVar2 %s %s %s %s %s %s %s %s %s)" % (vlib.fhex(G), vlib.fhex(soft), vlib.flist(ms), vlib.flist(pos[0]), vlib.flist(pos[1]),
                                                        vlib.flist(pos[2]), fl(sets["w"]), fl(sets["a"]), fl(sets["b"]))
        cases.append((kind, term, exp, {"kind": kind, "N": n, "N_active": nact, "ign": ign, "tp": tp, "gravity": grav, "softening": soft}))
        ctx.case(key=(kind, n, nact, ign, tp, grav, soft != 0.0), sample=cases[-1][3] if k < 2 else None)
    return cases


# ------------------------------------------------------------------ constructor correspondence
def deriv_cases(ctx, rebound, table, nper):
    """For every translated C function: random bound orbits; inputs of the Gallina function obtained from the
    library's own element conversion + libm; output of the exported C function is the expectation."""
    rng = ctx.rng
    clib = rebound.clibrebound
    Particle, Orbit = rebound.Particle, rebound.Orbit
    clib.reb_orbit_from_particle.restype = Orbit
    clib.reb_particle_from_orbit.restype = Particle
    clib.reb_particle_from_pal.restype = Particle
    D = ctypes.c_double
    cases = []
    py_bad = []
    for cname, gname, fam in table:
        for k in range(nper):
            G = rng.choice([1.0, 39.47841760435743, rng.uniform(0.5, 2)])
            prim = Particle(m=rng.uniform(0.5, 2), x=rng.gauss(0, 1), y=rng.gauss(0, 1), z=rng.gauss(0, 1),
                            vx=rng.gauss(0, .3), vy=rng.gauss(0, .3), vz=rng.gauss(0, .3))
            m = rng.choice([0.0, 10 ** rng.uniform(-6, -1)])
            a = 10 ** rng.uniform(-0.5, 1)
            e = rng.choice([rng.uniform(0.01, 0.25), rng.uniform(0.31, 0.8)])
            inc = rng.uniform(0.01, 2.5)
            cr = rng.random()
            if cr < 0.08:
                e = 0.0
            elif cr < 0.14:
                inc = rng.choice([0.0, math.pi])
            elif cr < 0.18:
                e, inc = 0.0, 0.0
            elif cr < 0.22:
                e = rng.choice([0.999, 0.2999999, 0.3])
            elif cr < 0.26:
                a, e = -a, rng.uniform(1.1, 3.0)      # hyperbolic: the constructors are documented for bound orbits; model and code must still agree
            Om, om, f = (rng.uniform(-math.pi, math.pi) for _ in range(3))
            pargs = [prim.m, prim.x, prim.y, prim.z, prim.vx, prim.vy, prim.vz]
            if cname == "reb_particle_from_orbit":
                if rng.random() < 0.05:
                    prim.m = rng.choice([1e-308, 0.0, 5e-309, 2e-308])
                    pargs = [prim.m, prim.x, prim.y, prim.z, prim.vx, prim.vy, prim.vz]
                out = clib.reb_particle_from_orbit(D(G), prim, D(m), D(a), D(e), D(inc), D(Om), D(om), D(f))
                # the rejection rules in front of the translated body (pinned verbatim in translate_derivs.py): the model is the
                # map on the ACCEPTED inputs; on a rejected input the library must return reb_particle_nan()
                rejected = (a == 0.) or (e == 1.) or (e < 0.) or (e > 1. and a > 0.) or (not (e > 1.) and a < 0.) \
                    or (e * math.cos(f) < -1.) or (prim.m <= 1e-308)
                if rejected:
                    got = [getattr(out, c) for c in COMPS7]
                    if not all(x != x for x in got):
                        py_bad.append({"fn": cname, "rejected_but_not_nan": got, "a": a, "e": e, "f": f, "primary_m": prim.m})
                    ctx.case(key=(cname, "rejected", k))
                    continue
                ins = [G, m] + pargs + [a, e, inc, Om, om, f, math.cos(Om), math.sin(Om), math.cos(om), math.sin(om),
                                         math.cos(f), math.sin(f), math.cos(inc), math.sin(inc)]
            elif cname == "reb_particle_from_pal":
                lam = rng.uniform(-math.pi, math.pi)
                h, kk = e * math.sin(om), e * math.cos(om)
                ix, iy = rng.uniform(-1, 1), rng.uniform(-1, 1)
                p, q = D(0), D(0)
                clib.reb_tools_solve_kepler_pal(D(h), D(kk), D(lam), ctypes.byref(p), ctypes.byref(q))
                out = clib.reb_particle_from_pal(D(G), prim, D(m), D(a), D(lam), D(kk), D(h), D(ix), D(iy))
                ins = [G, m] + pargs + [a, kk, h, ix, iy, p.value, q.value, math.sin(lam + p.value), math.cos(lam + p.value)]
            else:
                po = clib.reb_particle_from_orbit(D(G), prim, D(m), D(a), D(e), D(inc), D(Om), D(om), D(f))
                fn = getattr(clib, cname)
                fn.restype = Particle
                out = fn(D(G), prim, po)
                if fam == "orb":
                    o = clib.reb_orbit_from_particle(D(G), po, prim)
                    ins = [G, po.m] + pargs + [o.a, o.e, o.inc, o.Omega, o.omega, o.f,
                                                math.cos(o.Omega), math.sin(o.Omega), math.cos(o.omega), math.sin(o.omega),
                                                math.cos(o.f), math.sin(o.f), math.cos(o.inc), math.sin(o.inc)]
                else:
                    av, lam, kv, hv, ixv, iyv = (D(0) for _ in range(6))
                    clib.reb_tools_particle_to_pal(D(G), po, prim, *(ctypes.byref(x) for x in (av, lam, kv, hv, ixv, iyv)))
                    p, q = D(0), D(0)
                    clib.reb_tools_solve_kepler_pal(hv, kv, lam, ctypes.byref(p), ctypes.byref(q))
                    ins = [G, po.m] + pargs + [av.value, kv.value, hv.value, ixv.value, iyv.value, p.value, q.value,
                                                math.sin(lam.value + p.value), math.cos(lam.value + p.value)]
            exp = [getattr(out, c) for c in COMPS7]
            term = "(p7l (%s FNum %s))" % (gname, " ".join(vlib.fhex(x) for x in ins))
            cases.append((cname, term, exp, {"fn": cname, "G": G, "m": m, "a": a, "e": e, "inc": inc, "Omega": Om, "omega": om, "f": f,
                                             "primary": pargs}))
            ctx.case(key=(cname, k), sample=None)
    if py_bad:
        ctx.obligation("correspondence:C16 reb_particle_from_orbit returns the NaN particle on every input its pinned rejection rules reject",
                       False, str(py_bad[:4]))
    return cases


# ------------------------------------------------------------------ rescale_var correspondence
BIG = 1e100


def rescale_cases(ctx, rebound, ncases):
    """reb_simulation_rescale_var called directly on real simulations with 1-3 variation sets (first order full,
    first-order test particle, second order), every integrator branch, (un)synchronised WHFast/EOS, safe_mode 0/1,
    lrescale < 0 / = 0 / > 0, coordinates below / above 1e100, NaN and inf coordinates."""
    rng = ctx.rng
    clib = rebound.clibrebound
    cases = []
    for k in range(ncases):
        sim = rebound.Simulation()
        n = rng.choice([1, 2, 3])
        for i in range(n):
            sim.add(m=1.0 if i == 0 else 1e-3, x=float(i), y=0.1 * i, vy=1.0 if i else 0.0)
        integ = rng.choice(["whfast", "whfast", "whfast", "eos", "eos", "ias15", "ias15", "ias15", "leapfrog", "bs", "mercurius"])
        # IAS15 state: step once with IAS15 so that its arrays are allocated (for the sets that exist at that time),
        # then possibly add more sets (not covered by the allocation) and switch to the integrator under test
        prestep = rng.random() < (0.85 if integ == "ias15" else 0.3)
        cfgs = []
        firsts = []
        nv = rng.choice([1, 2, 3])

        def add_set():
            kind = rng.choice(["full", "full", "tp", "second"]) if firsts else rng.choice(["full", "full", "tp"])
            if kind == "full":
                var = sim.add_variation(); order = 1; firsts.append(var)
            elif kind == "tp":
                var = sim.add_variation(testparticle=rng.randrange(n)); order = 1
            else:
                var = sim.add_variation(order=2, first_order=firsts[0], first_order_2=rng.choice(firsts)); order = 2
            cfgs.append((var, order))
        n_before = rng.randint(0, nv) if prestep else 0
        for v in range(n_before):
            add_set()
        if prestep:
            sim.integrator = "ias15"
            sim.dt = 1e-3
            sim.step()
        for v in range(nv - n_before):
            add_set()
        sim.integrator = integ
        whs, eoss, sm = rng.random() < 0.7, rng.random() < 0.7, rng.random() < 0.5
        sim.ri_whfast.is_synchronized = 1 if whs else 0
        sim.ri_eos.is_synchronized = 1 if eoss else 0
        sim.ri_whfast.safe_mode = 1 if sm else 0
        rc0 = rng.random() < 0.2
        sim.ri_whfast.recalculate_coordinates_this_timestep = 1 if rc0 else 0
        w0 = rng.choice([0, 0, 0, 1, 2, 3])
        sim._var_rescale_warning = w0
        ri = sim.ri_ias15
        nalloc = ri._N_allocated
        arrs = [ri._csx, ri._csv] + [getattr(d, "p%d" % j) for d in (ri._b, ri._csb, ri._e, ri._br, ri._er) for j in range(7)]
        tab, args, live = {}, [], []
        for var, order in cfgs:
            mode = rng.random()
            mag = 10 ** rng.uniform(-3, 3) if mode < 0.4 else (10 ** rng.uniform(100.01, 250) if mode < 0.9 else 10 ** rng.uniform(99, 100))
            ps = var.particles
            flat = []
            massvar = rng.random() < 0.5
            coords = []
            for p in ps:
                mval = (rng.gauss(0, 1) * mag * rng.choice([1.0, 1e3])) if massvar else 0.0      # may exceed every coordinate: not part of `scale`
                p.m = mval
                flat.append(mval)
                for cn in ("x", "y", "z", "vx", "vy", "vz"):
                    u = rng.random()
                    val = rng.gauss(0, 1) * mag if u < 0.9 else (0.0 if u < 0.95 else rng.choice([float("nan"), float("inf"), -mag * 3]))
                    setattr(p, cn, val)
                    flat.append(val)
                    coords.append(val)
            lres = rng.choice([0.0, 0.0, -1.0, rng.uniform(0, 500), -0.0])
            var.lrescale = lres
            scale = 0.0
            for val in coords:
                if abs(val) > scale:
                    scale = abs(val)
            if scale > BIG and scale != float("inf"):
                tab[scale] = math.log(scale)
            elif scale == float("inf"):
                tab[scale] = float("inf")
            alloc = nalloc >= 3 * (var.index + len(ps))
            state = []
            if alloc:
                for kk in range(3 * var.index, 3 * (var.index + len(ps))):
                    for arr in arrs:
                        arr[kk] = rng.gauss(0, 1) * mag * 1e-3 if rng.random() < 0.9 else 0.0
                        state.append(arr[kk])
            args.append("(%d%%nat, %s, %s, %s, %s)" % (order, vlib.fhex(lres), vlib.flist(flat), "true" if alloc else "false", vlib.flist(state)))
            live.append((var, len(ps), alloc))
        sim._var_rescale_warning = w0
        clib.reb_simulation_rescale_var(ctypes.byref(sim))
        exp = [1.0 if sim._var_rescale_warning & 1 else 0.0, 1.0 if sim._var_rescale_warning & 2 else 0.0,
               float(sim.ri_whfast.recalculate_coordinates_this_timestep)]
        for var, npart, alloc in live:
            exp.append(var.lrescale)
            for p in var.particles:
                exp += [p.m, p.x, p.y, p.z, p.vx, p.vy, p.vz]
            if alloc:
                for kk in range(3 * var.index, 3 * (var.index + npart)):
                    exp += [arr[kk] for arr in arrs]
        b = lambda t: "true" if t else "false"
        icode = {"whfast": 1, "eos": 2, "ias15": 3}.get(integ, 0)
        term = "(runRescale %s [%s] %d %s %s %s %s %s %s [%s])" % (
            vlib.fhex(BIG), "; ".join("(%s, %s)" % (vlib.fhex(a), vlib.fhex(bv)) for a, bv in tab.items()), icode,
            b(whs), b(eoss), b(sm), b(w0 & 1), b(w0 & 2), b(rc0), "; ".join(args))
        cases.append(("rescale", term, exp, {"integrator": integ, "wh_sync": whs, "eos_sync": eoss, "safe_mode": sm, "nvar": nv, "ias15_allocated_sets": sum(1 for l in live if l[2])}))
        ctx.case(key=("rescale", integ, whs, eoss, sm, nv, sum(1 for l in live if l[2])))
    return cases


# ------------------------------------------------------------------ WHFast interaction step correspondence
def whloop_cases(ctx, rebound, ncases):
    """reb_whfast_interaction_step(r, dt) called directly (Jacobi coordinates, gravity basic) on simulations whose p_jh is
    allocated, with random Jacobi positions/velocities, inertial accelerations, 1-2 variation sets, N_active, softening.
    The Jacobi accelerations p_j[..].a written by the function's two transform calls are read back and given to the model."""
    rng = ctx.rng
    clib = rebound.clibrebound
    D = ctypes.c_double
    cases = []
    for k in range(ncases):
        n = rng.choice([2, 3, 3, 4, 5])
        sim = rebound.Simulation()
        sim.integrator = "whfast"
        sim.dt = 1e-3
        sim.G = rng.choice([1.0, 39.47841760435743])
        for i in range(n):
            sim.add(m=1.0 if i == 0 else rng.choice([0.0, 10 ** rng.uniform(-6, -2)]), a=None if i == 0 else 1.0 + 0.7 * i,
                    e=None if i == 0 else 0.05, f=None if i == 0 else rng.uniform(0, 6)) if i else sim.add(m=1.0)
        nv = rng.choice([1, 2])
        vs = [sim.add_variation() for _ in range(nv)]
        for v in vs:
            for p in v.particles:
                p.x, p.y, p.vx = rng.gauss(0, 1), rng.gauss(0, 1), rng.gauss(0, 1)
        sim.step()                       # allocates ri_whfast.p_jh for all N particles
        nact = rng.choice([-1, -1, rng.randint(1, n)])
        sim.N_active = nact
        tpt = rng.random() < 0.3
        sim.testparticle_type = 1 if tpt else 0
        na = n if (nact == -1 or tpt) else nact
        soft = rng.choice([0.0, 0.0, 10 ** rng.uniform(-3, -1)])
        sim.softening = soft
        N = sim.N
        pj = sim.ri_whfast._p_jh
        for i in range(N):
            for c in ("ax", "ay", "az"):
                setattr(sim.particles[i], c, rng.gauss(0, 1))
            for c in ("x", "y", "z", "vx", "vy", "vz"):
                setattr(pj[i], c, rng.gauss(0, 1) * 10 ** rng.uniform(-1, 1))
        before = [[getattr(pj[i], c) for c in ("x", "y", "z", "vx", "vy", "vz")] for i in range(N)]
        dt = rng.choice([1e-3, -2e-3, rng.uniform(0.001, 0.1)])
        clib.reb_whfast_interaction_step(ctypes.byref(sim), D(dt))
        acc = [[getattr(pj[i], c) for c in ("ax", "ay", "az")] for i in range(N)]
        items, exp = [], []
        for i in range(1, n):
            dps = [before[i + v.index] + acc[i + v.index] for v in vs]
            items.append("(%s, %s, [%s])" % (vlib.fhex(pj[i].m), vlib.flist(before[i] + acc[i]), "; ".join(vlib.flist(d) for d in dps)))
            exp += [pj[i].vx, pj[i].vy, pj[i].vz]
            for v in vs:
                q = pj[i + v.index]
                exp += [q.vx, q.vy, q.vz]
        term = "(runWhLoop %s %s %s %d %s [%s])" % (vlib.fhex(sim.G), vlib.fhex(dt), vlib.fhex(soft), na,
                                                    vlib.fhex(sim.particles[0].m), "; ".join(items))
        cases.append(("whloop", term, exp, {"N": n, "N_active": nact, "testparticle_type": tpt, "nvar": nv, "softening": soft}))
        ctx.case(key=("whloop", n, nact, tpt, nv, soft != 0.0))
    return cases


# ------------------------------------------------------------------ MEGNO bookkeeping correspondence
def megno_cases(ctx, rebound, ncases):
    """reb_tools_megno_deltad_delta / reb_tools_megno_update / reb_simulation_megno / reb_simulation_lyapunov called directly."""
    rng = ctx.rng
    clib = rebound.clibrebound
    D = ctypes.c_double
    clib.reb_tools_megno_deltad_delta.restype = D
    clib.reb_simulation_megno.restype = D
    clib.reb_simulation_lyapunov.restype = D
    cases = []
    for k in range(ncases):
        sim = rebound.Simulation()
        n = rng.choice([1, 2, 3, 5])
        for i in range(n):
            sim.add(m=1.0 if i == 0 else 1e-3, x=float(i), vy=1.0 if i else 0.0)
        if rng.random() < 0.3:
            sim.add_variation()
        sim.init_megno(seed=rng.randrange(1 << 30))
        if k % 2 == 0:
            idx = sim._calculate_megno
            ps = []
            for i in range(n):
                p = sim.particles[idx + i]
                vals = [rng.gauss(0, 1) * 10 ** rng.uniform(-2, 2) for _ in range(9)]
                p.x, p.y, p.z, p.vx, p.vy, p.vz, p.ax, p.ay, p.az = vals
                ps.append(vals)
            dt, t = rng.uniform(-0.1, 0.1), rng.uniform(0, 1e4)
            dd = clib.reb_tools_megno_deltad_delta(ctypes.byref(sim))
            exp = [dd, dt * 2. * t * dd]
            term = "(runDD %s %s [%s])" % (vlib.fhex(dt), vlib.fhex(t), "; ".join(vlib.flist(v) for v in ps))
            cases.append(("megno_dd", term, exp, {"kind": "deltad_delta", "N": n}))
        else:
            ups, t = [], 0.0
            for j in range(rng.choice([1, 2, 3, 10, 40])):
                dtd = rng.uniform(0.001, 0.5)
                t = t + dtd if rng.random() < 0.95 else t
                if j == 0 and rng.random() < 0.1:
                    t = 0.0
                dY = rng.gauss(0, 1) * t
                sim.t = t
                clib.reb_tools_megno_update(ctypes.byref(sim), D(dY), D(dtd))
                ups.append((t, dY, dtd))
            tq = rng.choice([t, 0.0, t * 2])
            sim.t = tq
            exp = [sim._megno_Ys, sim._megno_Yss, sim._megno_mean_t, sim._megno_mean_Y, sim._megno_cov_Yt, sim._megno_var_t,
                   clib.reb_simulation_megno(ctypes.byref(sim)), clib.reb_simulation_lyapunov(ctypes.byref(sim))]
            term = "(runMegno [%s] %s)" % ("; ".join("(%s, %s, %s)" % tuple(vlib.fhex(v) for v in u) for u in ups), vlib.fhex(tq))
            cases.append(("megno_upd", term, exp, {"kind": "update", "updates": len(ups)}))
        ctx.case(key=(cases[-1][0], n, len(cases[-1][2])))
    return cases


# ------------------------------------------------------------------ move_to_com over several variation sets
def compass_cases(ctx, rebound, ncases):
    """reb_simulation_move_to_com on real simulations with 2-4 variational configurations (full first-order sets with and
    without mass variations, test-particle sets, second-order sets) in every order; system not in its COM frame.
    Compared: every component of every configuration that the first-order pass touches or must leave alone."""
    rng = ctx.rng
    cases = []
    comps = ["x", "y", "z", "vx", "vy", "vz"]
    for k in range(ncases):
        n = rng.choice([2, 3, 4])
        sim = rebound.Simulation()
        for i in range(n):
            sim.add(m=rng.uniform(0.1, 2) if i == 0 else rng.choice([0.0, 10 ** rng.uniform(-4, -1)]),
                    x=rng.gauss(0, 2), y=rng.gauss(0, 2), z=rng.gauss(0, 1), vx=rng.gauss(0, 1), vy=rng.gauss(0, 1), vz=rng.gauss(0, .3))
        if rng.random() < 0.3:
            # the real particles already exactly in their COM frame: symmetric equal-mass pair(s), optionally massless extras
            sim = rebound.Simulation()
            mm, xx, vv = rng.choice([0.5, 1.0]), rng.choice([0.5, 1.0, 2.0]), rng.choice([0.25, 0.5])
            sim.add(m=mm, x=xx, vy=vv); sim.add(m=mm, x=-xx, vy=-vv)
            if rng.random() < 0.5:
                sim.add(m=0.0, x=rng.gauss(0, 2), y=rng.gauss(0, 2), vz=rng.gauss(0, 1))
            n = sim.N
        cfgs, firsts = [], []
        for v in range(rng.choice([1, 2, 2, 3, 4])):
            kind = rng.choice(["full", "full", "full", "tp", "second"]) if firsts else rng.choice(["full", "full", "tp"])
            if kind == "full":
                var = sim.add_variation(); firsts.append(var)
            elif kind == "tp":
                var = sim.add_variation(testparticle=rng.randrange(n))
            else:
                var = sim.add_variation(order=2, first_order=firsts[0], first_order_2=rng.choice(firsts))
            massvar = rng.random() < 0.6
            for p in var.particles:
                p.m = rng.gauss(0, 1) if massvar else 0.0
                for c in comps:
                    setattr(p, c, rng.gauss(0, 1) * 10 ** rng.uniform(-2, 2))
            cfgs.append((kind, var))
        ms = [sim.particles[i].m for i in range(n)]
        real = {c: [getattr(sim.particles[i], c) for i in range(n)] for c in comps}
        before = [{c: [(p.m, getattr(p, c)) for p in var.particles] for c in comps} for _, var in cfgs]
        sim.move_to_com()
        c = rng.choice(comps)
        items, exp = [], []
        for (kind, var), bf in zip(cfgs, before):
            after = [getattr(p, c) for p in var.particles]
            if kind == "full":
                items.append("(true, [%s])" % "; ".join(vlib.flist([ms[i], real[c][i], bf[c][i][0], bf[c][i][1]]) for i in range(n)))
            elif kind == "tp":
                items.append("(false, [%s])" % vlib.flist([bf[c][0][1]]))     # must be left alone
            else:
                items.append("(false, [%s])" % vlib.flist(after))            # handled by the second-order pass (C20)
            exp += after
        term = "(runComPass %s %s [%s])" % (vlib.flist(ms), vlib.flist(real[c]), "; ".join(items))
        cases.append(("compass", term, exp, {"N": n, "configs": [kd for kd, _ in cfgs], "component": c}))
        ctx.case(key=("compass", n, tuple(kd for kd, _ in cfgs)))
    return cases


def run_corr(ctx, label, cases, header):
    jobs = []
    for c0, ch in chunks(cases, 60):
        body = header + "Definition cases : list (list float * list float) := [\n"
        body += ";\n".join("(%s, %s)" % (t, vlib.flist(e)) for _, t, e, _ in ch)
        body += "].\nEval vm_compute in (bad_cases cases).\n"
        jobs.append(("c16_%s_%d" % (label, c0 // 60), body))
    bad_total, ok_all = [], True
    for (name, ok, out), (c0, _) in zip(vlib.coq_eval_many(jobs), chunks(cases, 60)):
        bad = vlib.parse_coq_list_nat(out) if ok else None
        if bad is None:
            ok_all = False
            ctx.obligation("correspondence:C16:" + name, False, out[-1500:])
        else:
            bad_total += [c0 + b for b in bad]
    return ok_all, bad_total


HEADER = ("From Coq Require Import List ZArith PrimFloat.\nFrom RV Require Import Common.Num Common.FloatNum C02.Model C02.Run "
          "C16.GravityVar Gen.Derivs C16.Rescale C16.WhInteraction C16.Megno C20.Frames C16.ComLoop C16.Run.\nImport ListNotations.\nOpen Scope float_scope.\n")


def run(ctx):
    libdir = ctx.lib()
    sys.path.insert(0, libdir)
    import rebound
    ctx.regen("translate_derivs.py")
    # thorough tier: vlib's single coqchk run over RV.C16.Props (all dependencies, sequential) needs > 40 min because of the
    # 53 generated second-order lemmas; it is replaced here by one coqchk per library of the C16 project, in parallel
    # (-norec: every library of the project is checked by its own job; Coq's standard library and Coquelicot are not re-checked)
    chk_env = os.environ.get("VERIF_COQCHK", "1")
    if ctx.thorough:
        os.environ["VERIF_COQCHK"] = "0"
    proved = ctx.prove("C16", extra_targets=["C16/Run.vo"], timeout=3600)
    if ctx.thorough and chk_env != "0":
        os.environ["VERIF_COQCHK"] = chk_env
        coqchk_parallel(ctx)
    if ctx.thorough:
        ok_pa, out_pa = vlib.coq_eval("c16_pa_d2", "From RV Require Import C16.Deriv2All.\nPrint Assumptions d2_all_proved.\n", timeout=900)
        import re as _re2
        ax = sorted(set(m.group(1) for m in _re2.finditer(r"^([A-Za-z_][\w\.']*)\s*(?::|$)", out_pa.split("Axioms:")[-1], _re2.M))) if "Axioms:" in out_pa else []
        ctx.obligation("C16:Print Assumptions d2_all_proved (53 generated second-order lemmas) compiles", ok_pa, out_pa[-800:])
        ctx.extra.setdefault("print_assumptions", {})["C16_second_order_constructors"] = ax
    table = json.load(open(os.path.join(vlib.BUILD, "c16_derivs_table.json")))
    # second-order constructors: the generated list of proved lemmas (coq/C16/Deriv2All.v) vs the exported functions
    src = open(os.path.join(vlib.COQ, "C16", "Deriv2All.v")).read()
    import re as _re
    allnames = _re.findall(r"\| N_(\w+?)\.?$", src.split("Definition d2_spec")[0], _re.M)
    prv = _re.findall(r"N_(\w+)", src.split("Definition d2_proved")[1].split("].")[0])
    pre = "reb_particle_derivative_"
    exported = sorted(c[0][len(pre):] for c in table if c[0].startswith(pre) and c[0][len(pre):] not in c16_search.PARAMS)
    ctx.extra["second_order_constructors_proved"] = sorted(prv)
    ctx.extra["second_order_constructors_unproved"] = sorted(set(exported) - set(prv))
    ctx.obligation("C16:Deriv2All lists exactly the exported second-order constructors (%d) and every proved lemma is for one of them"
                   % len(exported), sorted(allnames) == exported and set(prv) <= set(exported),
                   "listed %s exported %s" % (sorted(set(allnames) ^ set(exported))[:6], len(exported)))

    # ---- correspondence 1: variational force loops
    gc = grav_cases(ctx, rebound, ctx.scale(240, 3000))
    ok1, bad1 = run_corr(ctx, "grav", gc, HEADER)
    ctx.obligation("correspondence:C16 grav_var1/grav_var1_tp/grav_var2 (binary64) == reb_simulation_update_acceleration "
                   "on variational particles, bit-for-bit on %d cases" % len(gc), ok1 and not bad1,
                   "mismatching cases: %s" % [gc[b][3] for b in bad1[:8]])
    # ---- correspondence 2: every element-derivative constructor and the two maps
    dc = deriv_cases(ctx, rebound, table, ctx.scale(6, 60))
    ok2, bad2 = run_corr(ctx, "deriv", dc, HEADER)
    badfns = sorted({dc[b][0] for b in bad2})
    ctx.obligation("correspondence:C16 %d translated constructors (binary64, libm sin/cos and the library's element conversion as "
                   "inputs) == exported C functions, bit-for-bit on %d cases" % (len(table), len(dc)), ok2 and not bad2,
                   "mismatching functions: %s ; first cases (inputs): %s" % (badfns[:12], [dc[b][3] for b in bad2[:3]]))
    # ---- correspondence 3: reb_simulation_rescale_var, branch for branch
    rc = rescale_cases(ctx, rebound, ctx.scale(180, 2400))
    ok3, bad3 = run_corr(ctx, "rescale", rc, HEADER)
    ctx.obligation("correspondence:C16 rescale_all (binary64, libm log supplied) == reb_simulation_rescale_var on real simulations "
                   "with 1-3 variation sets, bit-for-bit on %d cases (lrescale, all coordinates, IAS15 csx/csv/b/csb/e/br/er of each set, warning bits 1|2, WHFast recalculate flag)"
                   % len(rc), ok3 and not bad3, "mismatching cases: %s" % [rc[b][3] for b in bad3[:8]])
    # ---- correspondence 4: the loop of reb_whfast_interaction_step (Jacobi coordinates) with variational particles
    wc = whloop_cases(ctx, rebound, ctx.scale(120, 1500))
    ok4, bad4 = run_corr(ctx, "whloop", wc, HEADER)
    ctx.obligation("correspondence:C16 wh_loop (binary64) == reb_whfast_interaction_step on real and variational Jacobi particles, "
                   "bit-for-bit on %d cases" % len(wc), ok4 and not bad4, "mismatching cases: %s" % [wc[b][3] for b in bad4[:8]])
    # ---- correspondence 6: move_to_com over several variation sets (per-iteration accumulators)
    cc = compass_cases(ctx, rebound, ctx.scale(200, 2500))
    ok6, bad6 = run_corr(ctx, "compass", cc, HEADER)
    ctx.obligation("correspondence:C16 var1_pass (binary64) == reb_simulation_move_to_com on 2-4 variational configurations in every "
                   "order (mass variations, test-particle and second-order sets in between), bit-for-bit on %d cases" % len(cc),
                   ok6 and not bad6, "mismatching cases: %s" % [cc[b][3] for b in bad6[:6]])
    # ---- correspondence 5: MEGNO bookkeeping
    mc = megno_cases(ctx, rebound, ctx.scale(120, 1500))
    ok5, bad5 = run_corr(ctx, "megno", mc, HEADER)
    ctx.obligation("correspondence:C16 deltad_delta / megno_update / megno / lyapunov (binary64) == reb_tools_megno_* and "
                   "reb_simulation_megno/lyapunov, bit-for-bit on %d cases" % len(mc), ok5 and not bad5,
                   "mismatching cases: %s" % [mc[b][3] for b in bad5[:8]])
    ctx.traces = (len(gc) if ok1 else 0) + (len(dc) if ok2 else 0) + (len(rc) if ok3 else 0) + (len(wc) if ok4 else 0) + (len(mc) if ok5 else 0) + (len(cc) if ok6 else 0)

    # ---- searcher
    c16_search.search(ctx, rebound, libdir)

    ctx.rule = ("force correspondence: random clouds N in 2..9, N_active in 1..N, testparticle_type 0/1, gravity_ignore_terms 0/1/2, "
                "basic/compensated, unit and random variations incl. mass, keyed by (kind,N,N_active,ign,tp,gravity); constructor "
                "correspondence: random bound orbits (e in 0.01..0.8 on both branches of the Pal Kepler solver, inc in 0.01..2.5) per function; "
                "searcher: finite differences per (parameter | pair | integrator | particle class)")
    ctx.assumptions += [
        "theorems are over Coq reals; the binary64 instance of the same Gallina terms is what is compared with the C code",
        "force theorems: softened separation of all visited pairs non-zero (any softening); "
        "any N_active <= N (full strength since /repo 09c4229); second order: all particles active, gravity_ignore_terms 0",
        "constructor theorems: sin/cos values and the Pal (p,q) enter as inputs; their dual parts are the chain-rule pairs "
        "(cos u du, -sin u du) and the code's own dp,dq, which pal_implicit shows to be the unique solution of the linearised Kepler system",
        "kepler_tangent ASSUMES the Stiefel chain rule dG_n = G_(n-1) dX + (n G_(n+2) - X G_(n+1))/2 dbeta (true of the exact functions; "
        "the code evaluates truncated series); truncation-error statements about trajectories, MEGNO/Lyapunov limits are validated only",
    ]


def coqchk_parallel(ctx):
    import re, subprocess
    from concurrent.futures import ThreadPoolExecutor
    libs = []
    for l in open(os.path.join(vlib.COQ, "C16", "FILES")):
        l = l.split("#")[0].strip()
        if l.endswith(".v") and os.path.exists(os.path.join(vlib.COQ, l[:-2] + ".vo")):
            libs.append("RV." + l[:-2].replace("/", "."))
    libs += ["RV.Common.Num", "RV.Common.RealNum", "RV.Common.FloatNum"]

    def one(lib):
        r = subprocess.run(["timeout", "5400", "coqchk", "-silent", "-o", "-Q", ".", "RV", "-norec", lib], cwd=vlib.COQ,
                           capture_output=True, text=True)
        out = r.stdout + r.stderr
        m = re.search(r"\* Axioms:(.*?)\n\s*\n\* Constants/Inductives relying on type-in-type:(.*?)\n\s*\n\* Constants/Inductives relying on unsafe "
                      r"\(co\)fixpoints:(.*?)\n\s*\n\* Inductives whose positivity is assumed:(.*?)\n", out + "\n\n", re.S)
        clean = bool(m) and all("<none>" in m.group(i) for i in (2, 3, 4))
        ax = sorted(set(a.strip() for a in m.group(1).split("\n") if a.strip())) if m else []
        return lib, r.returncode == 0 and clean, ax, out[-600:]
    with ThreadPoolExecutor(max_workers=vlib.JOBS) as ex:
        res = list(ex.map(one, libs))
    bad = [(l, o) for l, ok, ax, o in res if not ok]
    # with -norec the constants of the (separately checked) dependencies are listed as assumed; only genuinely foreign names are kept
    axioms = sorted({a for _, _, ax, _ in res for a in ax
                     if not a.startswith(("Coq.", "RV.", "Coquelicot.", "mathcomp.", "Flocq.", "Interval."))})
    ctx.obligation("coqchk:%d libraries of the C16 project, one job each (-norec): no type-in-type, no unsafe fixpoints, no assumed positivity"
                   % len(libs), not bad, str(bad[:3]))
    ctx.trusted.append("coqchk -o -norec over every library of coq/C16/FILES + Common (dependencies outside the project are not re-checked); "
                       "assumed names outside Coq/Coquelicot/RV: %s; axioms: see print_assumptions" % (", ".join(axioms) or "none"))
    ctx.extra["coqchk_axioms"] = axioms
    ctx.checker_cmd += " ; coqchk -silent -o -Q . RV -norec <each library of coq/C16/FILES> (parallel)"


def replay(ctx, rep):
    libdir = ctx.lib()
    sys.path.insert(0, libdir)
    import rebound
    return c16_search.replay(ctx, rebound, rep)
