#!/venv/bin/python
"""Run every translator tools/translate_*.py (each regenerates its coq/Gen/*.v from /repo's current tree),
then re-assemble coq/_CoqProject. Fail-closed: a translator that fails aborts."""
import glob, os, subprocess, sys
ROOT = os.path.dirname(os.path.dirname(os.path.abspath(__file__)))
os.makedirs(os.path.join(ROOT, "coq", "Gen"), exist_ok=True)
for t in sorted(glob.glob(os.path.join(ROOT, "tools", "translate_*.py"))):
    r = subprocess.run(["/venv/bin/python", t], cwd=ROOT)
    if r.returncode != 0:
        print("translator failed:", t); sys.exit(1)
subprocess.run([sys.executable, os.path.join(ROOT, "tools", "mkcoqproject.py")], stdout=subprocess.DEVNULL)
