/* C11 driver: calls reb_particle_from_fmt (the C argument parser) for many argument sets.
   stdin, one case per line:
       G t pm px py pz pvx pvy pvz  nsimparticles  primflag  <fmt tokens comma-separated or '-'>  v1 v2 ...
   all doubles as C99 hex floats.  The simulation holds `nsimparticles` (0 or 1) copy of the primary, so that
   reb_simulation_com == primary when primary is not passed.  primflag: 1 = the token list contains "primary"
   and the primary struct is passed by value at that position (it then takes NO value from the v list);
   hash values are passed as uint32.
   stdout, one line per case:  <stderr-had-Error:0/1>  m r hash x y z vx vy vz  dN same  (hex floats; NaN printed as nan;
   dN = particles added by reb_simulation_add_fmt for the same request, same = that particle equals the returned one)
   The error text written by the library to stderr is captured per case through a pipe and its class printed
   as the last field (the text after 'Error!'). */
#include <stdio.h>
#include <stdlib.h>
#include <string.h>
#include <stdint.h>
#include <unistd.h>
#include <fcntl.h>
#include "rebound.h"

#define MAXA 40
typedef union { double d; uint32_t u; } val_t;

static struct reb_particle call(int mode, struct reb_simulation* r, const char* fmt, char kinds[], val_t v[], int n, struct reb_particle prim){
    /* kinds: 'd' double, 'p' primary struct, 'u' uint32.  At most 3 non-double arguments are supported by
       enumerating the call shapes explicitly is impossible in portable C; instead we use the fact that the
       parser reads arguments strictly in token order and build the call for the supported shapes:
       any number of doubles (<=MAXA), with optionally ONE primary and optionally ONE hash at the END of the
       token list (the harness orders tokens so). */
    double d[MAXA]; int nd = 0; int hasp = 0, hasu = 0; uint32_t u = 0;
    for (int i=0;i<n;i++){
        if (kinds[i]=='d') d[nd++] = v[i].d;
        else if (kinds[i]=='p') hasp = 1;
        else { hasu = 1; u = v[i].u; }
    }
    for (int i=nd;i<MAXA;i++) d[i] = 0.;
#define D30 d[0],d[1],d[2],d[3],d[4],d[5],d[6],d[7],d[8],d[9],d[10],d[11],d[12],d[13],d[14],d[15],d[16],d[17],d[18],d[19],d[20],d[21],d[22],d[23],d[24],d[25],d[26],d[27],d[28],d[29]
    /* doubles are passed in xmm/stack slots, structs and ints in their own classes, so on x86-64 SysV the
       relative order of (doubles) vs (struct, int) does not matter for va_arg as long as each class is in order;
       we nevertheless put primary/hash tokens last in fmt and pass them first-class here: doubles beyond the
       8 register slots go to the stack IN ARGUMENT ORDER together with the struct, so the struct must come at the
       position matching its token.  To stay strictly portable we therefore require: primary token first, hash token
       second (if present), then all double tokens. */
    if (mode == 1){      /* reb_simulation_add_fmt: the wrapper that adds the particle to the simulation */
        if (hasp && hasu) reb_simulation_add_fmt(r, fmt, prim, u, D30);
        else if (hasp)    reb_simulation_add_fmt(r, fmt, prim, D30);
        else if (hasu)    reb_simulation_add_fmt(r, fmt, u, D30);
        else              reb_simulation_add_fmt(r, fmt, D30);
        struct reb_particle none = {0};
        return none;
    }
    if (hasp && hasu) return reb_particle_from_fmt(r, fmt, prim, u, D30);
    if (hasp)         return reb_particle_from_fmt(r, fmt, prim, D30);
    if (hasu)         return reb_particle_from_fmt(r, fmt, u, D30);
    return reb_particle_from_fmt(r, fmt, D30);
}

static void pd(double x){ if (x!=x) printf(" nan"); else printf(" %a", x); }

int main(void){
    char* line = NULL; size_t cap = 0;
    int saved = dup(2);
    while (getline(&line, &cap, stdin) > 0){
        char* save; char* tok = strtok_r(line, " \n", &save);
        if (!tok) continue;
        double hd[9]; int k = 0;
        hd[k++] = strtod(tok, NULL);
        for (; k<9; k++){ tok = strtok_r(NULL, " \n", &save); hd[k] = strtod(tok, NULL); }
        int nsim = atoi(strtok_r(NULL, " \n", &save));
        int nosim = 0;
        if (nsim < 0){ nosim = 1; nsim = 0; }
        char* fmt = strdup(strtok_r(NULL, " \n", &save));
        char fmtc[512]; strcpy(fmtc, fmt);
        char kinds[MAXA]; val_t v[MAXA]; int n = 0;
        if (strcmp(fmt, "-")==0){ fmtc[0] = 0; }
        else {
            char* s2; char* f2 = strdup(fmt);
            for (char* t = strtok_r(f2, ",", &s2); t; t = strtok_r(NULL, ",", &s2)){
                if (!strcmp(t, "primary")){ kinds[n++] = 'p'; continue; }
                char* vs = strtok_r(NULL, " \n", &save);
                if (!vs){ fprintf(stdout, "BADLINE\n"); return 3; }
                if (!strcmp(t, "hash")){ kinds[n] = 'u'; v[n].u = (uint32_t)strtoul(vs, NULL, 0); n++; }
                else { kinds[n] = 'd'; v[n].d = (!strcmp(vs,"nan")) ? strtod("nan", NULL) : strtod(vs, NULL); n++; }
            }
            free(f2);
        }
        struct reb_simulation* r = NULL;
        struct reb_particle prim = {0};
        prim.m = hd[2]; prim.x = hd[3]; prim.y = hd[4]; prim.z = hd[5]; prim.vx = hd[6]; prim.vy = hd[7]; prim.vz = hd[8];
        if (!nosim){
            r = reb_simulation_create();
            r->G = hd[0]; r->t = hd[1];
            for (int i=0;i<nsim;i++) reb_simulation_add(r, prim);
        }
        /* capture stderr of the call */
        int pfd[2]; if (pipe(pfd)) return 4;
        fcntl(pfd[0], F_SETFL, O_NONBLOCK);
        fflush(stderr); dup2(pfd[1], 2);
        struct reb_particle p = call(0, r, fmtc, kinds, v, n, prim);
        fflush(stderr); dup2(saved, 2); close(pfd[1]);
        char ebuf[1024]; ssize_t ne = read(pfd[0], ebuf, sizeof(ebuf)-1); close(pfd[0]);
        if (ne < 0) ne = 0;
        ebuf[ne] = 0;
        char* em = strstr(ebuf, "Error!");
        /* the same request through reb_simulation_add_fmt: how many particles were added, and is the added one
           bit-identical to what reb_particle_from_fmt returned */
        int dN = -9, same = -9;
        if (r){
            int N0 = r->N;
            int pfd2[2]; if (pipe(pfd2)) return 4;
            fflush(stderr); dup2(pfd2[1], 2);
            call(1, r, fmtc, kinds, v, n, prim);
            fflush(stderr); dup2(saved, 2); close(pfd2[1]); close(pfd2[0]);
            dN = r->N - N0; same = 0;
            if (dN == 1){
                struct reb_particle a = r->particles[r->N-1];
                double A[8] = {a.m, a.r, a.x, a.y, a.z, a.vx, a.vy, a.vz}, B[8] = {p.m, p.r, p.x, p.y, p.z, p.vx, p.vy, p.vz};
                same = (a.hash == p.hash) && (memcmp(A, B, sizeof(A)) == 0 || (a.x != a.x && p.x != p.x));
            }
        }
        printf("%d", em ? 1 : 0);
        pd(p.m); pd(p.r); printf(" %u", p.hash); pd(p.x); pd(p.y); pd(p.z); pd(p.vx); pd(p.vy); pd(p.vz);
        printf(" %d %d", dN, same);
        if (em){
            char* s = em + 6; while (*s==' ' || *s==27 || *s=='[' || *s=='0' || *s=='m') s++;
            char* nl = strchr(s, '\n'); if (nl) *nl = 0;
            printf(" |%s", s);
        } else printf(" |");
        printf("\n");
        if (r) reb_simulation_free(r);
        free(fmt);
    }
    return 0;
}
