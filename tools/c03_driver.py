"""Child-process driver for the C03 checks (run with PYTHONPATH = a freshly built library directory).
stdin: JSON {"mode": "solver"|"sim", "cases": [...]} ; stdout: JSON list of results (doubles as C99 hex strings).
Running the library in a child lets the harness put a timeout on it (a hang is a finding, not a stuck check)."""
import ctypes, json, math, sys, warnings

warnings.filterwarnings("ignore")
import rebound

C6 = ["x", "y", "z", "vx", "vy", "vz"]
fh = float.fromhex


def solver_cases(cases):
    clib = rebound.clibrebound
    clib.reb_whfast_kepler_solver.restype = None
    sim0 = rebound.Simulation()      # timestep_warning starts at 0: the first |dt| > period call takes the warning path,
                                     # every later call runs on the same object AFTER that path was taken
    simv = rebound.Simulation()          # two real particles + one first-order variation: var_config[0].index = 2
    simv.add(m=1.0)
    simv.add(m=1e-3, a=1.0)
    simv.add_variation()
    simv.ri_whfast.timestep_warning = 1
    out = []
    for c in cases:
        arr = (rebound.Particle * 4)()
        for k, n in enumerate(C6):
            setattr(arr[0], n, fh(c["p"][k]))
        if c.get("var"):
            for k, n in enumerate(C6):
                setattr(arr[2], n, fh(c["var"][k]))
            sim = simv
        else:
            sim = sim0
        clib.reb_whfast_kepler_solver(ctypes.byref(sim), arr, ctypes.c_double(fh(c["M"])), ctypes.c_uint(0),
                                      ctypes.c_double(fh(c["dt"])))
        res = [getattr(arr[0], n).hex() for n in C6]
        if c.get("var"):
            res += [getattr(arr[2], n).hex() for n in C6]
        out.append(res)
    return out


def configure(sim, integ, c):
    # Documented protocol (docs/integrators.md, safe_mode): with safe_mode = 0 it is the USER's job to synchronize before the
    # particles are read or modified or the integrator / its settings are changed, and to ask for the internal coordinates
    # to be recalculated afterwards.  Every switch therefore starts with synchronize() under the OLD settings ...
    sim.synchronize()
    sim.integrator = integ
    if integ == "whfast":
        sim.ri_whfast.coordinates = c.get("coordinates") or "jacobi"
        sim.ri_whfast.safe_mode = c.get("safe_mode", 1)
        sim.ri_whfast.kernel = c.get("kernel", "default")
        sim.ri_whfast.corrector = c.get("corrector", 0)
        sim.ri_whfast.recalculate_coordinates_this_timestep = 1     # ... and the new settings start from the particles
    if integ == "saba":
        sim.ri_whfast.coordinates = "jacobi"      # SABA shares ri_whfast and insists on Jacobi coordinates
        sim.ri_whfast.recalculate_coordinates_this_timestep = 1
        sim.ri_saba.type = c.get("saba_type", "10,6,4")
        sim.ri_saba.safe_mode = c.get("safe_mode", 1)
    if integ == "mercurius":
        sim.ri_mercurius.r_crit_hill = 1e-3
    if integ == "trace":
        sim.ri_trace.r_crit_hill = 1e-3
        sim.ri_trace.peri_crit_eta = 1e100      # never switch to the pericentre (BS) mode: "away from encounters"
    if integ == "whfast512":
        sim.exact_finish_time = 0


def apply_history(sim, h):
    op = h["op"]
    if op == "steps":
        configure(sim, h["integrator"], h)
        for _ in range(h.get("n", 1)):
            sim.dt = fh(h["dt"])          # IAS15 changes sim.dt
            sim.step()
    elif op == "error_step":
        # a step refused by reb_integrator_whfast_init (non-default kernel needs Jacobi coordinates); the same object is used on
        sim.synchronize()
        sim.integrator = "whfast"
        sim.ri_whfast.kernel = "lazy"
        sim.ri_whfast.coordinates = "whds"
        sim.dt = fh(h["dt"])
        ps = sim.particles
        snap = ([[getattr(ps[i], n) for n in C6] for i in range(sim.N)], sim.t, int(sim.ri_whfast.is_synchronized))
        raised = False
        try:
            sim.step()
        except Exception:
            raised = True
        ps = sim.particles
        now = ([[getattr(ps[i], n) for n in C6] for i in range(sim.N)], sim.t, int(sim.ri_whfast.is_synchronized))
        sim.ri_whfast.kernel = "default"
        # regression of the fixed finding kepler:refused_step_still_runs_part2: a refused step is a no-op
        if not raised:
            return "the step with kernel=lazy and WHDS coordinates was not refused"
        if repr(now) != repr(snap):
            return "a refused step changed the simulation: (particles, t, is_synchronized) %r -> %r" % (snap, now)
    elif op == "flip_dt_steps":
        # steps forward, then the same number backward with the sign of dt flipped
        configure(sim, h["integrator"], h)
        for sgn in (1.0, -1.0):
            for _ in range(h.get("n", 1)):
                sim.dt = sgn * fh(h["dt"])
                sim.step()
    elif op == "change_central_mass":
        configure(sim, h.get("integrator", "whfast"), h)     # synchronizes first
        sim.particles[0].m = sim.particles[0].m * h["factor"]
        sim.ri_whfast.recalculate_coordinates_this_timestep = 1
        sim.ri_mercurius.recalculate_r_crit_this_timestep = 1
        for _ in range(h.get("n", 1)):
            sim.dt = fh(h["dt"])
            sim.step()
    elif op == "replace_planet":
        # remove the planet and add one back: N unchanged, documented protocol (synchronize before, recalculate after)
        configure(sim, h.get("integrator", "whfast"), h)
        p = sim.particles[1]
        st = dict(m=p.m, x=p.x * h["sx"], y=p.y, z=p.z, vx=p.vx, vy=p.vy * h["sv"], vz=p.vz)
        sim.remove(index=1)
        sim.add(**st)
        sim.ri_whfast.recalculate_coordinates_this_timestep = 1
        sim.ri_mercurius.recalculate_r_crit_this_timestep = 1
        for _ in range(h.get("n", 1)):
            sim.dt = fh(h["dt"])
            sim.step()
    elif op == "copy":
        sim.synchronize()
        return ("replace", sim.copy())
    elif op == "save_load":
        import os, tempfile
        sim.synchronize()
        fd, path = tempfile.mkstemp(suffix=".bin", dir="/tmp")
        os.close(fd); os.remove(path)
        sim.save_to_file(path)
        new = rebound.Simulation(path)
        os.remove(path)
        return ("replace", new)
    elif op == "reset_integrator":
        sim.reset_integrator()
    elif op == "synchronize":
        sim.synchronize()
    elif op == "third_body":
        # a far, light third body joins for a few steps and leaves again (particle arrays are re-allocated twice)
        configure(sim, "whfast", {"coordinates": "jacobi", "safe_mode": 1})     # synchronizes first; safe_mode = 1 while N changes
        p = sim.particles[1]; q = sim.particles[0]
        f = h["factor"]
        sim.add(m=h["m"], x=q.x + f * (p.x - q.x) + f * (p.y - q.y), y=q.y + f * (p.y - q.y) - f * (p.x - q.x), z=q.z + f * (p.z - q.z),
                vx=q.vx, vy=q.vy, vz=q.vz)
        for _ in range(h.get("n", 1)):
            sim.dt = fh(h["dt"])
            sim.step()
        sim.synchronize()
        sim.remove(index=2)
        sim.ri_whfast.recalculate_coordinates_this_timestep = 1
    else:
        raise ValueError("unknown history op " + op)


def sim_cases(cases):
    out = []
    for c in cases:
        try:
            sim = rebound.Simulation()
            sim.G = fh(c["G"])
            for key in ("p0", "p1"):
                p = [fh(v) for v in c[key]]
                sim.add(m=fh(c["m0"] if key == "p0" else c["m1"]), x=p[0], y=p[1], z=p[2], vx=p[3], vy=p[4], vz=p[5])
            for ex in c.get("extra", []):          # further (near-massless) planets, used for WHFast512's 8 lanes
                p = [fh(v) for v in ex["p"]]
                sim.add(m=fh(ex["m"]), x=p[0], y=p[1], z=p[2], vx=p[3], vy=p[4], vz=p[5])
            # HISTORY: what happened to this simulation object before the measured step (integrator / coordinate /
            # kernel / safe_mode switches, reset_integrator, a third body added and removed again ...). The measured
            # step must be the exact Kepler flow of whatever two-body state the history leaves behind.
            notes = []
            for h in c.get("history", []):
                note = apply_history(sim, h)
                if isinstance(note, tuple) and note[0] == "replace":
                    sim = note[1]
                elif note:
                    notes.append(note[:600])
            integ = c["integrator"]
            configure(sim, integ, c)
            sim.synchronize()
            sim.dt = fh(c["dt"])
            t0 = sim.t
            ps = sim.particles
            before = [[getattr(ps[i], n).hex() for n in C6] for i in range(sim.N)]
            sim.step()
            sim.synchronize()
            ps = sim.particles
            res = {"before": before, "notes": notes, "state": [[getattr(ps[i], n).hex() for n in C6] for i in range(sim.N)],
                   # time advanced by the measured step: exactly the requested dt iff t1 == t0 + dt in binary64
                   # (within 2 ulp: the library may accumulate the time with a compensation term)
                   "t": (fh(c["dt"]) if abs(sim.t - (t0 + fh(c["dt"]))) <= 2 * math.ulp(max(abs(t0), abs(sim.t)))
                         else sim.t - t0).hex(), "dt": sim.dt.hex()}
        except Exception as e:   # rebound raises on reb_simulation_error
            res = {"error": repr(e)[:300]}
        out.append(res)
    return out


def sync_cases(cases):
    """Deferred synchronisation: n WHFast steps with safe_mode=0 leave the simulation unsynchronized; then synchronized
    output is obtained in one of several ways.  Returns the state, the reported time and dt_last_done."""
    import os, tempfile
    out = []
    for c in cases:
        try:
            sim = rebound.Simulation()
            sim.G = fh(c["G"])
            for key in ("p0", "p1"):
                p = [fh(v) for v in c[key]]
                sim.add(m=fh(c["m0"] if key == "p0" else c["m1"]), x=p[0], y=p[1], z=p[2], vx=p[3], vy=p[4], vz=p[5])
            sim.integrator = "whfast"
            sim.ri_whfast.coordinates = c["coordinates"]
            sim.ri_whfast.kernel = c.get("kernel", "default")
            sim.ri_whfast.safe_mode = 0
            sim.ri_whfast.keep_unsynchronized = c.get("keep_unsynchronized", 0)
            dt = fh(c["dt"])
            sim.dt = dt
            sim.steps(c["n"])
            way = c["way"]
            if way.startswith("save_load"):
                fd, path = tempfile.mkstemp(suffix=".bin", dir="/tmp")
                os.close(fd)
                os.remove(path)
                sim.save_to_file(path)
                sim = rebound.Simulation(path)
                os.remove(path)
            elif way.startswith("copy"):
                sim = sim.copy()
            if way.endswith("synchronize"):
                sim.synchronize()
            elif way.endswith("integrate_noop"):
                sim.integrate(sim.t)
            elif way.endswith("integrate_small"):
                sim.integrate(sim.t + c["f"] * dt)
            elif way.endswith("integrate_eft0"):
                sim.integrate(sim.t + c["f"] * dt, exact_finish_time=0)
            else:
                raise ValueError("unknown way " + way)
            ps = sim.particles
            res = {"state": [[getattr(ps[i], n).hex() for n in C6] for i in range(sim.N)], "t": sim.t.hex(),
                   "dt": sim.dt.hex(), "dt_last_done": sim.dt_last_done.hex(), "is_synchronized": int(sim.ri_whfast.is_synchronized)}
        except Exception as e:
            res = {"error": repr(e)[:300]}
        out.append(res)
    return out


def edge_cases(cases):
    """degenerate simulations (N = 0, 1; dt = 0, subnormal, non-finite; zero masses; coincident bodies): n steps, then the
    state.  One case per process (a crash must not take other cases with it)."""
    out = []
    for c in cases:
        try:
            sim = rebound.Simulation()
            for p in c["parts"]:
                sim.add(**{k: fh(v) for k, v in p.items()})
            configure(sim, c["integrator"], c)
            sim.dt = fh(c["dt"])
            for _ in range(c.get("n", 1)):
                sim.step()
            sim.synchronize()
            ps = sim.particles
            res = {"state": [[getattr(ps[i], n).hex() for n in C6] for i in range(sim.N)], "t": sim.t.hex()}
        except Exception as e:
            res = {"error": repr(e)[:300]}
        out.append(res)
    return out


def hvf_cases(cases):
    """history vs fresh: simulation A goes through a history, then a FRESH simulation B is built with exactly the same
    particles (after A.synchronize()), time, G and integrator settings; both take the same measured steps.  The WH-type
    integrators have no legitimate memory of the past: the states must agree bit for bit."""
    out = []
    for c in cases:
        try:
            A = rebound.Simulation()
            A.G = fh(c["G"])
            for key in ("p0", "p1"):
                p = [fh(v) for v in c[key]]
                A.add(m=fh(c["m0"] if key == "p0" else c["m1"]), x=p[0], y=p[1], z=p[2], vx=p[3], vy=p[4], vz=p[5])
            for h in c.get("history", []):
                note = apply_history(A, h)
                if isinstance(note, tuple) and note[0] == "replace":
                    A = note[1]
            integ = c["integrator"]
            configure(A, integ, c)                 # synchronizes under the old settings, raises the recalculation flag
            A.ri_mercurius.recalculate_r_crit_this_timestep = 1
            A.synchronize()
            B = rebound.Simulation()
            B.G = A.G
            B.t = A.t
            for q in A.particles:
                B.add(m=q.m, x=q.x, y=q.y, z=q.z, vx=q.vx, vy=q.vy, vz=q.vz, r=q.r)
            configure(B, integ, c)
            dt = fh(c["dt"])
            resA = []; resB = []
            for k in range(c.get("nsteps", 2)):
                for S, res in ((A, resA), (B, resB)):
                    S.dt = dt
                    S.step()
                    S.synchronize()
                    ps = S.particles
                    res.append({"state": [[getattr(ps[i], n).hex() for n in C6] for i in range(S.N)], "t": S.t.hex()})
            out.append({"A": resA, "B": resB, "N": A.N})
        except Exception as e:
            out.append({"error": repr(e)[:300]})
    return out


def main():
    job = json.load(sys.stdin)
    res = {"solver": solver_cases, "sim": sim_cases, "sync": sync_cases, "edge": edge_cases, "hvf": hvf_cases}[job["mode"]](job["cases"])
    json.dump(res, sys.stdout)


if __name__ == "__main__":
    main()
