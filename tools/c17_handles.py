"""C17 searcher: independence of copies / restored simulations THROUGH EVERY PYTHON HANDLE, checked on raw bytes.

Simulations with 2-4 sets of variational equations (MEGNO + first order + second order + test-particle variation);
the derived simulation is obtained by copy(), pickle, plain file, Simulationarchive snapshot; then, for every handle,
the derived simulation is edited and the raw save streams (pointer members NOT masked for the derived one) show that
exactly the derived simulation changed and neither the source nor a never-copied twin did.  Also the raw pointer values
var_config[k].sim and particles[i].sim of the derived simulation must equal addressof(derived)."""
import ctypes, os, pickle, tempfile, warnings


def build(rebound, variant):
    s = rebound.Simulation()
    s.rand_seed = 777
    s.add(m=1.); s.add(m=1e-3, a=1., e=0.05); s.add(m=5e-4, a=1.8, e=0.1, f=1.)
    s.integrator = "ias15" if variant % 2 == 0 else "leapfrog"
    s.dt = 0.02
    if variant in (0, 1):
        s.init_megno(seed=3)
    v1 = s.add_variation()
    v1.particles[1].x = 1e-3
    if variant != 1:
        v2 = s.add_variation()
        v2.particles[2].vy = -2e-3
        v12 = s.add_variation(order=2, first_order=v1, first_order_2=v2)
    if variant == 3:
        s.add_variation(testparticle=2)
    s.steps(2)
    return s


def derive(rebound, gen, src, how):
    if how == "copy":
        return src.copy()
    if how == "pickle":
        return pickle.loads(pickle.dumps(src))
    d = tempfile.mkdtemp(prefix="c17h")
    fn = os.path.join(d, "s.bin")
    try:
        if how == "file":
            src.save_to_file(fn, delete_file=True)
            return rebound.Simulation(fn)
        if how == "archive":
            src.save_to_file(fn, delete_file=True)
            src.save_to_file(fn)                      # snapshot 1 = delta blob
            return rebound.Simulation(fn, snapshot=1)
    finally:
        if os.path.exists(fn):
            os.remove(fn)
        os.rmdir(d)
    raise KeyError(how)


def run(rebound, gen):
    """-> (n_checks, failures)"""
    fails, n = [], 0
    with warnings.catch_warnings():
        warnings.simplefilter("ignore")
        for variant in (0, 1, 2, 3):
            for how in ("copy", "pickle", "file", "archive"):
                src = build(rebound, variant); twin = build(rebound, variant)
                if variant in (0, 2):      # a fixed-size pointer field (display_settings) in the source
                    import c05_archive
                    c05_archive.display_settings_on(rebound, gen, src); c05_archive.display_settings_on(rebound, gen, twin)
                cp = derive(rebound, gen, src, how)
                if variant in (0, 2):
                    ps, pc = c05_archive._ds_ptr(rebound, gen, src), c05_archive._ds_ptr(rebound, gen, cp)
                    n += 1
                    if pc.value is None or pc.value == ps.value:
                        fails.append({"variant": variant, "how": how, "key": "shared-heap:display_settings",
                                      "how_found": "display_settings of the derived simulation is %s, of the source %s" % (pc.value, ps.value)})
                        if pc.value == ps.value:
                            pc.value = None          # avoid the double free so that the run can report
                tag = {"variant": variant, "how": how, "N_var_config": int(src.N_var_config)}
                # raw back pointers
                want = ctypes.addressof(cp)
                for k in range(cp.N_var_config):
                    got = ctypes.cast(cp.var_config[k]._sim, ctypes.c_void_p).value
                    n += 1
                    if got != want:
                        fails.append(dict(tag, key="relink:var_config.sim", k=k,
                                          how_found="var_config[%d].sim of the derived simulation is %s, addressof(derived) is %s (source at %s)"
                                                    % (k, hex(got or 0), hex(want), hex(ctypes.addressof(src)))))
                for i in range(cp.N):
                    got = ctypes.cast(cp.particles[i]._sim, ctypes.c_void_p).value
                    n += 1
                    if got != want:
                        fails.append(dict(tag, key="relink:particles.sim", i=i))
                # edits through every handle
                edits = []
                for k in range(cp.N_var_config):
                    j = 0 if cp.var_config[k].testparticle >= 0 else 1
                    edits.append(("var_config[%d].particles[%d].x" % (k, j), lambda c, k=k, j=j: setattr(c.var_config[k].particles[j], "x", 0.123 + k)))
                    edits.append(("var_config[%d].lrescale" % k, lambda c, k=k: setattr(c.var_config[k], "lrescale", 1.5 + k)))
                    if cp.var_config[k].order == 1 and cp.var_config[k].testparticle < 0:
                        edits.append(("var_config[%d].vary(1,'a')" % k, lambda c, k=k: c.var_config[k].vary(1, "a")))
                for i in range(cp.N):
                    edits.append(("particles[%d].vx" % i, lambda c, i=i: setattr(c.particles[i], "vx", 0.5 + i)))
                edits.append(("dt", lambda c: setattr(c, "dt", 0.011)))
                for name, ed in edits:
                    src_b = gen.save_bytes(rebound, src); twin_b = gen.save_bytes(rebound, twin); cp_b = gen.save_bytes(rebound, cp)
                    try:
                        ed(cp)
                    except Exception as e:
                        fails.append(dict(tag, key="handle:raises", handle=name, detail=repr(e)))
                        continue
                    n += 1
                    src_a = gen.save_bytes(rebound, src); twin_a = gen.save_bytes(rebound, twin); cp_a = gen.save_bytes(rebound, cp)
                    if src_a != src_b or twin_a != twin_b:
                        d = gen.diff_fields(gen.canon(rebound, src_b), gen.canon(rebound, src_a))
                        fails.append(dict(tag, key="handle:edit-of-derived-changed-source", handle=name, fields=d,
                                          how_found="editing the derived simulation through %s changed the raw save stream of the SOURCE" % name))
                    if cp_a == cp_b:
                        fails.append(dict(tag, key="handle:edit-did-not-reach-derived", handle=name,
                                          how_found="editing the derived simulation through %s left its own raw save stream unchanged" % name))
                # and the other direction: edit the source, derived unchanged
                cp_b = gen.save_bytes(rebound, cp)
                for k in range(src.N_var_config):
                    src.var_config[k].particles[0].y = 0.77 + k
                src.particles[0].z = 0.3
                n += 1
                if gen.save_bytes(rebound, cp) != cp_b:
                    fails.append(dict(tag, key="handle:edit-of-source-changed-derived"))
                del cp
    return n, fails


def relink_cases(rebound, gen):
    """(label, stream of source, stream of restored, address of restored) for the Coq correspondence; keeps restored alive"""
    out, keep = [], []
    with warnings.catch_warnings():
        warnings.simplefilter("ignore")
        for variant in (0, 1, 2, 3):
            src = build(rebound, variant)
            b = gen.save_bytes(rebound, src)
            for how in ("copy", "load"):
                r = src.copy() if how == "copy" else gen.load_bytes(rebound, b)
                keep.append(r)
                out.append(("variant%d/%s" % (variant, how), b, gen.save_bytes(rebound, r), ctypes.addressof(r)))
    return out, keep
