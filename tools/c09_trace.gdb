set pagination off
set confirm off
set breakpoint pending on
set print frame-arguments none
break c09_mark
commands
silent
printf "OP MARK %d %d %d %d %d\n", k, f1, f2, f3, f4
continue
end
break reb_whfast_kepler_step if !$_any_caller_is("reb_whfast_apply_corrector", 8) && !$_any_caller_is("reb_whfast_apply_corrector2", 8) && !$_any_caller_is("reb_saba_corrector_step", 8)
commands
silent
printf "OP K %.17g\n", _dt
continue
end
break reb_whfast_com_step if !$_any_caller_is("reb_whfast_apply_corrector", 8) && !$_any_caller_is("reb_whfast_apply_corrector2", 8) && !$_any_caller_is("reb_saba_corrector_step", 8)
commands
silent
printf "OP C %.17g\n", _dt
continue
end
break reb_whfast_jump_step
commands
silent
printf "OP J %.17g\n", _dt
continue
end
break reb_whfast_interaction_step if !$_any_caller_is("reb_whfast_apply_corrector", 8) && !$_any_caller_is("reb_whfast_apply_corrector2", 8) && !$_any_caller_is("reb_saba_corrector_step", 8)
commands
silent
printf "OP I %.17g\n", _dt
continue
end
break reb_whfast_calculate_jerk if !$_any_caller_is("reb_saba_corrector_step", 8)
commands
silent
printf "OP JERK\n"
continue
end
break reb_particles_transform_jacobi_to_inertial_pos if !$_any_caller_is("reb_whfast_apply_corrector", 8) && !$_any_caller_is("reb_whfast_apply_corrector2", 8) && !$_any_caller_is("reb_saba_corrector_step", 8)
commands
silent
printf "OP REPOS %d\n", $_caller_is("reb_integrator_whfast_part1")
continue
end
break reb_integrator_whfast_to_inertial
commands
silent
printf "OP TI\n"
continue
end
break reb_integrator_whfast_from_inertial
commands
silent
printf "OP FI\n"
continue
end
break reb_particles_transform_jacobi_to_inertial_posvel if !$_caller_is("reb_integrator_whfast_to_inertial")
commands
silent
printf "OP POSVEL %d %d\n", $_caller_is("reb_integrator_whfast_synchronize") + $_caller_is("reb_integrator_saba_synchronize"), $_caller_is("reb_integrator_whfast_part2")
continue
end
break reb_particles_transform_democraticheliocentric_to_inertial_posvel if !$_caller_is("reb_integrator_whfast_to_inertial")
commands
silent
printf "OP POSVEL %d 0\n", $_caller_is("reb_integrator_whfast_synchronize")
continue
end
break reb_particles_transform_whds_to_inertial_posvel if !$_caller_is("reb_integrator_whfast_to_inertial")
commands
silent
printf "OP POSVEL %d 0\n", $_caller_is("reb_integrator_whfast_synchronize")
continue
end
break reb_particles_transform_barycentric_to_inertial_posvel if !$_caller_is("reb_integrator_whfast_to_inertial")
commands
silent
printf "OP POSVEL %d 0\n", $_caller_is("reb_integrator_whfast_synchronize")
continue
end
break reb_whfast_apply_corrector
commands
silent
printf "OP CORR %.17g %d\n", inv, order
continue
end
break reb_whfast_apply_corrector2
commands
silent
printf "OP CORR2 %.17g\n", inv
continue
end
break reb_saba_corrector_step
commands
silent
printf "OP SCORR %.17g\n", cc
continue
end
break reb_integrator_mercurius_interaction_step
commands
silent
printf "OP MI %.17g\n", dt
continue
end
break reb_integrator_mercurius_jump_step
commands
silent
printf "OP MJ %.17g\n", dt
continue
end
break reb_integrator_mercurius_com_step
commands
silent
printf "OP MC %.17g\n", dt
continue
end
break reb_integrator_mercurius_kepler_step
commands
silent
printf "OP MK %.17g\n", dt
continue
end
break reb_mercurius_encounter_step
commands
silent
printf "OP MENC %.17g\n", _dt
continue
end
break reb_integrator_mercurius_inertial_to_dh
commands
silent
printf "OP MDH\n"
continue
end
break reb_integrator_mercurius_dh_to_inertial
commands
silent
printf "OP MIN\n"
continue
end
break reb_integrator_eos_drift_shell0 if !$_any_caller_is("reb_integrator_eos_preprocessor", 4) && !$_any_caller_is("reb_integrator_eos_postprocessor", 4)
commands
silent
printf "OP D0 %.17g\n", _dt
continue
end
break reb_integrator_eos_interaction_shell0 if !$_any_caller_is("reb_integrator_eos_preprocessor", 4) && !$_any_caller_is("reb_integrator_eos_postprocessor", 4)
commands
silent
printf "OP I0\n"
continue
end
break reb_integrator_eos_preprocessor if !$_any_caller_is("reb_integrator_eos_drift_shell0", 4)
commands
silent
printf "OP PRE\n"
continue
end
break reb_integrator_eos_postprocessor if !$_any_caller_is("reb_integrator_eos_drift_shell0", 4)
commands
silent
printf "OP POST\n"
continue
end
break reb_integrator_eos_synchronize
commands
silent
printf "OP ESYNC\n"
continue
end
run
quit
