"""C12 — coordinate transformations are mutual inverses and carry the centre of mass.

1. proof obligations: coq/C12 (theorems over R for all N, N_active);
2. correspondence: the SAME Gallina terms at binary64 vs the exported reb_particles_transform_* functions
   of the library built from the current tree, bit for bit;
3. library-only oracle (always run; it is what produces a concrete failing input): round trips and
   slot-0 = centre of mass, judged against exact rational arithmetic.
"""
import ctypes, math, os, sys
from fractions import Fraction
import vlib

COMPS = ["x", "y", "z", "vx", "vy", "vz", "ax", "ay", "az"]


def particle_type(libdir):
    sys.path.insert(0, libdir)
    import rebound
    return rebound.Particle, rebound.clibrebound


def gen_system(rng):
    n = rng.choice([1, 2, 2, 3, 3, 4, 5, 6, 8, 11, 17, 30]) if rng.random() < 0.8 else rng.randint(1, 30)
    na = rng.randint(1, n) if rng.random() < 0.7 else n
    ms = []
    for i in range(n):
        u = rng.random()
        if i == 0:
            m = rng.uniform(0.1, 10)
        elif u < 0.15:
            m = 0.0
        elif u < 0.5:
            m = 10 ** rng.uniform(-12, -1)
        else:
            m = rng.uniform(1e-3, 2)
        ms.append(m)
    sc = 10 ** rng.uniform(-3, 3)
    u = rng.random()
    if u < 0.08: sc = 10 ** rng.uniform(-140, 140)          # far from 1, still clear of overflow in m*x sums
    vals = {c: [rng.gauss(0, 1) * sc for _ in range(n)] for c in COMPS}
    # degenerate configurations: coincident bodies, everything at the origin / at rest, signed zeros, equal masses
    v = rng.random()
    if v < 0.05:
        for c in COMPS: vals[c] = [vals[c][0]] * n
    elif v < 0.09:
        for c in rng.sample(COMPS, rng.randint(1, len(COMPS))): vals[c] = [rng.choice([0.0, -0.0]) for _ in range(n)]
    elif v < 0.12:
        ms = [ms[0]] * n
    return n, na, ms, vals


def mk(Particle, n, ms, vals):
    arr = (Particle * n)()
    for i in range(n):
        arr[i].m = ms[i]
        for c in COMPS:
            setattr(arr[i], c, vals[c][i])
    return arr


def rd(arr, n, comps):
    return [[getattr(arr[i], c) for i in range(n)] for c in comps]


P3, V3, A3 = COMPS[0:3], COMPS[3:6], COMPS[6:9]


def ll(lists):
    return "[" + "; ".join(vlib.flist(l) for l in lists) + "]"



def integrator_roundtrips(ctx, libdir, rng):
    import sys, warnings
    if libdir not in sys.path: sys.path.insert(0, libdir)
    import rebound
    fails = []
    def build(integ, coords, kernel, na, tt, tpm, nvar, seed):
        r2 = __import__("random").Random(seed)
        sim = rebound.Simulation()
        sim.integrator = integ
        if integ == "whfast":
            sim.ri_whfast.coordinates = coords; sim.ri_whfast.kernel = kernel
        sim.add(m=1.0, x=0.013, y=-0.02, z=0.004, vx=0.001, vy=0.002, vz=-0.0005)
        a = 1.0
        for i in range(4):
            m = (10 ** r2.uniform(-5, -3)) if i < 2 else tpm
            sim.add(m=m, a=a, e=r2.uniform(0, 0.2), inc=r2.uniform(0, 0.3), f=r2.uniform(0, 6), omega=r2.uniform(0, 6))
            a *= r2.uniform(1.5, 1.9)
        sim.N_active = na; sim.testparticle_type = tt
        vs = []
        for _ in range(nvar):
            v = sim.add_variation()
            for p in v.particles:
                p.x, p.y, p.z, p.vx, p.vy, p.vz = [r2.uniform(-1, 1) for _ in range(6)]
            vs.append(v)
        return sim, vs
    def state(sim):
        return [(p.x, p.y, p.z, p.vx, p.vy, p.vz) for p in sim.particles]
    def maxdiff(a, b):
        return max(abs(x - y) for pa, pb in zip(a, b) for x, y in zip(pa, pb))
    splits = [(-1, 0, 1e-4), (3, 0, 0.0), (3, 0, 1e-4), (1, 0, 1e-4), (3, 1, 0.0), (3, 1, 1e-4), (1, 1, 1e-4), (4, 1, 1e-4)]
    confs = [("whfast", c, "default") for c in ("jacobi", "democraticheliocentric", "whds", "barycentric")]
    confs += [("whfast", "jacobi", k) for k in ("modifiedkick", "composition", "lazy")] + [("saba", "", "")]
    nrep = ctx.scale(1, 4)
    with warnings.catch_warnings():
        warnings.simplefilter("ignore")
        for rep in range(nrep):
            for integ, coords, kernel in confs:
                for na, tt, tpm in splits:
                    nvar = rng.choice([0, 1, 2]) if (integ == "whfast" and coords == "jacobi" and kernel == "default") else 0
                    seed = rng.randrange(1 << 30)
                    # (1) zero-length step
                    try:
                        sim, _ = build(integ, coords, kernel, na, tt, tpm, nvar, seed)
                        s0 = state(sim); sim.dt = 0.0; sim.step(); sim.synchronize(); e1 = maxdiff(state(sim), s0)
                    except Exception as ex:
                        e1 = None; err = repr(ex)[:200]
                    ctx.case(key=("dt0", integ, coords, kernel, na, tt, nvar))
                    if e1 is None or not e1 < 1e-12:
                        fails.append({"system": "integrator-roundtrip:%s/%s/%s" % (integ, coords, kernel), "N": 5, "N_active": na,
                                      "testparticle_type": tt, "tp_mass": tpm, "N_var_config": nvar, "seed": seed,
                                      "roundtrip_error": e1, "tolerance": 1e-12,
                                      "what": "a zero-length step (inertial -> internal coordinates -> inertial) does not return the particles"})
                    # (2) one semi-active particle of type 1 == all active (no test-test pair exists)
                    if (na, tt) == (4, 1):
                        try:
                            res = []
                            for na2, tt2 in ((-1, 0), (4, 1)):
                                sim, _ = build(integ, coords, kernel, na2, tt2, tpm, nvar, seed)
                                sim.dt = 0.01; sim.steps(20); sim.synchronize(); res.append(state(sim))
                            e2 = maxdiff(res[0], res[1])
                        except Exception as ex:
                            e2 = None
                        ctx.case(key=("semiactive", integ, coords, kernel, nvar))
                        if e2 is None or not e2 < 1e-12:
                            fails.append({"system": "integrator-split:%s/%s/%s" % (integ, coords, kernel), "N": 5, "N_active": 4,
                                          "testparticle_type": 1, "tp_mass": tpm, "N_var_config": nvar, "seed": seed,
                                          "roundtrip_error": e2, "tolerance": 1e-12,
                                          "what": "N_active=N-1 with testparticle_type=1 differs from the all-active run"})
    return fails

def run(ctx):
    libdir = ctx.lib()
    ctx.regen("translate_xfsites.py")      # Gen/C12Sites.v: the integrators' call sites of the transformations
    proved = ctx.prove("C12", extra_targets=["C12/Run.vo"])
    Particle, clib = particle_type(libdir)
    U = ctypes.c_uint
    rng = ctx.rng
    ncases = ctx.scale(400, 6000)
    cases = []      # (label, coq_term, expected_flat)
    oracle_fail = []
    kinds = ["jacF6", "jacF9", "jacF3", "jacI6", "jacI3p", "jacI3a", "dhF", "dhIp", "dhI", "whdsF", "whdsIp",
             "whdsI", "baryF", "baryIp", "baryI", "baryIa"]
    dist = {}
    for k in range(ncases):
        kind = kinds[k % len(kinds)]
        n, na, ms, vals = gen_system(rng)
        src = mk(Particle, n, ms, vals)
        dst = mk(Particle, n, [0.0] * n, {c: [0.0] * n for c in COMPS})
        pm = mk(Particle, n, ms, vals)
        if kind.startswith("jac") and k % 3 != 0:
            # the Jacobi routines take the masses from a SEPARATE array p_mass (WHFast passes the real particles there
            # when it transforms variational particles, whose own .m is unrelated): give the set unrelated own masses
            for i in range(1 if kind.startswith("jacI") else 0, n):
                src[i].m = rng.choice([0.0, rng.uniform(0.0, 3.0)])
        msl = vlib.flist(ms)
        dist[(kind, min(n, 9), na == n)] = dist.get((kind, min(n, 9), na == n), 0) + 1
        f = lambda name: getattr(clib, "reb_particles_transform_" + name)
        if kind.startswith("jacF"):
            comps, fn = {"jacF6": (P3 + V3, "inertial_to_jacobi_posvel"), "jacF9": (COMPS, "inertial_to_jacobi_posvelacc"),
                         "jacF3": (A3, "inertial_to_jacobi_acc")}[kind]
            f(fn)(src, dst, pm, U(n), U(na))
            exp = sum(rd(dst, n, comps), []) + [dst[0].m]
            if kind == "jacF3":     # the acc variant does not write p_j[0].m; Mtotal is internal
                exp = exp[:-1]
                term = "(firstn %d (jacF %s %s %d))" % (3 * n, msl, ll(rd(src, n, comps)), na)
            else:
                term = "(jacF %s %s %d)" % (msl, ll(rd(src, n, comps)), na)
        elif kind.startswith("jacI"):
            comps, fn = {"jacI6": (P3 + V3, "jacobi_to_inertial_posvel"), "jacI3p": (P3, "jacobi_to_inertial_pos"),
                         "jacI3a": (A3, "jacobi_to_inertial_acc")}[kind]
            mtot = math.fsum(ms[:na]) * (1 + rng.uniform(-1e-3, 1e-3))
            src[0].m = mtot
            f(fn)(dst, src, pm, U(n), U(na))
            exp = sum(rd(dst, n, comps), [])
            term = "(jacI %s %s %s %d)" % (msl, ll(rd(src, n, comps)), vlib.fhex(mtot), na)
        elif kind in ("dhF", "whdsF"):
            fn = "inertial_to_democraticheliocentric_posvel" if kind == "dhF" else "inertial_to_whds_posvel"
            f(fn)(src, dst, U(n), U(na))
            exp = sum(rd(dst, n, P3 + V3), []) + [dst[0].m]
            term = "(%s %s %s %s %d)" % (kind, msl, ll(rd(src, n, P3)), ll(rd(src, n, V3)), na)
        elif kind in ("dhI", "whdsI", "dhIp", "whdsIp"):
            mtot = math.fsum(ms[:na]) * (1 + rng.uniform(-1e-3, 1e-3))
            src[0].m = mtot
            dst[0].m = ms[0]
            for i in range(na, n):
                dst[i].m = ms[i]
            base = "democraticheliocentric" if kind.startswith("dh") else "whds"
            if kind.endswith("p"):
                f(base + "_to_inertial_pos")(dst, src, U(n), U(na))
                exp = sum(rd(dst, n, P3), [])
                term = "(firstn %d (%s %s %s %s %s %d))" % (3 * n, kind[:-1], msl, ll(rd(src, n, P3)), ll(rd(src, n, V3)), vlib.fhex(mtot), na)
            else:
                f(base + "_to_inertial_posvel")(dst, src, U(n), U(na))
                exp = sum(rd(dst, n, P3 + V3), [])
                term = "(%s %s %s %s %s %d)" % (kind, msl, ll(rd(src, n, P3)), ll(rd(src, n, V3)), vlib.fhex(mtot), na)
        elif kind == "baryF":
            f("inertial_to_barycentric_posvel")(src, dst, U(n), U(na))
            exp = sum(rd(dst, n, P3 + V3), []) + [dst[0].m]
            term = "(baryF %s %s %d)" % (msl, ll(rd(src, n, P3 + V3)), na)
        else:
            comps, fn = {"baryI": (P3 + V3, "barycentric_to_inertial_posvel"), "baryIp": (P3, "barycentric_to_inertial_pos"),
                         "baryIa": (A3, "barycentric_to_inertial_acc")}[kind]
            M = math.fsum(ms[:na]) * (1 + rng.uniform(-1e-3, 1e-3))
            src[0].m = M
            f(fn)(dst, src, U(n), U(na))
            exp = sum(rd(dst, n, comps), [])
            term = "(baryI %s %s %s %d)" % (msl, ll(rd(src, n, comps)), vlib.fhex(M), na)
        cases.append((kind, term, exp, (n, na)))
        ctx.case(key=(kind, n, na), sample={"kind": kind, "N": n, "N_active": na, "masses": ms[:4]} if k < 3 else None)

    # ---- MERCURIUS / TRACE in-place shifts on real Simulation objects (functions are not DLLEXPORT but visible)
    import rebound
    for k in range(ctx.scale(120, 1500)):
        integ = "mercurius" if k % 2 == 0 else "trace"
        n, na, ms, vals = gen_system(rng)
        sim = rebound.Simulation()
        for i in range(n):
            sim.add(m=ms[i], x=vals["x"][i], y=vals["y"][i], z=vals["z"][i], vx=vals["vx"][i], vy=vals["vy"][i], vz=vals["vz"][i])
        tptype = rng.choice([0, 0, 1])
        sim.testparticle_type = tptype
        if na < n or rng.random() < 0.5:
            sim.N_active = na
        na_eff = n if (sim.N_active == -1 or tptype == 1) else sim.N_active
        ri = getattr(sim, "ri_" + integ)
        msl = vlib.flist(ms)
        fwd = k % 4 < 2
        if fwd:
            getattr(clib, "reb_integrator_%s_inertial_to_dh" % integ)(ctypes.byref(sim))
            out = [[getattr(sim.particles[i], c) for i in range(n)] for c in P3 + V3]
            exp = sum(out, []) + [ri._com_pos.x, ri._com_pos.y, ri._com_pos.z, ri._com_vel.x, ri._com_vel.y, ri._com_vel.z]
            term = "(mercF %s %s %s %d)" % (msl, ll([vals[c] for c in P3]), ll([vals[c] for c in V3]), na_eff)
        else:
            cp = [rng.gauss(0, 1) for _ in range(3)]; cv = [rng.gauss(0, 1) for _ in range(3)]
            ri._com_pos.x, ri._com_pos.y, ri._com_pos.z = cp
            ri._com_vel.x, ri._com_vel.y, ri._com_vel.z = cv
            getattr(clib, "reb_integrator_%s_dh_to_inertial" % integ)(ctypes.byref(sim))
            exp = sum([[getattr(sim.particles[i], c) for i in range(n)] for c in P3 + V3], [])
            term = "(mercI %s %s %s %s %s %d)" % (msl, ll([vals[c] for c in P3]), ll([vals[c] for c in V3]),
                                                 vlib.flist(cp), vlib.flist(cv), na_eff)
        kind = integ + ("F" if fwd else "I")
        cases.append((kind, term, exp, (n, na_eff)))
        dist[(kind, min(n, 9), na_eff == n)] = dist.get((kind, min(n, 9), na_eff == n), 0) + 1
        ctx.case(key=(kind, n, na_eff))

    # ---- correspondence: evaluate the model inside Coq on the same inputs
    jobs = []
    chunk = 100
    for c0 in range(0, len(cases), chunk):
        body = "From Coq Require Import List ZArith PrimFloat.\nFrom RV Require Import Common.FloatNum C12.Run.\nImport ListNotations.\nOpen Scope float_scope.\n"
        body += "Definition cases : list (list float * list float) := [\n"
        body += ";\n".join("(%s, %s)" % (t, vlib.flist(e)) for _, t, e, _ in cases[c0:c0 + chunk])
        body += "].\nEval vm_compute in (bad_cases cases).\n"
        jobs.append(("c12_%d" % (c0 // chunk), body))
    bad_total = []
    corr_ok = True
    for (name, ok, out), c0 in zip(vlib.coq_eval_many(jobs), range(0, len(cases), chunk)):
        bad = vlib.parse_coq_list_nat(out) if ok else None
        if bad is None:
            corr_ok = False
            ctx.obligation("correspondence:C12:" + name, False, out[-1500:])
        else:
            bad_total += [c0 + b for b in bad]
    ctx.traces = len(cases) if corr_ok else 0
    ctx.obligation("correspondence:C12 model(binary64) == reb_particles_transform_* bit-for-bit on %d cases" % len(cases),
                   corr_ok and not bad_total,
                   "mismatching cases: %s" % [(cases[b][0], cases[b][3]) for b in bad_total[:10]])
    ctx.extra["input_distribution"] = {"%s|N=%s|all_active=%s" % k: v for k, v in sorted(dist.items())[:60]}

    # ---- library-only oracle: round trip + slot 0 = COM, exact-arithmetic judge
    nor = ctx.scale(300, 5000)
    for k in range(nor):
        n, na, ms, vals = gen_system(rng)
        if any(m == 0.0 for m in ms[:na]) and rng.random() < 0.5:
            pass
        for system in ("jacobi", "democraticheliocentric", "whds", "barycentric"):
            src = mk(Particle, n, ms, vals)
            mid = mk(Particle, n, [0.0] * n, {c: [0.0] * n for c in COMPS})
            # the destination of the inverse is an array with a history: other masses in the active slots i >= 1 (the
            # inverse maps take the masses of those from the transformed set: "in case of merger/mass change")
            ms_stale = [m if (i == 0 or i >= na) else m * 1.05 + 1e-9 for i, m in enumerate(ms)]
            back = mk(Particle, n, ms_stale if system != "jacobi" else ms, {c: [0.0] * n for c in COMPS})
            if system == "jacobi":
                clib.reb_particles_transform_inertial_to_jacobi_posvel(src, mid, src, U(n), U(na))
                clib.reb_particles_transform_jacobi_to_inertial_posvel(back, mid, src, U(n), U(na))
            else:
                getattr(clib, "reb_particles_transform_inertial_to_%s_posvel" % system)(src, mid, U(n), U(na))
                getattr(clib, "reb_particles_transform_%s_to_inertial_posvel" % system)(back, mid, U(n), U(na))
            ctx.evaluations += 1
            # conditioning: round-off is amplified by M_total/m_0 at worst (slot 0 is recovered from the COM)
            scale = max(abs(vals[c][i]) for c in P3 + V3 for i in range(n)) or 1.0
            mtot = math.fsum(ms[:na])
            amp = max(1.0, mtot / ms[0]) * (n + 4)
            tol = 64 * 2.2e-16 * scale * amp
            worst = 0.0
            for c in P3 + V3:
                for i in range(n):
                    worst = max(worst, abs(getattr(back[i], c) - vals[c][i]))
            # slot 0 = centre of mass of the active particles (exact rationals)
            com_bad = None
            for c in P3 + V3:
                num = sum(Fraction(ms[i]) * Fraction(vals[c][i]) for i in range(na))
                com = num / sum(Fraction(ms[i]) for i in range(na))
                got = getattr(mid[0], c)
                if abs(Fraction(got) - com) > Fraction(tol):
                    com_bad = (c, got, float(com))
            m_bad = abs(mid[0].m - mtot) > 1e-13 * mtot
            # "the position-only, position-velocity and acceleration variants agree with one another": the pos-only
            # inverse must return the positions of the posvel inverse (same recurrence, so to rounding; the start
            # values of the test-particle slots are the posvel result so that variants which leave slots alone show)
            var_bad = None
            back2 = mk(Particle, n, ms_stale if system != "jacobi" else ms, {c: [0.0] * n for c in COMPS})
            if system == "jacobi":
                clib.reb_particles_transform_jacobi_to_inertial_pos(back2, mid, src, U(n), U(na))
            else:
                getattr(clib, "reb_particles_transform_%s_to_inertial_pos" % system)(back2, mid, U(n), U(na))
            for c in P3:
                for i in range(n):
                    d_ = abs(getattr(back2[i], c) - getattr(back[i], c))
                    if not d_ <= tol: var_bad = (c, i, getattr(back2[i], c), getattr(back[i], c))
            # masses of the active slots i >= 1 come back from the transformed set (both variants)
            if system != "jacobi":
                for i in range(1, na):
                    if back[i].m != ms[i] or back2[i].m != ms[i]:
                        var_bad = ("m", i, back[i].m, back2[i].m, ms[i])
            if worst > tol or com_bad or m_bad or worst != worst or var_bad:
                oracle_fail.append({"system": system, "N": n, "N_active": na, "masses": [x.hex() for x in ms], "pos_variant_disagrees": var_bad,
                                    "values": {c: [x.hex() for x in vals[c]] for c in P3 + V3},
                                    "roundtrip_error": worst, "tolerance": tol, "slot0": com_bad, "mass_bad": m_bad})
    # ---- the split with NO active particle (N_active = 0; the library produces it when the only active particle is
    # removed): for the Jacobi family particle 0 is the reference body whatever the flag says, so the result must be the
    # one for N_active = 1, bit for bit with the model (whose na-1 is a natural-number subtraction) and a round trip.
    # In a child process: a library that runs out of bounds here dies with SIGSEGV.
    import json as _json, subprocess as _sp
    na0 = []
    for k in range(ctx.scale(12, 60)):
        n, _, ms, vals = gen_system(rng)
        na0.append({"n": n, "ms": [m.hex() for m in ms], "vals": {c: [v.hex() for v in vals[c]] for c in COMPS}})
    na0_terms = []
    try:
        r = vlib.run_py(libdir, os.path.join(os.path.dirname(os.path.abspath(__file__)), "c12_na0_driver.py"), [libdir],
                        timeout=120, input=_json.dumps(na0))
        died = r.returncode != 0
        detail = "exit %s: %s" % (r.returncode, (r.stderr or "")[-300:])
    except _sp.TimeoutExpired:
        died, detail, r = True, "did not return within 120 s", None
    if died:
        oracle_fail.append({"system": "jacobi:N_active=0", "N": na0[0]["n"], "N_active": 0, "masses": na0[0]["ms"], "values": na0[0]["vals"],
                            "what": "reb_particles_transform_inertial_to_jacobi_posvelacc / jacobi_to_inertial_{posvel,pos,acc} called with "
                                    "N_active = 0 did not return (child process %s)" % detail})
    else:
        res = _json.loads(r.stdout)
        for s_, o_ in zip(na0, res):
            n = s_["n"]; ms = [float.fromhex(x) for x in s_["ms"]]
            vals = {c: [float.fromhex(x) for x in s_["vals"][c]] for c in COMPS}
            ctx.case(key=("jacobi-na0", n))
            fwd = [[float.fromhex(x) for x in row] for row in o_["fwd"]]
            msl = vlib.flist(ms)
            na0_terms.append(("jacF9-na0", "(jacF %s %s 0)" % (msl, ll([vals[c] for c in COMPS])),
                              [fwd[i][j] for j in range(9) for i in range(n)] + [float.fromhex(o_["m0"])], (n, 0)))
            scale = max(abs(vals[c][i]) for c in COMPS for i in range(n)) or 1.0
            tol = 64 * 2.2e-16 * scale * (n + 4)
            for name, comps in (("posvel", COMPS[:6]), ("pos", COMPS[:3]), ("acc", COMPS[6:])):
                back = [[float.fromhex(x) for x in row] for row in o_["back_" + name]]
                na0_terms.append(("jacI-%s-na0" % name,
                                  "(jacI %s %s %s 0)" % (msl, ll([[fwd[i][COMPS.index(c)] for i in range(n)] for c in comps]), vlib.fhex(float.fromhex(o_["m0"]))),
                                  [back[i][j] for j in range(len(comps)) for i in range(n)], (n, 0)))
                worst = max(abs(back[i][j] - vals[c][i]) for j, c in enumerate(comps) for i in range(n))
                if not worst <= tol:
                    oracle_fail.append({"system": "jacobi:N_active=0:" + name, "N": n, "N_active": 0, "masses": s_["ms"], "values": s_["vals"],
                                        "roundtrip_error": worst, "tolerance": tol})
        bodyh = ("From Coq Require Import List PrimFloat ZArith.\nFrom RV Require Import Common.FloatNum C12.Run.\nImport ListNotations.\nOpen Scope float_scope.\n")
        body = bodyh + "Definition cases : list (list float * list float) := [\n" + ";\n".join("(%s, %s)" % (t, vlib.flist(e)) for _, t, e, _ in na0_terms) + "].\nEval vm_compute in (bad_cases cases).\n"
        (name_, ok_, out_), = vlib.coq_eval_many([("c12_na0", body)])
        bad_ = vlib.parse_coq_list_nat(out_) if ok_ else None
        ctx.obligation("correspondence:C12 Jacobi family with N_active = 0: model(binary64) == library bit-for-bit on %d calls" % len(na0_terms),
                       bad_ == [], "mismatching: %s" % ([na0_terms[b][0] for b in (bad_ or [])][:8] if bad_ is not None else out_[-800:]))
    # ---- the transformations as the integrators apply them: a zero-length WHFast/SABA step is nothing but
    # inertial -> internal coordinates -> inertial (real and variational particles), and a run with semi-active
    # (type 1) particles but no test-test pair is the all-active run
    oracle_fail += integrator_roundtrips(ctx, libdir, rng)
    if oracle_fail:
        o = min(oracle_fail, key=lambda d: d["N"])
        ctx.violation("transform:%s" % o["system"], o, True,
                      "round trip / centre-of-mass slot of the %s transformation fails on the library" % o["system"])
    elif not (corr_ok and not bad_total) or not proved:
        pass   # finish() reports the broken obligation with no-failing-input-found
    ctx.rule = ("random systems N in 1..30, N_active in 1..N (and 0 for the Jacobi family, in a child process), masses incl. 0 and ratios to 1e-12, magnitudes 1e-140..1e140, coincident / all-zero / signed-zero / equal-mass configurations, 16 exported transformation "
                "variants; a case is distinct by (variant, N, N_active); all cases exercise loops (non-trivial) when N>1")
    ctx.assumptions += [
        "theorems are over Coq reals (exact arithmetic); the binary64 instance of the same Gallina term is what is compared with the C code",
        "hypotheses of the theorems: 1 <= N_active <= N and non-zero partial mass sums (zero-mass bodies allowed); N_active = 0 is covered for the Jacobi family (it is the N_active = 1 routine: C12_jacobi_no_active_particle); for DH/WHDS/barycentric N_active = 0 means zero total mass, where the centre of mass is undefined and the routines return NaN",
        "the lift from one scalar component to the particle array is part of the trusted model glue (coq/C12/Run.v), validated by the bit-exact comparison",
    ]
