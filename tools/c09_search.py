"""C09 searcher (library only; run as a child process with the freshly built library on PYTHONPATH).

usage: c09_search.py <seed> <tier> <out.json> [avx512]

 (i)   keep_unsynchronized=1, safe_mode=0: a step sequence with inserted synchronize()/save_to_file()/copy()/energy()/
       particle reads/integrate() calls ends (after a final synchronize of both) in the bit-identical state AND the
       bit-identical cached coordinates (p_jh) as the same step sequence without the insertions;
 (ii)  safe_mode=1 versus safe_mode=0 (with and without keep_unsynchronized) + one final synchronize: equal to rounding
       (tolerance = amplification-aware multiple of eps*steps, calibrated against the orbit's own sensitivity);
       EOS: within a fraction of the scheme's truncation error (calibrated by the dt versus dt/2 difference);
 (iii) synchronize twice == synchronize once, bit for bit (particles, cache and flags).
Failing call sequences are shrunk (greedy removal of inserted calls / steps).
Prints nothing but writes a JSON report {evaluations, keys, fails:[{key, why, replay}]}.
"""
import sys, os, json, random, math, struct, tempfile, warnings, ctypes

warnings.simplefilter("ignore")
import rebound

EPS = 2.0 ** -52
TMP = tempfile.mkdtemp(prefix="c09s_")


def bits(x):
    return struct.unpack("<Q", struct.pack("<d", x))[0]


def pstate(sim):
    out = []
    for i in range(sim.N):
        p = sim.particles[i]
        out += [p.x, p.y, p.z, p.vx, p.vy, p.vz, p.m]
    return out


def cache(sim, integ):
    """the cached coordinates the next step continues from (None if not exposed)."""
    if integ in ("whfast", "saba"):
        pj = sim.ri_whfast._p_jh
        if not pj:
            return []
        out = []
        for i in range(sim.N):
            p = pj[i]
            out += [p.x, p.y, p.z, p.vx, p.vy, p.vz, p.m]
        return out
    return []


def flags(sim, integ):
    if integ == "whfast":
        w = sim.ri_whfast
        return [w.is_synchronized, w.recalculate_coordinates_this_timestep, w.safe_mode, w.keep_unsynchronized]
    if integ == "saba":
        s = sim.ri_saba
        return [s.is_synchronized, sim.ri_whfast.recalculate_coordinates_this_timestep, s.safe_mode, s.keep_unsynchronized]
    if integ == "whfast512":
        return [sim.ri_whfast512.is_synchronized, sim.ri_whfast512.keep_unsynchronized]
    if integ == "mercurius":
        m = sim.ri_mercurius
        return [m.is_synchronized, m.recalculate_coordinates_this_timestep, m.safe_mode]
    if integ == "eos":
        return [sim.ri_eos.is_synchronized, sim.ri_eos.safe_mode]
    return []


def same(a, b):
    return len(a) == len(b) and all((x != x and y != y) or bits(x) == bits(y) for x, y in zip(a, b))


# --------------------------------------------------------------------------------------------- systems / configurations
def make(cfg):
    """cfg: dict(integ, opts..., system, dt, safe, keep). Builds a fresh simulation."""
    sim = rebound.Simulation()
    sysk = cfg.get("system", 0)
    rs = random.Random(cfg.get("sysseed", 1))
    sim.add(m=1.0)
    npl = cfg.get("nplanets", 3)
    a = 1.0
    for k in range(npl):
        sim.add(m=10 ** rs.uniform(-6, -3.3), a=a, e=rs.uniform(0.0, 0.12), inc=rs.uniform(0, 0.05),
                omega=rs.uniform(0, 6), f=rs.uniform(0, 6), Omega=rs.uniform(0, 6))
        a *= rs.uniform(1.5, 1.9)
    ntp = cfg.get("ntest", 0)
    if ntp:
        sim.N_active = sim.N
        for k in range(ntp):
            sim.add(m=0.0 if cfg.get("tptype", 0) == 0 else 1e-9, a=a, e=0.05, f=rs.uniform(0, 6))
            a *= 1.4
        sim.testparticle_type = cfg.get("tptype", 0)
    sim.move_to_com()
    integ = cfg["integ"]
    sim.integrator = integ
    sim.dt = cfg["dt"]
    if integ == "whfast":
        w = sim.ri_whfast
        w.kernel = cfg.get("kernel", 0); w.coordinates = cfg.get("coordinates", 0)
        w.corrector = cfg.get("corrector", 0); w.corrector2 = cfg.get("corrector2", 0)
        w.safe_mode = cfg["safe"]; w.keep_unsynchronized = cfg["keep"]
        var = cfg.get("var", 0)
        if var == 1:
            v = sim.add_variation(); v.particles[1].vx = 1.0; v.particles[2].y = 0.3
        elif var == 2:
            sim.init_megno(seed=cfg.get("sysseed", 1) + 7)
    elif integ == "saba":
        sim.ri_saba.type = cfg.get("type", 0x0)
        sim.ri_saba.safe_mode = cfg["safe"]; sim.ri_saba.keep_unsynchronized = cfg["keep"]
    elif integ == "mercurius":
        sim.ri_mercurius.safe_mode = cfg["safe"]
    elif integ == "eos":
        sim.ri_eos.phi0 = cfg.get("phi0", 0); sim.ri_eos.phi1 = cfg.get("phi1", 0); sim.ri_eos.n = cfg.get("n", 2)
        sim.ri_eos.safe_mode = cfg["safe"]
    elif integ == "whfast512":
        sim.ri_whfast512.keep_unsynchronized = cfg["keep"]
        sim.ri_whfast512.gr_potential = cfg.get("gr", 0)
        sim.exact_finish_time = 0
    return sim


def apply(sim, op, cfg, k):
    """one API call. op = ("step", n) | ("sync",) | ("save",) | ("copy",) | ("energy",) | ("get",) | ("integrate", n)"""
    o = op[0]
    if o == "step":
        sim.steps(op[1])
    elif o == "sync":
        sim.synchronize()
    elif o == "save":
        fn = os.path.join(TMP, "s%d_%d.bin" % (os.getpid(), k))
        sim.save_to_file(fn, delete_file=True)
        os.remove(fn)
    elif o == "copy":
        c = sim.copy()
        c.steps(1)          # a copy that runs on must not disturb the original
        del c
    elif o == "energy":
        sim.energy(); sim.angular_momentum(); sim.com()
    elif o == "get":
        for p in sim.particles:
            _ = (p.x, p.vx)
        try:
            sim.particles[1].orbit(primary=sim.particles[0])
        except Exception:
            pass
    elif o == "integrate":
        n0 = sim.steps_done
        sim.integrate(sim.t + (op[1] - 0.5) * sim.dt, exact_finish_time=0)
        if sim.steps_done - n0 != op[1]:
            raise RuntimeError("integrate did %d steps instead of %d" % (sim.steps_done - n0, op[1]))
    else:
        raise ValueError(op)


def run_seq(cfg, seq, final_sync=True):
    sim = make(cfg)
    for k, op in enumerate(seq):
        apply(sim, op, cfg, k)
    pre_cache = cache(sim, cfg["integ"]); pre_flags = flags(sim, cfg["integ"])
    if final_sync:
        sim.synchronize()
    return {"p": pstate(sim), "t": sim.t, "cache": pre_cache, "flags": pre_flags, "steps": sim.steps_done,
            "megno": (sim.megno() if cfg.get("var", 0) == 2 else 0.0)}


def strip(seq):
    """the pure step sequence: inserted calls removed, integrate(n) -> step(n)."""
    out = []
    for op in seq:
        if op[0] == "step": out.append(op)
        elif op[0] == "integrate": out.append(("step", op[1]))
    return out


def transparent(cfg, seq):
    a = run_seq(cfg, seq); b = run_seq(cfg, strip(seq))
    if a["steps"] != b["steps"]: return "different number of steps (%d vs %d)" % (a["steps"], b["steps"])
    if not same(a["cache"], b["cache"]): return "cached coordinates (p_jh) differ after the inserted calls"
    if a["flags"] != b["flags"]: return "flags differ: %r vs %r" % (a["flags"], b["flags"])
    if not same(a["p"], b["p"]) or bits(a["t"]) != bits(b["t"]): return "final synchronized state differs bitwise"
    if bits(a["megno"]) != bits(b["megno"]): return "MEGNO differs bitwise"
    return None


def valid(cfg, seq):
    """sequences worth running: at least one step.  (SABA with keep_unsynchronized=1 used to dereference a NULL cache when
    synchronize was called before the first step; fixed in /repo, still probed in a child process by the harness.)"""
    return any(o[0] in ("step", "integrate") for o in seq)


def make_valid(cfg, seq):
    seq = list(seq)
    while not valid(cfg, seq):
        seq.pop(0)
    return seq


def shrink(cfg, seq, pred):
    """greedy: drop inserted calls, then reduce step counts, while pred(cfg, seq) still reports a failure."""
    seq = list(seq)
    changed = True
    while changed:
        changed = False
        for i in range(len(seq)):
            cand = seq[:i] + seq[i + 1:]
            if valid(cfg, cand) and pred(cfg, cand):
                seq = cand; changed = True; break
        if changed: continue
        for i, op in enumerate(seq):
            if op[0] in ("step", "integrate") and op[1] > 1:
                cand = seq[:i] + [(op[0], op[1] - 1)] + seq[i + 1:]
                if pred(cfg, cand):
                    seq = cand; changed = True; break
    return seq


INSERTS = [("sync",), ("save",), ("copy",), ("energy",), ("get",)]


def gen_seq(rng, maxlen=30, with_integrate=True):
    seq = []
    n = rng.randint(3, maxlen)
    while len(seq) < n:
        r = rng.random()
        if r < 0.4: seq.append(("step", rng.randint(1, 4)))
        elif r < 0.5 and with_integrate: seq.append(("integrate", rng.randint(1, 3)))
        else: seq.append(rng.choice(INSERTS))
    if not any(o[0] in ("step", "integrate") for o in seq):
        seq.insert(0, ("step", 2))
    seq.append(("step", rng.randint(1, 3)))     # the "subsequent trajectory"
    return seq


def whfast_cfgs(rng):
    out = []
    for coords in (0, 1, 2, 3):
        for corr in ((0, 3, 5, 7, 11, 17) if coords in (0, 3) else (0,)):
            out.append({"integ": "whfast", "coordinates": coords, "corrector": corr})
    for kernel in (1, 2, 3):
        for corr in (0, 3, 11):
            out.append({"integ": "whfast", "kernel": kernel, "corrector": corr})
    out.append({"integ": "whfast", "corrector2": 1})
    out.append({"integ": "whfast", "corrector2": 1, "corrector": 17, "kernel": 3})
    for var in (1, 2):
        for corr in (0, 5):
            out.append({"integ": "whfast", "var": var, "corrector": corr})
    for coords in (0, 1, 2):
        for tp in (0, 1):
            out.append({"integ": "whfast", "coordinates": coords, "ntest": 2, "tptype": tp})
    return out


def saba_cfgs():
    return [{"integ": "saba", "type": t} for t in list(range(10)) + [0x100, 0x101, 0x102, 0x103, 0x200, 0x201, 0x202, 0x203]]


def finish_cfg(rng, c):
    c = dict(c)
    c["dt"] = rng.choice([0.01, 0.037, 0.05, -0.03]) * (2 * math.pi)
    c["sysseed"] = rng.randint(1, 10 ** 6)
    c.setdefault("nplanets", rng.choice([2, 3, 4]))
    return c


def label(cfg):
    return ",".join("%s=%s" % (k, cfg[k]) for k in sorted(cfg) if k not in ("dt", "sysseed", "safe", "keep", "nplanets"))


# --------------------------------------------------------------------------------------------- (ii) safe vs unsafe
def maxdiff(a, b, scale):
    return max(abs(x - y) / s for x, y, s in zip(a, b, scale))


def scales(cfg, p):
    """per-component scale: the size of the particle's position / velocity vector (masses: exact)."""
    out = []
    for i in range(0, len(p), 7):
        r = max(1e-3, math.sqrt(p[i] ** 2 + p[i + 1] ** 2 + p[i + 2] ** 2)); v = max(1e-3, math.sqrt(p[i + 3] ** 2 + p[i + 4] ** 2 + p[i + 5] ** 2))
        out += [r, r, r, v, v, v, 1.0]
    return out


def safe_vs_unsafe(cfg, nsteps, keep):
    """returns (err, tol, note): err = max scaled difference between safe mode and deferred synchronisation."""
    cs = dict(cfg, safe=1, keep=0); cu = dict(cfg, safe=0, keep=keep)
    if cfg["integ"] == "whfast512":
        # no safe_mode flag: "safe" = synchronize after every step
        a = run_seq(dict(cfg, keep=0), [x for _ in range(nsteps) for x in (("step", 1), ("sync",))])
        b = run_seq(dict(cfg, keep=keep), [("step", nsteps)])
    else:
        a = run_seq(cs, [("step", nsteps)]); b = run_seq(cu, [("step", nsteps)])
    sc = scales(cfg, a["p"])
    err = maxdiff(a["p"], b["p"], sc)
    if bits(a["t"]) != bits(b["t"]): return (float("inf"), 0.0, "time differs")
    # rounding grows at most ~ linearly x shear: each step's eps-sized error is stretched by the orbital shear
    # (d(angle) ~ 1.5 n t d(a)/a). tolerance = 200 eps * steps * (1 + total angle)
    nmax = 2 * math.pi        # innermost orbit has a = 1, G = M = 1: period 2 pi
    angle = abs(cfg["dt"]) * nsteps
    tol = 2000 * EPS * nsteps * (1.0 + 1.5 * angle)
    if cfg.get("corrector", 0) >= 11: tol *= 10      # 10..16 long back-and-forth Kepler drifts per corrector application
    return (err, tol, "")


def recalc_check(cfg, nsteps, marks):
    """WHFast, safe_mode=0: requesting a recalculation of the coordinates (recalculate_coordinates_this_timestep=1, what
    reb_simulation_step does around timestep modifications) on an unsynchronized state must first complete the pending
    half step: the run equals safe mode to rounding."""
    a = run_seq(dict(cfg, safe=1, keep=0), [("step", nsteps)])
    sim = make(dict(cfg, safe=0, keep=0))
    for i in range(nsteps):
        if i in marks:
            sim.ri_whfast.recalculate_coordinates_this_timestep = 1
        sim.steps(1)
    sim.synchronize()
    b = pstate(sim)
    sc = scales(cfg, a["p"])
    err = maxdiff(a["p"], b, sc)
    angle = abs(cfg["dt"]) * nsteps
    tol = 2000 * EPS * nsteps * (1.0 + 1.5 * angle) * (10 if cfg.get("corrector", 0) >= 11 else 1)
    return err, tol


def exact_check(cfg, nsteps):
    """integrate() with exact_finish_time=1 (full steps, synchronize, one shortened step): safe_mode 0 == safe_mode 1 to rounding"""
    out = []
    for safe in (1, 0):
        sim = make(dict(cfg, safe=safe, keep=0))
        sim.integrate(sim.t + (nsteps + 0.37) * sim.dt, exact_finish_time=1)
        out.append((pstate(sim), sim.t, sim.dt))
    (a, ta, da), (b_, tb, db) = out
    if bits(ta) != bits(tb) or bits(da) != bits(db): return float("inf"), 0.0
    err = maxdiff(a, b_, scales(cfg, a))
    angle = abs(cfg["dt"]) * (nsteps + 1)
    tol = 2000 * EPS * (nsteps + 1) * (1.0 + 1.5 * angle) * (10 if cfg.get("corrector", 0) >= 11 else 1)
    return err, tol


def rescale_check(cfg, nsteps, amp, megno):
    """WHFast with first-order variational particles whose tangent vector crosses the 1e100 rescaling threshold of
    reb_simulation_rescale_var: safe_mode=1 versus safe_mode=0 + synchronize.  The physical tangent vector is
    coords * exp(lrescale): lrescale must agree, the stored coordinates must agree relative to their norm, MEGNO finite."""
    res = []
    for safe in (1, 0):
        sim = make(dict(cfg, safe=safe, keep=0, var=0))
        if megno:
            sim.init_megno(seed=cfg["sysseed"] % 1000 + 1)
            for i in range(sim.N - sim.N_var, sim.N):
                p = sim.particles[i]
                p.x *= amp; p.y *= amp; p.z *= amp; p.vx *= amp; p.vy *= amp; p.vz *= amp
        else:
            v = sim.add_variation(); v.particles[1].x = amp; v.particles[min(2, sim.N_real - 1)].vy = 0.3 * amp
        sim.steps(nsteps); sim.synchronize(); sim.synchronize()
        nr = sim.N - sim.N_var
        var = [x for i in range(nr, sim.N) for x in (sim.particles[i].x, sim.particles[i].y, sim.particles[i].z,
                                                      sim.particles[i].vx, sim.particles[i].vy, sim.particles[i].vz)]
        res.append({"var": var, "lres": sim.var_config[0].lrescale, "megno": sim.megno() if megno else 0.0, "real": pstate(sim)[:7 * nr]})
    a, b_ = res
    na = max(abs(x) for x in a["var"]); nb = max(abs(x) for x in b_["var"])
    if not (na > 0 and nb > 0 and math.isfinite(na) and math.isfinite(nb)): return "variational coordinates not finite (safe %r, deferred %r)" % (na, nb), a["lres"]
    if not (math.isfinite(a["megno"]) and math.isfinite(b_["megno"])): return "MEGNO not finite (safe %r, deferred %r)" % (a["megno"], b_["megno"]), a["lres"]
    if abs(a["lres"] - b_["lres"]) > 1e-6 * max(1.0, abs(a["lres"])): return "lrescale differs: safe %.12g, deferred %.12g" % (a["lres"], b_["lres"]), a["lres"]
    dv = max(abs(x - y) for x, y in zip(a["var"], b_["var"])) / na
    angle = abs(cfg["dt"]) * nsteps
    # tangent vectors grow ~ linearly with the shear: rounding differences are amplified by (1 + angle)^2 at most here
    tol = 1e5 * EPS * nsteps * (1.0 + angle) ** 2
    if dv > tol: return "variational coordinates differ by %.3g of their norm (tolerance %.3g)" % (dv, tol), a["lres"]
    return None, a["lres"]


def archive_check(cfg, nsteps, interval_steps, t_frac, mode, keep_arg):
    """a Simulationarchive written by a safe_mode=0 run; getSimulation(t, mode, keep_unsynchronized) must give the state of a
    direct safe_mode=1 run at the returned time (same step sequence: agreement to rounding, far below the step error)."""
    fn = os.path.join(TMP, "a%d.bin" % os.getpid())
    if os.path.exists(fn): os.remove(fn)
    sim = make(dict(cfg, safe=0, keep=0))
    dt = sim.dt
    sim.save_to_file(fn, step=interval_steps, delete_file=True)
    sim.integrate(sim.t + (nsteps - 0.5) * dt, exact_finish_time=0)
    tend = sim.t
    del sim
    sa = rebound.Simulationarchive(fn)
    t = sa.tmin + t_frac * (sa.tmax - sa.tmin)
    kw = {} if keep_arg is None else {"keep_unsynchronized": keep_arg}
    try:
        s = sa.getSimulation(t, mode=mode, **kw)
        tg = s.t
        s.steps(2); s.synchronize()          # the returned simulation must be usable: continue for two steps
    except RuntimeError as e:
        del sa; os.remove(fn)
        return float("inf"), 0.0, "RAISES: %s" % (e,)
    got = pstate(s)
    del sa
    os.remove(fn)
    ref = make(dict(cfg, safe=1, keep=0))
    if mode == "exact":
        ref.integrate(t, exact_finish_time=1)
        if abs(tg - t) > 1e-12 * max(1.0, abs(t)): return float("inf"), 0.0, "returned time %r is not the requested %r" % (tg, t)
    else:
        k = int(round(tg / dt))
        ref.steps(k)
        if abs(ref.t - tg) > 1e-9 * max(1.0, abs(tg)): return float("inf"), 0.0, "returned time %r is not on the step grid" % tg
    ref.steps(2)
    want = pstate(ref)
    err = maxdiff(want, got, scales(cfg, want))
    n = max(1, int(abs(tg / dt)) + 1)
    angle = abs(dt) * n
    tol = min(1e-9, 2000 * EPS * n * (1.0 + 1.5 * angle) * (10 if cfg.get("corrector", 0) >= 11 else 1))
    return err, tol, ""


def callback_check(cfg, nsteps, which):
    """pre / post timestep modifications (reb_simulation_step synchronizes before calling them and asks for a recalculation
    of the coordinates afterwards): a callback that damps a velocity must act on the same state with safe_mode 0 and 1."""
    res = []
    for safe in (1, 0):
        sim = make(dict(cfg, safe=safe, keep=0))
        def cb(simp):
            ps = simp.contents.particles
            ps[1].vx *= (1.0 - 1e-3); ps[1].vy *= (1.0 - 1e-3); ps[1].y += 1e-4
        if which == "post": sim.post_timestep_modifications = cb
        else: sim.pre_timestep_modifications = cb
        sim.steps(nsteps); sim.synchronize()
        res.append((pstate(sim), sim.t))
    (a, ta), (b_, tb) = res
    if bits(ta) != bits(tb): return float("inf"), 0.0
    err = maxdiff(a, b_, scales(cfg, a))
    angle = abs(cfg["dt"]) * nsteps
    tol = 2000 * EPS * nsteps * (1.0 + 1.5 * angle) * (10 if cfg.get("corrector", 0) >= 11 else 1)
    return err, tol


def midsync_check(cfg, nsteps, marks):
    """safe_mode=0, keep_unsynchronized=0: synchronize() calls in the middle of the run (outputs) leave the trajectory that of
    safe mode, to rounding (every synchronize must leave the integrator able to continue: coordinates recomputed)."""
    a = run_seq(dict(cfg, safe=1, keep=0), [("step", nsteps)])
    sim = make(dict(cfg, safe=0, keep=0))
    for i in range(nsteps):
        if i in marks: sim.synchronize()
        sim.steps(1)
    sim.synchronize()
    b_ = pstate(sim)
    err = maxdiff(a["p"], b_, scales(cfg, a["p"]))
    angle = abs(cfg["dt"]) * nsteps
    tol = 2000 * EPS * nsteps * (1.0 + 1.5 * angle) * (10 if cfg.get("corrector", 0) >= 11 else 1)
    if cfg["integ"] == "eos":
        h = run_seq(dict(cfg, safe=1, keep=0, dt=cfg["dt"] / 2), [("step", 2 * nsteps)])
        tol += 200 * maxdiff(a["p"], h["p"], scales(cfg, a["p"]))
    return err, tol


def eos_check(cfg, nsteps):
    cs = dict(cfg, safe=1, keep=0); cu = dict(cfg, safe=0, keep=0)
    a = run_seq(cs, [("step", nsteps)]); b = run_seq(cu, [("step", nsteps)])
    # calibration: the scheme's own truncation error = safe run at dt versus safe run at dt/2 (same end time)
    h = run_seq(dict(cs, dt=cfg["dt"] / 2), [("step", 2 * nsteps)])
    sc = scales(cfg, a["p"])
    err = maxdiff(a["p"], b["p"], sc); trunc = maxdiff(a["p"], h["p"], sc)
    angle = abs(cfg["dt"]) * nsteps
    # merged drift over 2*a0*dt versus two drifts over a0*dt: the embedded scheme (order p) is up to 2^p times less
    # accurate on the merged interval; the cases generated here use embedded schemes of order <= 4
    tol = 200 * trunc + 2000 * EPS * nsteps * (1.0 + 1.5 * angle)
    return err, tol, trunc


# --------------------------------------------------------------------------------------------- (iii) idempotence
def sync_twice(cfg, seq):
    sim = make(cfg)
    for k, op in enumerate(seq):
        apply(sim, op, cfg, k)
    sim.synchronize()
    p1, c1, f1, t1 = pstate(sim), cache(sim, cfg["integ"]), flags(sim, cfg["integ"]), sim.t
    sim.synchronize()
    p2, c2, f2, t2 = pstate(sim), cache(sim, cfg["integ"]), flags(sim, cfg["integ"]), sim.t
    if not same(p1, p2): return "particles change on the second synchronize"
    if not same(c1, c2): return "cached coordinates change on the second synchronize"
    if f1 != f2 or bits(t1) != bits(t2): return "flags/time change on the second synchronize"
    return None


# --------------------------------------------------------------------------------------------- corners of the quantified space
def corner_systems():
    """name -> function(sim) adding the particles; degenerate sizes, masses, orbits, magnitudes"""
    def n0(sim): pass
    def n1(sim): sim.add(m=1.0)
    def n2(sim): sim.add(m=1.0); sim.add(m=1e-3, a=1.0, e=0.0)
    def massless(sim): sim.add(m=1.0); sim.add(m=0.0, a=1.0, e=0.1); sim.add(m=0.0, a=1.7, e=0.0, f=2.0)
    def allzero(sim): sim.add(m=0.0); sim.add(m=0.0, x=1.0, vy=1.0); sim.add(m=0.0, x=-2.0, vy=-0.5)
    def retro(sim): sim.add(m=1.0); sim.add(m=1e-3, a=1.0, e=0.0, inc=math.pi); sim.add(m=1e-4, a=1.8, e=0.0, inc=0.0)
    def ehigh(sim): sim.add(m=1.0); sim.add(m=1e-3, a=1.0, e=0.999); sim.add(m=1e-4, a=3.0, e=0.0)
    def hyper(sim): sim.add(m=1.0); sim.add(m=1e-3, a=-1.0, e=1.5, f=-1.0); sim.add(m=1e-4, a=3.0, e=0.0)
    def coincident(sim): sim.add(m=1.0); sim.add(m=1e-3, x=1.0, vy=1.0); sim.add(m=1e-3, x=1.0, vy=1.0)
    def huge(sim): sim.add(m=1e150); sim.add(m=1e147, x=1e100, vy=1e25); sim.add(m=1e146, x=-2e100, vy=-0.7e25)
    def tiny(sim): sim.add(m=1e-290); sim.add(m=1e-293, x=1e-100, vy=1e-95); sim.add(m=1e-294, x=-2e-100, vy=-0.7e-95)
    def nanpos(sim): sim.add(m=1.0); sim.add(m=1e-3, a=1.0); sim.add(m=1e-3, x=2.0, vy=1.0); sim.particles[2].x = float("nan")
    def infvel(sim): sim.add(m=1.0); sim.add(m=1e-3, a=1.0); sim.add(m=1e-3, x=2.0, vy=1.0); sim.particles[2].vy = float("inf")
    def negzero(sim): sim.add(m=1.0, x=-0.0, y=-0.0, vz=-0.0); sim.add(m=1e-3, x=1.0, y=-0.0, vy=1.0, vz=-0.0)
    def t0big(sim): n2(sim); sim.add(m=1e-4, a=2.0, e=0.3); sim.t = 1e9
    def t0neg(sim): n2(sim); sim.t = -0.0
    return {"N0": n0, "N1": n1, "N2": n2, "massless": massless, "allzero": allzero, "retrograde_e0": retro, "e0.999": ehigh,
            "hyperbolic": hyper, "coincident": coincident, "huge": huge, "tiny": tiny, "nan_position": nanpos, "inf_velocity": infvel,
            "negative_zero": negzero, "t=1e9": t0big, "t=-0.0": t0neg}


WELL_CONDITIONED = {"N1", "N2", "massless", "retrograde_e0", "negative_zero", "t=1e9", "t=-0.0"}
CORNER_DTS = [0.05, -0.05, 0.0, -0.0, 5e-324, 1e-300, 1e300, float("nan"), float("inf")]
CORNER_INTEGS = [{"integ": "whfast"}, {"integ": "whfast", "coordinates": 1}, {"integ": "whfast", "coordinates": 2}, {"integ": "whfast", "coordinates": 3},
                 {"integ": "whfast", "corrector": 17, "kernel": 2}, {"integ": "whfast", "kernel": 3, "corrector": 3}, {"integ": "whfast", "var": 1},
                 {"integ": "saba", "type": 0x6}, {"integ": "saba", "type": 0x102}, {"integ": "saba", "type": 0x200},
                 {"integ": "mercurius"}, {"integ": "eos", "phi0": 0}, {"integ": "eos", "phi0": 7, "phi1": 1, "n": 1}]


def corner_make(cfg):
    sim = rebound.Simulation()
    corner_systems()[cfg["system"]](sim)
    integ = cfg["integ"]
    sim.integrator = integ
    sim.dt = cfg["dt"]
    if integ == "whfast":
        w = sim.ri_whfast
        w.kernel = cfg.get("kernel", 0); w.coordinates = cfg.get("coordinates", 0); w.corrector = cfg.get("corrector", 0)
        w.safe_mode = cfg["safe"]; w.keep_unsynchronized = cfg["keep"]
        if cfg.get("var") and sim.N > 0:
            v = sim.add_variation(); v.particles[0].x = 1.0
            if cfg.get("var") == 2:
                v2 = sim.add_variation(); v2.particles[sim.N_real - 1].vy = 1.0
    elif integ == "saba":
        sim.ri_saba.type = cfg.get("type", 0); sim.ri_saba.safe_mode = cfg["safe"]; sim.ri_saba.keep_unsynchronized = cfg["keep"]
    elif integ == "mercurius":
        sim.ri_mercurius.safe_mode = cfg["safe"]
    elif integ == "eos":
        sim.ri_eos.phi0 = cfg.get("phi0", 0); sim.ri_eos.phi1 = cfg.get("phi1", 0); sim.ri_eos.n = cfg.get("n", 2); sim.ri_eos.safe_mode = cfg["safe"]
    return sim


def corner_run(cfg, seq):
    """returns ('ok', state) or ('raise', exception type name)"""
    sim = corner_make(cfg)
    try:
        for k, op in enumerate(seq):
            apply(sim, op, cfg, k)
        pre_cache = cache(sim, cfg["integ"]); pre_flags = flags(sim, cfg["integ"])
        sim.synchronize()
        p1 = pstate(sim); c1 = cache(sim, cfg["integ"]); f1 = flags(sim, cfg["integ"])
        sim.synchronize()
        p2 = pstate(sim); c2 = cache(sim, cfg["integ"]); f2 = flags(sim, cfg["integ"])
    except (RuntimeError, rebound.simulation.NoParticles if hasattr(rebound.simulation, "NoParticles") else RuntimeError, ValueError) as e:
        return ("raise", type(e).__name__ + ":" + str(e)[:60])
    return ("ok", {"p": p1, "t": sim.t, "cache": pre_cache, "flags": pre_flags, "twice": same(p1, p2) and same(c1, c2) and f1 == f2})


CORNER_SEQ = [("step", 2), ("sync",), ("save",), ("copy",), ("step", 1), ("energy",), ("get",), ("sync",), ("step", 2)]


def corner_case(cfg):
    """all corner checks for one configuration; returns a failure text or None"""
    keepable = cfg["integ"] in ("whfast", "saba")
    # (iii) synchronize twice == once; (i) transparency under keep_unsynchronized
    for keep in ((0, 1) if keepable else (0,)):
        a = corner_run(dict(cfg, safe=0, keep=keep), CORNER_SEQ)
        if a[0] == "ok" and not a[1]["twice"]: return "synchronize twice differs from synchronize once (keep_unsynchronized=%d)" % keep
        if keep == 1:
            b_ = corner_run(dict(cfg, safe=0, keep=1), strip(CORNER_SEQ))
            if a[0] != b_[0]: return "inserted calls change the outcome: %r versus %r" % (a[0:1] + a[1:2] if a[0] == "raise" else a[0], b_[0:1] + b_[1:2] if b_[0] == "raise" else b_[0])
            if a[0] == "ok":
                if not same(a[1]["cache"], b_[1]["cache"]): return "keep_unsynchronized: cached coordinates differ after inserted calls"
                if a[1]["flags"] != b_[1]["flags"]: return "keep_unsynchronized: flags differ after inserted calls"
                if not same(a[1]["p"], b_[1]["p"]) or bits(a[1]["t"]) != bits(b_[1]["t"]): return "keep_unsynchronized: final state differs bitwise after inserted calls"
    # (ii) safe mode versus deferred synchronisation
    s_ = corner_run(dict(cfg, safe=1, keep=0), [("step", 5)])
    for keep in ((0, 1) if keepable else (0,)):
        u = corner_run(dict(cfg, safe=0, keep=keep), [("step", 5)])
        if s_[0] != u[0]: return "safe mode %s but deferred synchronisation (keep_unsynchronized=%d) %s" % (s_[0:2] if s_[0] == "raise" else "runs", keep, u[0:2] if u[0] == "raise" else "runs")
        if s_[0] == "raise":
            if s_[1] != u[1]: return "different errors: safe %r, deferred %r" % (s_[1], u[1])
            continue
        if bits(s_[1]["t"]) != bits(u[1]["t"]) and not (s_[1]["t"] != s_[1]["t"] and u[1]["t"] != u[1]["t"]): return "time differs: %r vs %r" % (s_[1]["t"], u[1]["t"])
        fa = all(math.isfinite(x) for x in s_[1]["p"]); fb = all(math.isfinite(x) for x in u[1]["p"])
        if fa != fb and cfg["system"] in WELL_CONDITIONED and math.isfinite(cfg["dt"]) and abs(cfg["dt"]) < 1:
            return "finite in one mode, not finite in the other"
        if fa and fb and cfg["system"] in WELL_CONDITIONED and math.isfinite(cfg["dt"]) and abs(cfg["dt"]) < 1:
            if cfg.get("var") and keep == 1 and False: continue
            sc = scales(cfg, s_[1]["p"])
            err = maxdiff(s_[1]["p"], u[1]["p"], sc)
            tol = 2000 * EPS * 5 * 2.0 * (10 if cfg.get("corrector", 0) >= 11 else 1)
            if cfg["integ"] == "eos": tol += 1e-3 * abs(cfg["dt"])
            if err > tol: return "safe mode and deferred synchronisation (keep_unsynchronized=%d) differ by %.3g (tolerance %.3g)" % (keep, err, tol)
    return None


def drain(sim):
    """one faulty step can queue the same error several times (init is called by part1 and by synchronize); the Python layer
    raises the first and keeps the rest for the next call: empty the queue"""
    for _ in range(20):
        try:
            sim.process_messages(); return
        except RuntimeError:
            continue


def reuse_cases():
    """the same object keeps being used after an error / warning path was taken once"""
    out = []

    def rejected_config_then_fixed(safe, keep):
        sim = make({"integ": "whfast", "coordinates": 1, "corrector": 3, "dt": 0.05, "sysseed": 11, "nplanets": 2, "safe": safe, "keep": keep})
        try: sim.step()
        except RuntimeError: pass
        drain(sim)
        sim.ri_whfast.corrector = 0
        sim.steps(6); sim.synchronize()
        return pstate(sim)
    out.append(("whfast: configuration rejected by init once, then corrected", rejected_config_then_fixed))

    def keep_with_safe_once(safe, keep):
        sim = make({"integ": "whfast", "dt": 0.05, "sysseed": 12, "nplanets": 2, "safe": 1, "keep": 0})
        if not safe:
            sim.ri_whfast.keep_unsynchronized = 1       # error path: keep_unsynchronized together with safe_mode
            try: sim.step()
            except RuntimeError: pass
            drain(sim)
            sim.ri_whfast.safe_mode = 0; sim.ri_whfast.keep_unsynchronized = keep
            sim.steps(5)
        else:
            sim.steps(6)
        sim.synchronize()
        return pstate(sim)
    out.append(("whfast: keep_unsynchronized with safe_mode reported once, then safe_mode switched off", keep_with_safe_once))

    def no_particles_then_add(safe, keep):
        sim = rebound.Simulation(); sim.integrator = "whfast"; sim.dt = 0.05
        sim.ri_whfast.safe_mode = safe; sim.ri_whfast.keep_unsynchronized = keep
        try: sim.integrate(1.0)
        except Exception: pass
        sim.synchronize()
        t_after = sim.t
        sim.add(m=1.0); sim.add(m=1e-3, a=1.0, e=0.1); sim.move_to_com()
        sim.steps(6); sim.synchronize()
        return pstate(sim) + [sim.t - t_after]
    out.append(("whfast: used without particles (integrate reports it), particles added afterwards", no_particles_then_add))

    def warned_recalc_then_on(safe, keep):
        sim = make({"integ": "whfast", "dt": 0.05, "sysseed": 13, "nplanets": 3, "safe": safe, "keep": 0})
        sim.steps(2)
        if not safe: sim.ri_whfast.recalculate_coordinates_this_timestep = 1      # warning path (unsynchronized + recalculation)
        sim.steps(2)
        if not safe: sim.ri_whfast.recalculate_coordinates_this_timestep = 1      # second time: no warning any more, same handling required
        sim.steps(2); sim.synchronize()
        return pstate(sim)
    out.append(("whfast: recalculation requested on an unsynchronized state twice (warning only the first time)", warned_recalc_then_on))

    def saba_flags(safe, keep):
        sim = make({"integ": "saba", "type": 0x102, "dt": 0.05, "sysseed": 14, "nplanets": 2, "safe": safe, "keep": keep})
        sim.integrate(sim.t)                      # nothing to do: must not disturb anything
        sim.steps(3); sim.integrate(sim.t); sim.steps(3); sim.synchronize()
        return pstate(sim)
    out.append(("saba: integrate() to the current time (zero steps) before and during the run", saba_flags))
    return out


def corners(out, only_system=None, only_integ=None):
    import signal
    rep = {"evaluations": 0, "keys": [], "fails": [], "stats": {}}
    cur = out + ".cur"

    def onalarm(sig, frm): raise TimeoutError("hang")
    signal.signal(signal.SIGALRM, onalarm)
    for sysname in corner_systems():
        if only_system is not None and sysname != only_system: continue
        for dt in CORNER_DTS:
            for ci, c0 in enumerate(CORNER_INTEGS):
                if only_integ is not None and ci != only_integ: continue
                cfg = dict(c0, system=sysname, dt=dt)
                json.dump({"cfg": cfg}, open(cur, "w"))
                signal.alarm(30)
                try:
                    why = corner_case(cfg)
                except TimeoutError:
                    why = "hang (more than 30 s)"
                except Exception as e:
                    why = "exception in the harness: %r" % (e,)
                signal.alarm(0)
                rep["evaluations"] += 1; rep["keys"].append(str(("corner", sysname, repr(dt), label(dict(cfg, dt=0)))))
                if why:
                    rep["fails"].append({"key": "corner:%s:%s" % (cfg["integ"], why.split(":")[0][:60]), "why": "%s, dt=%r, %s: %s" % (sysname, dt, label(dict(c0, dt=0)), why),
                                         "replay": {"check": "corner", "cfg": cfg}})
    for name, f in (reuse_cases() if only_system == "REUSE" else []):
        json.dump({"reuse": name}, open(cur, "w"))
        signal.alarm(30)
        try:
            a = f(1, 0); why = None
            for keep in (0, 1):
                b_ = f(0, keep)
                sc = [max(1e-3, abs(x)) for x in a]
                err = max(abs(x - y) / s for x, y, s in zip(a, b_, sc)) if len(a) == len(b_) else float("inf")
                if not (err <= 1e-11): why = "safe mode and deferred synchronisation (keep_unsynchronized=%d) differ by %.3g afterwards" % (keep, err)
        except TimeoutError:
            why = "hang"
        except Exception as e:
            why = "exception: %r" % (e,)
        signal.alarm(0)
        rep["evaluations"] += 1; rep["keys"].append(str(("reuse", name)))
        if why:
            rep["fails"].append({"key": "reuse-after-error:" + name.split(":")[0], "why": name + ": " + why, "replay": {"check": "reuse", "name": name}})
    json.dump(rep, open(out, "w"), indent=1)
    if os.path.exists(cur): os.remove(cur)


# --------------------------------------------------------------------------------------------- history versus fresh object
def fresh_like(sim, cfg, safe, keep):
    """a FRESH simulation holding exactly the (synchronized) particles, time and settings of sim"""
    f = rebound.Simulation()
    f.G = sim.G; f.softening = sim.softening
    for i in range(sim.N):
        p = sim.particles[i]
        f.add(m=p.m, x=p.x, y=p.y, z=p.z, vx=p.vx, vy=p.vy, vz=p.vz, r=p.r)
    f.N_active = sim.N_active; f.testparticle_type = sim.testparticle_type
    f.integrator = cfg["integ"]; f.t = sim.t; f.dt = sim.dt
    if cfg["integ"] == "whfast":
        w, v = f.ri_whfast, sim.ri_whfast
        w.kernel = v.kernel; w.coordinates = v.coordinates; w.corrector = v.corrector; w.corrector2 = v.corrector2
        w.safe_mode = safe; w.keep_unsynchronized = keep
    elif cfg["integ"] == "saba":
        f.ri_saba.type = sim.ri_saba.type; f.ri_saba.safe_mode = safe; f.ri_saba.keep_unsynchronized = keep
    elif cfg["integ"] == "mercurius":
        f.ri_mercurius.safe_mode = safe; f.ri_mercurius.r_crit_hill = sim.ri_mercurius.r_crit_hill
    return f


def handover(sim, cfg):
    """the documented protocol with safe_mode off: synchronize, then ask for a recalculation of the coordinates"""
    sim.synchronize()
    if cfg["integ"] in ("whfast", "saba"): sim.ri_whfast.recalculate_coordinates_this_timestep = 1
    if cfg["integ"] == "mercurius": sim.ri_mercurius.recalculate_coordinates_this_timestep = 1


def set_mode(sim, cfg, safe=None, keep=None):
    tgt = {"whfast": sim.ri_whfast, "saba": sim.ri_saba, "mercurius": sim.ri_mercurius}[cfg["integ"]]
    if safe is not None: tgt.safe_mode = safe
    if keep is not None and cfg["integ"] != "mercurius": tgt.keep_unsynchronized = keep


def histories():
    H = []

    def toggle_safe(sim, cfg):
        sim.steps(3); sim.synchronize(); set_mode(sim, cfg, safe=1); sim.steps(2); set_mode(sim, cfg, safe=0); sim.steps(2)
        sim.synchronize(); set_mode(sim, cfg, safe=1); sim.steps(1); set_mode(sim, cfg, safe=0); sim.steps(1)
    H.append(("safe_mode toggled back and forth (synchronized before switching it on)", toggle_safe, ("whfast", "saba", "mercurius")))

    def toggle_keep(sim, cfg):
        sim.steps(2); sim.synchronize(); set_mode(sim, cfg, keep=1); sim.steps(3); sim.synchronize(); sim.energy(); sim.steps(1)
        set_mode(sim, cfg, keep=0); sim.synchronize(); sim.steps(2)
    H.append(("keep_unsynchronized switched on and off again", toggle_keep, ("whfast", "saba")))

    def corrector_change(sim, cfg):
        sim.ri_whfast.corrector = 3; sim.steps(3); sim.synchronize()
        sim.ri_whfast.corrector = 11; sim.ri_whfast.recalculate_coordinates_this_timestep = 1; sim.steps(2); sim.synchronize()
        sim.ri_whfast.corrector = cfg.get("corrector", 0)
    H.append(("corrector order changed between runs", corrector_change, ("whfast",)))

    def remove_add(sim, cfg):
        sim.steps(3); sim.synchronize()
        sim.remove(sim.N - 1)
        sim.add(m=3e-4, a=2.9, e=0.05, f=0.3, primary=sim.particles[0])
    H.append(("synchronized remove + add leaving N unchanged", remove_add, ("whfast", "saba", "mercurius")))

    def remove_add_middle(sim, cfg):
        sim.steps(2); sim.synchronize()
        sim.remove(1)
        sim.add(m=2e-4, a=0.7, e=0.02, f=2.0, primary=sim.particles[0])
    H.append(("synchronized remove of the first planet + add (order of the others shifts, N unchanged)", remove_add_middle, ("whfast", "saba", "mercurius")))

    def dt_change(sim, cfg):
        sim.steps(3); sim.synchronize(); sim.dt = sim.dt * 0.5; handover(sim, cfg); sim.steps(2); sim.synchronize(); sim.dt = -sim.dt
    H.append(("dt halved, then reversed, between synchronized runs", dt_change, ("whfast", "saba", "mercurius")))

    def switch_integrator(sim, cfg):
        sim.steps(3); sim.synchronize()
        sim.integrator = "ias15"; sim.step(); sim.integrator = "leapfrog"; sim.step()
        sim.integrator = cfg["integ"]
        if cfg["integ"] == "whfast":
            sim.ri_whfast.corrector = cfg.get("corrector", 0)
        if cfg["integ"] == "saba": sim.ri_saba.type = cfg.get("type", 0)
        set_mode(sim, cfg, safe=0, keep=0)
    H.append(("integrator switched to IAS15 and leapfrog and back", switch_integrator, ("whfast", "saba", "mercurius")))

    def mass_G_change(sim, cfg):
        sim.steps(2); sim.synchronize(); sim.particles[1].m *= 2.0; sim.G = 1.5; sim.softening = 1e-3
    H.append(("mass of a planet, G and softening changed after a synchronize", mass_G_change, ("whfast", "saba", "mercurius")))

    def save_restore(sim, cfg):
        sim.steps(3)
    H.append(("(plain run)", save_restore, ("whfast", "saba", "mercurius")))
    return H


def history_case(name, hist, cfg, nsteps=4):
    """history object (safe_mode 0, protocol respected at the hand-over) versus fresh object: bit for bit"""
    sim = make(dict(cfg, safe=0, keep=0))
    hist(sim, cfg)
    handover(sim, cfg)
    f = fresh_like(sim, cfg, 0, 0)
    if not same(pstate(sim), pstate(f)): return "the fresh object could not be given the same state"
    sim.steps(nsteps); sim.synchronize(); f.steps(nsteps); f.synchronize()
    if not same(pstate(sim), pstate(f)) or bits(sim.t) != bits(f.t):
        err = maxdiff(pstate(f), pstate(sim), scales(cfg, pstate(f)))
        return "after the hand-over the object with history and the fresh object differ (%.3g scaled) over %d steps" % (err, nsteps)
    # same history in safe mode throughout: no protocol needed at all
    sim = make(dict(cfg, safe=1, keep=0))
    try:
        hist_safe = hist
        hist_safe(sim, dict(cfg))
    except Exception as e:
        return None
    set_mode(sim, cfg, safe=1, keep=0)
    sim.synchronize()
    f = fresh_like(sim, cfg, 1, 0)
    sim.steps(nsteps); f.steps(nsteps)
    if not same(pstate(sim), pstate(f)) or bits(sim.t) != bits(f.t):
        err = maxdiff(pstate(f), pstate(sim), scales(cfg, pstate(f)))
        return "in safe mode the object with history and the fresh object differ (%.3g scaled) over %d steps" % (err, nsteps)
    return None


def copy_case(cfg, how):
    """a copy / a saved-and-restored object taken while UNSYNCHRONIZED continues bit for bit like the original, and within
    rounding like a fresh object holding the synchronized state"""
    for keep in ((0, 1) if cfg["integ"] in ("whfast", "saba") else (0,)):
        sim = make(dict(cfg, safe=0, keep=keep)); sim.steps(3)
        if how == "copy":
            c = sim.copy()
        else:
            fn = os.path.join(TMP, "h%d.bin" % os.getpid())
            sim.save_to_file(fn, delete_file=True); c = rebound.Simulation(fn); os.remove(fn)
        s2 = make(dict(cfg, safe=0, keep=keep)); s2.steps(3); s2.synchronize()
        f = fresh_like(s2, cfg, 0, keep)
        sim.steps(4); sim.synchronize(); c.steps(4); c.synchronize(); f.steps(4); f.synchronize()
        if not same(pstate(sim), pstate(c)) or bits(sim.t) != bits(c.t): return "%s taken while unsynchronized (keep_unsynchronized=%d) does not continue bit for bit" % (how, keep)
        err = maxdiff(pstate(f), pstate(c), scales(cfg, pstate(f)))
        tol = 2000 * EPS * 7 * (1.0 + 1.5 * abs(cfg["dt"]) * 7) * (10 if cfg.get("corrector", 0) >= 11 else 1)
        if err > tol: return "%s taken while unsynchronized differs from a fresh object holding the synchronized state by %.3g (tolerance %.3g)" % (how, err, tol)
    return None


def history_main(out, seed):
    import signal
    rng = random.Random(seed * 31 + 5)
    rep = {"evaluations": 0, "keys": [], "fails": [], "stats": {}}
    cur = out + ".cur"
    def onalarm(sig, frm): raise TimeoutError("hang")
    signal.signal(signal.SIGALRM, onalarm)
    base = {"whfast": [{"integ": "whfast"}, {"integ": "whfast", "corrector": 5}, {"integ": "whfast", "coordinates": 1}, {"integ": "whfast", "kernel": 2}],
            "saba": [{"integ": "saba", "type": 0x6}, {"integ": "saba", "type": 0x101}], "mercurius": [{"integ": "mercurius"}]}
    jobs = []
    for name, hist, integs in histories():
        for ig in integs:
            for c0 in base[ig]:
                if name.startswith("corrector") and (c0.get("coordinates") or c0.get("kernel")): continue
                jobs.append((name, lambda cfg, name=name, hist=hist: history_case(name, hist, cfg), c0))
    for ig in base:
        for c0 in base[ig]:
            for how in ("copy", "save+restore"):
                jobs.append(("%s while unsynchronized" % how, lambda cfg, how=how: copy_case(cfg, how), c0))
    for name, fn, c0 in jobs:
        cfg = finish_cfg(rng, c0); cfg["nplanets"] = 3
        json.dump({"history": name, "cfg": cfg}, open(cur, "w"))
        signal.alarm(30)
        try:
            why = fn(cfg)
        except TimeoutError:
            why = "hang"
        except Exception as e:
            why = "exception: %r" % (e,)
        signal.alarm(0)
        rep["evaluations"] += 1; rep["keys"].append(str(("history", name, label(cfg))))
        if why:
            rep["fails"].append({"key": "history-vs-fresh:%s:%s" % (cfg["integ"], name[:50]), "why": "%s [%s]: %s" % (name, label(cfg), why),
                                 "replay": {"check": "history", "name": name, "cfg": cfg}})
    json.dump(rep, open(out, "w"), indent=1)
    if os.path.exists(cur): os.remove(cur)
    try: os.rmdir(TMP)
    except OSError: pass


def main():
    seed = int(sys.argv[1]); tier = sys.argv[2]; out = sys.argv[3]
    avx = len(sys.argv) > 4 and sys.argv[4] == "avx512"
    rng = random.Random(seed * 7919 + (1 if avx else 0))
    thorough = tier == "thorough"
    rep = {"evaluations": 0, "keys": [], "fails": [], "stats": {}}
    keys = set()

    def fail(key, why, replay):
        rep["fails"].append({"key": key, "why": why, "replay": replay})

    if avx:
        base = [{"integ": "whfast512", "nplanets": 8, "gr": g} for g in (0, 1)] + [{"integ": "whfast512", "nplanets": 3, "gr": 0}]
        kcfgs = base; scfgs = base; ecfgs = []; mcfgs = []
    else:
        kcfgs = whfast_cfgs(rng) + saba_cfgs()
        scfgs = kcfgs + [{"integ": "mercurius"}, {"integ": "mercurius", "ntest": 2}]
        ecfgs = [{"integ": "eos", "phi0": p, "phi1": q, "n": n} for p in range(9) for (q, n) in ((0, 2), (1, 1))]
    # ---- (i) transparency under keep_unsynchronized
    reps = 100 if thorough else 20
    for c0 in kcfgs * reps:
        cfg = finish_cfg(rng, dict(c0, safe=0, keep=1))
        if cfg["integ"] == "whfast512": cfg["dt"] = abs(cfg["dt"])
        seq = make_valid(cfg, gen_seq(rng, 30 if thorough else 14))
        try:
            why = transparent(cfg, seq)
        except Exception as e:
            why = "exception: %r" % (e,)
        rep["evaluations"] += 1; keys.add(("transparent", label(cfg), len(seq) // 5))
        if why:
            small = shrink(cfg, seq, lambda c, s: _safe(transparent, c, s))
            fail("keep_unsynchronized-not-transparent:" + cfg["integ"], why, {"check": "transparent", "cfg": cfg, "seq": small, "original_seq": seq})
    # ---- (ii) safe mode vs deferred synchronisation
    worst = {}
    for c0 in scfgs * (30 if thorough else 6):
        for keep in ((0, 1) if c0["integ"] in ("whfast", "saba", "whfast512") else (0,)):
            cfg = finish_cfg(rng, c0)
            if cfg["integ"] == "whfast512": cfg["dt"] = abs(cfg["dt"])
            n = rng.choice([1, 2, 7, 40] + ([300] if thorough else []))
            try:
                err, tol, note = safe_vs_unsafe(cfg, n, keep)
            except Exception as e:
                err, tol, note = float("inf"), 0.0, "exception: %r" % (e,)
            rep["evaluations"] += 1; keys.add(("safe-vs-unsafe", label(cfg), keep, n))
            if not (cfg.get("var", 0) and keep == 1) and not cfg.get("corrector2", 0):
                worst[cfg["integ"]] = max(worst.get(cfg["integ"], 0.0), err / tol if tol else float("inf"))
            if not (err <= tol):
                key = "deferred-sync-differs:" + cfg["integ"]
                if cfg.get("var", 0) and keep == 1:
                    key = "whfast-variational-keep_unsynchronized-com-drift"
                elif cfg.get("corrector2", 0):
                    key = "deferred-sync-differs:whfast-corrector2"
                else:
                    # shrink the number of steps
                    while n > 1:
                        e2, t2, _ = safe_vs_unsafe(cfg, n // 2, keep)
                        if e2 <= t2: break
                        n //= 2; err, tol = e2, t2
                fail(key, "safe_mode=1 and safe_mode=0(+keep_unsynchronized=%d)+synchronize differ by %.3g (scaled), tolerance %.3g %s"
                     % (keep, err, tol, note), {"check": "safe_vs_unsafe", "cfg": cfg, "nsteps": n, "keep": keep})
    for c0 in [c for c in scfgs if c["integ"] == "whfast" and not c.get("corrector2") and not c.get("var")] * (6 if thorough else 2):
        cfg = finish_cfg(rng, c0)
        n = rng.choice([3, 6, 12]); marks = sorted(rng.sample(range(1, n), rng.randint(1, 2)))
        try:
            err, tol = recalc_check(cfg, n, marks)
        except Exception as e:
            err, tol = float("inf"), 0.0
        rep["evaluations"] += 1; keys.add(("recalc", label(cfg), n))
        worst["recalc"] = max(worst.get("recalc", 0.0), err / tol if tol else float("inf"))
        if not (err <= tol):
            fail("recalculate-coordinates-drops-half-step:whfast", "recalculating the coordinates of an unsynchronized state changes the trajectory by %.3g (tolerance %.3g)" % (err, tol),
                 {"check": "recalc", "cfg": cfg, "nsteps": n, "marks": marks})
    for c0 in [c for c in scfgs if c["integ"] != "whfast512" and not c.get("corrector2")] * (4 if thorough else 1):
        cfg = finish_cfg(rng, c0); n = rng.choice([1, 3, 9])
        try:
            err, tol = exact_check(cfg, n)
        except Exception as e:
            err, tol = float("inf"), 0.0
        rep["evaluations"] += 1; keys.add(("exact-finish", label(cfg), n))
        worst["exact"] = max(worst.get("exact", 0.0), err / tol if tol else float("inf"))
        if not (err <= tol):
            fail("exact-finish-differs:" + cfg["integ"], "integrate(exact_finish_time=1): safe_mode 0 and 1 differ by %.3g (tolerance %.3g)" % (err, tol),
                 {"check": "exact", "cfg": cfg, "nsteps": n})
    # ---- timestep-modification callbacks and synchronize calls in the middle of a deferred run
    plain = [c for c in scfgs if c["integ"] != "whfast512" and not c.get("corrector2") and not c.get("var")]
    for c0 in plain * (3 if thorough else 1):
        cfg = finish_cfg(rng, c0); n = rng.choice([2, 5, 11]); which = rng.choice(["post", "pre"])
        try:
            err, tol = callback_check(cfg, n, which)
        except Exception as e:
            err, tol = float("inf"), 0.0
        rep["evaluations"] += 1; keys.add(("callback", label(cfg), which, n))
        worst["callback"] = max(worst.get("callback", 0.0), err / tol if tol else float("inf"))
        if not (err <= tol):
            fail("timestep-modification-unsynchronized:" + cfg["integ"], "%s_timestep_modifications with safe_mode 0 and 1 differ by %.3g (tolerance %.3g)" % (which, err, tol),
                 {"check": "callback", "cfg": cfg, "nsteps": n, "which": which})
    for c0 in (plain + [e for e in ecfgs if e["phi1"] == 0][:5]) * (3 if thorough else 1):
        cfg = finish_cfg(rng, c0)
        if cfg["integ"] == "eos": cfg["dt"] = 0.02 * 2 * math.pi
        n = rng.choice([4, 9]); marks = sorted(rng.sample(range(1, n), 2))
        try:
            err, tol = midsync_check(cfg, n, marks)
        except Exception as e:
            err, tol = float("inf"), 0.0
        rep["evaluations"] += 1; keys.add(("midsync", label(cfg), n))
        worst["midsync"] = max(worst.get("midsync", 0.0), err / tol if tol else float("inf"))
        if not (err <= tol):
            fail("synchronize-mid-run-changes-trajectory:" + cfg["integ"], "deferred run with synchronize calls before steps %s differs from safe mode by %.3g (tolerance %.3g)" % (marks, err, tol),
                 {"check": "midsync", "cfg": cfg, "nsteps": n, "marks": marks})
    # ---- variational particles crossing the rescaling threshold (reb_simulation_rescale_var), safe vs deferred
    for k in range(0 if avx else (40 if thorough else 10)):
        cfg = finish_cfg(rng, {"integ": "whfast", "corrector": rng.choice([0, 0, 3, 11])}); cfg["dt"] = abs(cfg["dt"])
        amp = rng.choice([3e99, 9.9e99, 1e100, 1.0, 2e100]); megno = rng.random() < 0.4; n = rng.choice([5, 40, 200])
        try:
            why, lres = rescale_check(cfg, n, amp, megno)
        except Exception as e:
            why, lres = "exception: %r" % (e,), 0.0
        rep["evaluations"] += 1; keys.add(("rescale", label(cfg), amp, megno, n, lres > 0))
        if why:
            fail("variational-rescale-deferred-differs:whfast", why, {"check": "rescale", "cfg": cfg, "nsteps": n, "amp": amp, "megno": megno})
    # ---- the Simulationarchive path: getSimulation(t, mode, keep_unsynchronized) of a safe_mode=0 archive
    acfgs = [{"integ": "whfast"}, {"integ": "whfast", "corrector": 11}, {"integ": "whfast", "coordinates": 1}, {"integ": "whfast", "kernel": 2},
             {"integ": "saba", "type": 0x6}, {"integ": "saba", "type": 0x1}, {"integ": "saba", "type": 0x102}, {"integ": "mercurius"}]
    for c0 in ([] if avx else acfgs) * (4 if thorough else 1):
        for mode in ("exact", "close", "snapshot"):
            for keep_arg in (None, 0, 1):
                cfg = finish_cfg(rng, c0); cfg["dt"] = abs(cfg["dt"])
                n = rng.choice([17, 40]); iv = rng.choice([3, 7]); tf = rng.uniform(0.15, 0.95)
                try:
                    err, tol, note = archive_check(cfg, n, iv, tf, mode, keep_arg)
                except Exception as e:
                    err, tol, note = float("inf"), 0.0, "exception: %r" % (e,)
                rep["evaluations"] += 1; keys.add(("archive", label(cfg), mode, keep_arg))
                worst["archive"] = max(worst.get("archive", 0.0), err / tol if tol else float("inf"))
                if not (err <= tol):
                    fail(("archive-getSimulation-raises:%s" % cfg["integ"]) if note.startswith("RAISES") else "archive-getSimulation-differs:%s:%s" % (cfg["integ"], mode),
                         "getSimulation(t, mode=%r, keep_unsynchronized=%r) of a safe_mode=0 archive differs from the direct safe-mode run by %.3g (tolerance %.3g) %s"
                         % (mode, keep_arg, err, tol, note),
                         {"check": "archive", "cfg": cfg, "nsteps": n, "interval": iv, "t_frac": tf, "mode": mode, "keep_arg": keep_arg})
    for c0 in ecfgs * (12 if thorough else 3):
        cfg = finish_cfg(rng, c0); cfg["dt"] = rng.choice([0.02, 0.05]) * 2 * math.pi
        n = rng.choice([2, 8, 30])
        try:
            err, tol, trunc = eos_check(cfg, n)
        except Exception as e:
            err, tol, trunc = float("inf"), 0.0, 0.0
        rep["evaluations"] += 1; keys.add(("eos", label(cfg), n))
        if trunc > 1e-4:
            continue        # truncation error too large for the comparison to say anything
        worst["eos"] = max(worst.get("eos", 0.0), err / tol if tol else float("inf"))
        if not (err <= tol):
            fail("deferred-sync-differs:eos", "EOS safe vs deferred differ by %.3g, truncation error %.3g, tolerance %.3g" % (err, trunc, tol),
                 {"check": "eos", "cfg": cfg, "nsteps": n})
    rep["stats"]["worst_err_over_tol"] = worst
    # ---- (iii) synchronize twice
    for c0 in (scfgs + ecfgs) * (20 if thorough else 4):
        for keep in ((0, 1) if c0["integ"] in ("whfast", "saba", "whfast512") else (0,)):
            cfg = finish_cfg(rng, dict(c0, safe=0, keep=keep))
            if cfg["integ"] == "whfast512": cfg["dt"] = abs(cfg["dt"])
            seq = make_valid(cfg, gen_seq(rng, 8, with_integrate=False))
            try:
                why = sync_twice(cfg, seq)
            except Exception as e:
                why = "exception: %r" % (e,)
            rep["evaluations"] += 1; keys.add(("sync-twice", label(cfg), keep))
            if why:
                small = shrink(cfg, seq, lambda c, s: _safe(sync_twice, c, s))
                fail("synchronize-not-idempotent:" + cfg["integ"], why, {"check": "sync_twice", "cfg": cfg, "seq": small})
    rep["keys"] = sorted(map(str, keys))
    json.dump(rep, open(out, "w"), indent=1)
    try:
        os.rmdir(TMP)
    except OSError:
        pass


def _safe(f, c, s):
    try:
        return f(c, s)
    except Exception as e:
        return "exception: %r" % (e,)


def replay(rep):
    """re-run one recorded failure; returns the failure text or None."""
    r = rep["replay"] if "replay" in rep and "check" not in rep else rep
    cfg = r.get("cfg"); ch = r["check"]
    seq = [tuple(o) for o in r.get("seq", [])]
    if ch == "transparent": return _safe(transparent, cfg, seq)
    if ch == "sync_twice": return _safe(sync_twice, cfg, seq)
    if ch == "safe_vs_unsafe":
        err, tol, note = safe_vs_unsafe(cfg, r["nsteps"], r["keep"])
        return None if err <= tol else "differs by %.3g (tolerance %.3g)" % (err, tol)
    if ch == "history":
        for name, hist, integs in histories():
            if name == r["name"]: return _safe(lambda c, _s: history_case(name, hist, c), cfg, None)
        how = r["name"].split(" ")[0]
        return _safe(lambda c, _s: copy_case(c, how), cfg, None)
    if ch == "corner":
        return _safe(lambda c, _s: corner_case(c), cfg, None)
    if ch == "reuse":
        return "re-run ./check C09 (reuse scenarios are not parameterised)"
    if ch == "callback":
        err, tol = callback_check(cfg, r["nsteps"], r["which"])
        return None if err <= tol else "differs by %.3g (tolerance %.3g)" % (err, tol)
    if ch == "midsync":
        err, tol = midsync_check(cfg, r["nsteps"], r["marks"])
        return None if err <= tol else "differs by %.3g (tolerance %.3g)" % (err, tol)
    if ch == "rescale":
        return rescale_check(cfg, r["nsteps"], r["amp"], r["megno"])[0]
    if ch == "archive":
        err, tol, note = archive_check(cfg, r["nsteps"], r["interval"], r["t_frac"], r["mode"], r["keep_arg"])
        return None if err <= tol else "differs by %.3g (tolerance %.3g) %s" % (err, tol, note)
    if ch == "exact":
        err, tol = exact_check(cfg, r["nsteps"])
        return None if err <= tol else "differs by %.3g (tolerance %.3g)" % (err, tol)
    if ch == "recalc":
        err, tol = recalc_check(cfg, r["nsteps"], r["marks"])
        return None if err <= tol else "differs by %.3g (tolerance %.3g)" % (err, tol)
    if ch == "eos":
        err, tol, trunc = eos_check(cfg, r["nsteps"])
        return None if err <= tol else "differs by %.3g (tolerance %.3g, truncation %.3g)" % (err, tol, trunc)
    return "unknown check"


if __name__ == "__main__":
    if sys.argv[1] == "--history":
        history_main(sys.argv[2], int(sys.argv[3])); sys.exit(0)
    if sys.argv[1] == "--corners":
        corners(sys.argv[2], sys.argv[3] if len(sys.argv) > 3 else None, int(sys.argv[4]) if len(sys.argv) > 4 else None); sys.exit(0)
    if sys.argv[1] == "--replay":
        why = replay(json.load(open(sys.argv[2])))
        print("REPLAY:", why if why else "property holds on this input")
        sys.exit(1 if why else 0)
    main()
