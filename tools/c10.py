"""C10 — JANUS is bit-wise time reversible; symmetric schemes reverse to rounding error.

1. regenerate coq/Gen/JanusTables.v from the current integrator_janus.c (translator also checks that the
   step structure in the source still has the transcribed shape);
2. proofs: coq/C10 — reversibility for every order/scale/N/n/force from IEEE sign symmetry (FloatAxioms),
   palindromicity of the regenerated tables by computation;
3. correspondence: the Coq model (integer state + binary64 coefficients + direct-sum gravity) vs the
   library's ri_janus.p_int after n forward / m backward steps, integer for integer;
4. searcher (library only, always run): forward/backward round trips for JANUS (bit-exact) and for
   LEAPFROG / WHFast (4 coordinate systems) / uncorrected SABA / unprocessed EOS / SEI (rounding-level).
"""
import math, os, sys, ctypes
import vlib

ORDERS = {2: "s1odr2", 4: "s5odr4", 6: "s9odr6a", 8: "s15odr8", 10: "s33odr10c"}


def make_system(rebound, rng, n):
    sim = rebound.Simulation()
    sim.G = rng.choice([1.0, 1.0, 0.5, 4 * math.pi ** 2])
    sim.add(m=1.0, x=rng.uniform(-0.01, 0.01), y=rng.uniform(-0.01, 0.01), z=0.0,
            vx=rng.uniform(-1e-3, 1e-3), vy=rng.uniform(-1e-3, 1e-3), vz=0.0)
    for i in range(1, n):
        a = (1.0 + 0.7 * i) * rng.uniform(0.9, 1.1)
        ang = rng.uniform(0, 2 * math.pi)
        v = math.sqrt(sim.G / a) * rng.uniform(0.9, 1.1)
        sim.add(m=10 ** rng.uniform(-6, -3), x=a * math.cos(ang), y=a * math.sin(ang), z=rng.uniform(-0.05, 0.05),
                vx=-v * math.sin(ang), vy=v * math.cos(ang), vz=rng.uniform(-0.01, 0.01))
    return sim


def pint_list(sim):
    pi = sim.ri_janus.p_int
    out = []
    for i in range(sim.N):
        out += [pi[i].x, pi[i].y, pi[i].z, pi[i].vx, pi[i].vy, pi[i].vz]
    return out


def state(sim):
    return [c for p in sim.particles for c in (p.x, p.y, p.z, p.vx, p.vy, p.vz)]



def sei_correspondence_cases(ctx, rebound, rng):
    """Histories of SEI steps on ONE simulation with dt changing sign/size; gravity none + a position dependent
    additional force whose (positions -> accelerations) table is recorded; sin/tan from libm via math."""
    import ctypes
    cases = []
    for k in range(ctx.scale(36, 360)):
        n = rng.choice([1, 2, 3])
        OM = rng.choice([1.0, 0.7, 2.5, 1e-3])
        OMZ = rng.choice([None, None, 1.3 * OM, 3.6])
        sim = rebound.Simulation()
        sim.integrator = "sei"; sim.gravity = "none"
        sim.ri_sei.OMEGA = OM
        if OMZ is not None: sim.ri_sei.OMEGAZ = OMZ
        for i in range(n):
            sim.add(m=0.0, x=rng.uniform(-1, 1), y=rng.uniform(-1, 1), z=rng.uniform(-0.1, 0.1),
                    vx=rng.uniform(-0.1, 0.1), vy=rng.uniform(-1, 1), vz=rng.uniform(-0.05, 0.05))
        kx, ky, kz = rng.uniform(0, 0.5), rng.uniform(0, 0.5), rng.uniform(0, 2)
        ftab = []
        def force(simp, ftab=ftab, kx=kx, ky=ky, kz=kz, n=n):
            ps = simp.contents.particles
            pos = []; acc = []
            for i in range(n):
                p = ps[i]
                a = (-kx * p.x + 0.1 * p.y * p.z, -ky * p.y, -kz * p.z + 0.05 * p.x * p.x)
                p.ax, p.ay, p.az = a
                pos.append([p.x, p.y, p.z]); acc.append(list(a))
            ftab.append((pos, acc))
        sim.additional_forces = force
        dt = rng.choice([1, -1]) * rng.choice([1e-2, 0.1, 0.3, 1.0]) * rng.uniform(0.5, 1.5)
        mode = k % 4
        if mode == 0: dts = [dt] * 3 + [-dt] * 3                      # forward then back
        elif mode == 1: dts = [dt, -dt, dt, dt, -dt]                  # repeated flips
        elif mode == 2: dts = [dt, dt * 2, -dt * 2, -dt, dt]          # size and sign
        else: dts = [dt, dt, -dt, -dt, 0.5 * dt, -0.5 * dt]
        ps0 = [[p.x, p.y, p.z, p.vx, p.vy, p.vz] for p in sim.particles]
        for d in dts:
            sim.dt = d; sim.step()
        omz = OM if OMZ is None else OMZ
        ttab = []
        for d in sorted(set(dts)):
            ttab.append((d, (math.sin(OM * (-d / 2.)), math.tan(OM * (-d / 4.)), math.sin(omz * (-d / 2.)), math.tan(omz * (-d / 4.)))))
        ri = sim.ri_sei
        got = [ri._lastdt, ri._sindt, ri._tandt, ri._sindtz, ri._tandtz] + [v for p in sim.particles for v in (p.x, p.y, p.z, p.vx, p.vy, p.vz)]
        tt = "[" + "; ".join("(%s, (%s, %s, %s, %s))" % ((vlib.fhex(d),) + tuple(vlib.fhex(v) for v in vs)) for d, vs in ttab) + "]"
        def l3(rows): return "[" + "; ".join("(%s, %s, %s)" % tuple(vlib.fhex(v) for v in r) for r in rows) + "]"
        ft = "[" + "; ".join("(%s, %s)" % (l3(pos), l3(acc)) for pos, acc in ftab) + "]"
        term = "(sei_run %s %s %s %s %s %s)" % (vlib.fhex(OM), vlib.fhex(omz), tt, ft,
                                               "[" + "; ".join(vlib.flist(p) for p in ps0) + "]", vlib.flist(dts))
        cases.append((term, got, {"N": n, "OMEGA": OM, "OMEGAZ": OMZ, "dts": dts}))
        ctx.case(key=("sei-corr", n, mode, OMZ is None))
        # the oracle is odd, as the theorem assumes (checked on the values actually used)
        for d in dts:
            a = (math.sin(OM * (-d / 2.)), math.tan(OM * (-d / 4.))); b = (math.sin(OM * (d / 2.)), math.tan(OM * (d / 4.)))
            if a[0] != -b[0] or a[1] != -b[1]:
                ctx.obligation("libm sin/tan odd at the arguments used by SEI", False, "dt=%r OMEGA=%r" % (d, OM))
    return cases

def run(ctx):
    libdir = ctx.lib()
    ctx.regen("translate_janus.py")
    proved = ctx.prove("C10", extra_targets=["C10/Run.vo"])
    sys.path.insert(0, libdir)
    import rebound
    rng = ctx.rng

    # ---------------- correspondence: model vs library, integer state
    ncases = ctx.scale(40, 400)
    cases = []
    for k in range(ncases):
        order = [2, 4, 6, 8, 10][k % 5]
        n = rng.choice([2, 2, 3, 4])
        sim = make_system(rebound, rng, n)
        sim.integrator = "janus"
        sim.ri_janus.order = order
        sp = rng.choice([1e-16, 1e-16, 1e-14, 1e-12, 1e-10])
        sv = rng.choice([1e-16, 1e-16, 1e-14, 1e-12, 1e-10])
        sim.ri_janus.scale_pos = sp
        sim.ri_janus.scale_vel = sv
        dt = rng.choice([1, -1]) * rng.uniform(1e-3, 5e-2)
        sim.dt = dt
        nf = rng.randint(1, 3 if order >= 8 else 5)
        nb = rng.choice([0, nf, rng.randint(0, nf)])
        ms = [p.m for p in sim.particles]
        ps0 = [[p.x, p.y, p.z, p.vx, p.vy, p.vz] for p in sim.particles]
        G = sim.G
        for _ in range(nf):
            sim.step()
        sim.dt = -dt
        for _ in range(nb):
            sim.step()
        got = pint_list(sim)
        term = "(janus_run %s %s %s %s %s %s_stages %s_gamma %s %d %d)" % (
            vlib.fhex(G), vlib.fhex(sp), vlib.fhex(sv), vlib.flist(ms),
            "[" + "; ".join(vlib.flist(p) for p in ps0) + "]", ORDERS[order], ORDERS[order], vlib.fhex(dt), nf, nb)
        cases.append((term, got, {"order": order, "N": n, "scale_pos": sp, "scale_vel": sv, "dt": dt, "fwd": nf, "bwd": nb}))
        ctx.case(key=("corr", order, n, sp, sv, nf, nb), sample=cases[-1][2] if k < 3 else None)
    jobs = []
    chunk = 10
    for c0 in range(0, len(cases), chunk):
        body = ("From Coq Require Import ZArith List PrimFloat.\nFrom RV Require Import Gen.JanusTables C10.Model C10.Run.\n"
                "Import ListNotations.\nOpen Scope float_scope.\nDefinition cases : list (list Z * list Z) := [\n")
        body += ";\n".join("(%s, [%s])" % (t, "; ".join("(%d)%%Z" % z for z in g)) for t, g, _ in cases[c0:c0 + chunk])
        body += "].\nEval vm_compute in (bad_zcases cases).\n"
        jobs.append(("c10_%d" % (c0 // chunk), body))
    bad_total = []; corr_ok = True
    for (name, ok, out), c0 in zip(vlib.coq_eval_many(jobs, timeout=600), range(0, len(cases), chunk)):
        bad = vlib.parse_coq_list_nat(out) if ok else None
        if bad is None:
            corr_ok = False
            ctx.obligation("correspondence:C10:" + name, False, out[-1500:])
        else:
            bad_total += [c0 + b for b in bad]
    ctx.traces = len(cases) if corr_ok else 0
    ctx.obligation("correspondence:C10 JANUS model == library p_int (int64 for int64) on %d runs" % len(cases),
                   corr_ok and not bad_total, "mismatching: %s" % [cases[b][2] for b in bad_total[:5]])

    # ---------------- correspondence: SEI model (incl. the sin/tan cache carried across changes of dt) vs library
    sei_cases = sei_correspondence_cases(ctx, rebound, rng)
    jobs = []; chunk = 12
    for c0 in range(0, len(sei_cases), chunk):
        body = ("From Coq Require Import List PrimFloat.\nFrom RV Require Import Common.FloatNum C10.Sei C10.SeiRun.\n"
                "Import ListNotations.\nOpen Scope float_scope.\nDefinition cases : list (list float * list float) := [\n" +
                ";\n".join("(%s, %s)" % (t, vlib.flist(g)) for t, g, _ in sei_cases[c0:c0 + chunk]) +
                "].\nEval vm_compute in (bad_cases cases).\n")
        jobs.append(("c10sei_%d" % (c0 // chunk), body))
    sei_bad = []; sei_ok = True
    for (name, ok, out), c0 in zip(vlib.coq_eval_many(jobs, timeout=600), range(0, len(sei_cases), chunk)):
        bad = vlib.parse_coq_list_nat(out) if ok else None
        if bad is None:
            sei_ok = False; ctx.obligation("correspondence:C10:" + name, False, out[-1500:])
        else:
            sei_bad += [c0 + b for b in bad]
    if sei_ok: ctx.traces += len(sei_cases)
    ctx.obligation("correspondence:C10 SEI model(binary64, libm sin/tan as oracle) == library particles and cache, bit for bit, on %d "
                   "histories with changes of sign and size of dt" % len(sei_cases),
                   sei_ok and not sei_bad, "mismatching: %s" % [sei_cases[b][2] for b in sei_bad[:4]])

    # ---------------- searcher: library-only round trips
    fails = []
    nrt = ctx.scale(60, 600)
    for k in range(nrt):
        order = [2, 4, 6, 8, 10][k % 5]
        n = rng.choice([2, 3, 5, 8])
        sim = make_system(rebound, rng, n)
        sim.integrator = "janus"
        sim.ri_janus.order = order
        sp = 10 ** rng.uniform(-16, -10); sv = 10 ** rng.uniform(-16, -10)
        sim.ri_janus.scale_pos = sp; sim.ri_janus.scale_vel = sv
        # every force routine JANUS can be combined with, and active/test-particle splits: the force must be a function
        # of the positions alone, whatever bookkeeping the gravity module keeps between calls
        grav = rng.choice(["basic", "basic", "compensated", "compensated", "none"])
        nact = rng.choice([-1, -1, rng.randint(1, n)])
        long_tp = (k % 3 == 2) and order <= 6 and n >= 3
        if long_tp:
            # long runs with several active bodies and test particles under compensated summation (state kept by the
            # gravity module between calls must not leak into the accelerations)
            grav = "compensated"; nact = rng.randint(2, n - 1)
            sp = sv = 1e-16; sim.ri_janus.scale_pos = sp; sim.ri_janus.scale_vel = sv     # finest grid: a last-bit change of an acceleration shows
        sim.gravity = grav
        sim.N_active = nact
        sim.testparticle_type = rng.choice([0, 1])
        dt = rng.choice([1, -1]) * rng.uniform(1e-3, 0.1)
        sim.dt = dt
        nsteps = rng.randint(1, ctx.scale(30, 200) if order < 10 else 8)
        if long_tp: nsteps = rng.randint(250, 400)
        hist = None
        if k % 4 == 1 and n >= 3 and not long_tp:
            # a simulation object with a history: steps, then a particle is removed (and possibly one added back): the
            # round trip measured afterwards on the SAME object must still be bit-wise exact
            hist = rng.choice(["remove", "remove+add", "remove,step,add"])
            for _ in range(rng.randint(1, 9)): sim.step()
            sim.remove(rng.randint(1, sim.N - 1))
            if hist == "remove,step,add": sim.step()
            if hist != "remove":
                sim.add(m=10 ** rng.uniform(-6, -3), a=rng.uniform(5, 6), e=0.05, f=rng.uniform(0, 6))
            n = sim.N
            if sim.N_active > sim.N: sim.N_active = -1
            # ... and the object with that history must continue exactly like a FRESH simulation holding the same
            # particles and settings (the integer state has to be re-derived from the particles when N changed)
            fresh = rebound.Simulation(); fresh.G = sim.G; fresh.t = sim.t
            for p_ in sim.particles: fresh.add(m=p_.m, x=p_.x, y=p_.y, z=p_.z, vx=p_.vx, vy=p_.vy, vz=p_.vz)
            fresh.integrator = "janus"; fresh.ri_janus.order = order
            fresh.ri_janus.scale_pos = sp; fresh.ri_janus.scale_vel = sv
            fresh.gravity = grav; fresh.N_active = sim.N_active; fresh.testparticle_type = sim.testparticle_type; fresh.dt = sim.dt
            twin = sim.copy()
            for _ in range(3): twin.step(); fresh.step()
            ctx.case(key=("history-vs-fresh", order, hist))
            if any(not vlib.same_bits(a, b) for a, b in zip(state(twin), state(fresh))):
                fails.append({"integrator": "janus", "order": order, "N": n, "scale_pos": sp, "scale_vel": sv, "dt": dt,
                              "gravity": grav, "N_active": nact, "testparticle_type": sim.testparticle_type, "history": hist + " then 3 steps: differs from a fresh simulation with the same particles",
                              "steps": 3, "masses": [p.m for p in sim.particles], "state0": [x.hex() for x in state(sim)]})
        sim.step()                      # first step puts the state on the integer grid
        sim.dt = -dt; sim.step(); sim.dt = dt
        s0 = state(sim); i0 = pint_list(sim)
        for _ in range(nsteps): sim.step()
        sim.dt = -dt
        for _ in range(nsteps): sim.step()
        ctx.case(key=("rt", order, n, nsteps, grav, nact != -1))
        if pint_list(sim) != i0 or any(not vlib.same_bits(a, b) for a, b in zip(state(sim), s0)):
            fails.append({"integrator": "janus", "order": order, "N": n, "scale_pos": sp, "scale_vel": sv, "dt": dt,
                          "gravity": grav, "N_active": nact, "testparticle_type": sim.testparticle_type, "history": hist,
                          "steps": nsteps, "masses": [p.m for p in sim.particles], "state0": [x.hex() for x in s0]})
    if fails:
        f = min(fails, key=lambda d: (d["steps"], d["N"]))
        ctx.violation("janus-roundtrip:order%d" % f["order"], f, True,
                      "JANUS forward/backward round trip does not return to the initial bits")

    # other symmetric schemes: to rounding error (amplification-aware: short runs of a stable system)
    def sym_cases():
        yield ("leapfrog", {})
        for c in ("jacobi", "democraticheliocentric", "whds", "barycentric"):
            yield ("whfast", {"coordinates": c})
        for t in ("1", "2", "3", "4", "(10,4)", "(8,6,4)", "(10,6,4)", "H(8,4,4)", "H(8,6,4)", "H(10,6,4)"):
            yield ("saba", {"type": t})
        for phi in ("lf", "lf4", "lf6", "lf8", "lf4_2", "lf8_6_4"):
            yield ("eos", {"phi0": phi})
        yield ("sei", {})
    sym_fail = []
    for integ, opt in sym_cases():
        for rep in range(ctx.scale(2, 10)):
            n = rng.choice([2, 3, 4])
            sim = make_system(rebound, rng, n)
            if integ == "sei":
                sim = rebound.Simulation()
                sim.ri_sei.OMEGA = 1.0
                for _ in range(3):
                    sim.add(m=0.0, x=rng.uniform(-1, 1), y=rng.uniform(-1, 1), z=rng.uniform(-0.1, 0.1),
                            vx=rng.uniform(-0.1, 0.1), vy=rng.uniform(-0.1, 0.1), vz=rng.uniform(-0.1, 0.1))
                sim.gravity = "none"
            sim.integrator = integ
            if integ == "whfast":
                sim.ri_whfast.coordinates = opt["coordinates"]
                if opt["coordinates"] != "jacobi":
                    pass
            if integ == "saba": sim.ri_saba.type = opt["type"]
            if integ == "eos": sim.ri_eos.phi0 = opt["phi0"]; sim.ri_eos.phi1 = "lf"; sim.ri_eos.n = 2
            dt = rng.choice([1, -1]) * 0.02
            sim.dt = dt
            s0 = state(sim)
            nsteps = rng.randint(5, 50)
            for _ in range(nsteps): sim.step()
            if hasattr(sim, "synchronize"): sim.synchronize()
            sim.dt = -dt
            for _ in range(nsteps): sim.step()
            sim.synchronize()
            s1 = state(sim)
            scale = max(abs(x) for x in s0)
            err = max(abs(a - b) for a, b in zip(s0, s1)) / scale
            ctx.case(key=("sym", integ, str(opt), nsteps))
            # rounding error grows at most ~ steps * stages * eps * modest Lyapunov factor on these short runs
            if not (err < 1e-10):
                sym_fail.append({"integrator": integ, "options": opt, "N": n, "dt": dt, "steps": nsteps, "relative_error": err,
                                 "state0": [x.hex() for x in s0], "masses": [p.m for p in sim.particles]})
    # two-body flybys and eccentric orbits through pericentre with coarse and fine steps, both directions:
    # WH-type schemes solve the two-body problem exactly, so the round trip must close to rounding error
    # (the near-parabolic / overflow region of the Kepler solver, repaired in /repo 0366be3 and 805dfda, is the `edge` family)
    for rep in range(ctx.scale(24, 200)):
        integ, opt = rng.choice([("whfast", {"coordinates": c}) for c in ("jacobi", "democraticheliocentric", "whds", "barycentric")]
                                + [("saba", {"type": "(10,6,4)"}), ("saba", {"type": "2"})])
        hyper = rng.random() < 0.6
        e = rng.uniform(1.1, 3.0) if hyper else rng.uniform(0.0, 0.8)
        # edge of the hyperbolic family: near-parabolic orbits stepped through pericentre with steps so long that the
        # Kepler solver leaves Newton's method for its bracketing fallback -- in BOTH directions of time
        edge = hyper and rep % 3 == 0
        if edge: e = rng.choice([1.001, 1.003, 1.01, 1.03])
        a = -1.0 if hyper else 1.0
        sim = rebound.Simulation()
        sim.add(m=1.0)
        f0 = (-rng.uniform(0.5, 0.9 * math.acos(-1.0 / e)) if hyper else rng.uniform(0, 6.28))
        if edge: f0 = rng.uniform(-0.6, 0.6)        # incoming and outgoing (at / past pericentre)
        # a massive secondary in democratic-heliocentric / barycentric coordinates is NOT a pure Kepler problem (jump and
        # interaction terms of size m1/m0): at a pericentre distance of 1e-3 and steps of 50 those kicks amplify rounding
        # without bound, so the edge family uses a massless secondary there (as C03 does for the same coordinates)
        m1 = rng.choice([0.0, 1e-3])
        if edge and integ == "whfast" and opt["coordinates"] in ("democraticheliocentric", "barycentric"): m1 = 0.0
        sim.add(m=m1, a=a, e=e, f=f0,
                omega=rng.uniform(0, 6), Omega=rng.uniform(0, 6), inc=rng.uniform(0, 1))
        sim.move_to_com()
        sim.integrator = integ
        if integ == "whfast": sim.ri_whfast.coordinates = opt["coordinates"]
        else: sim.ri_saba.type = opt["type"]
        dt = rng.choice([1, -1]) * rng.choice([0.05, 1.0, 5.0, 20.0] if hyper else [0.05, 0.7, 3.0, 11.0])
        if edge: dt = rng.choice([1, -1]) * rng.choice([2 * math.pi, 20.0, 50.0])
        nsteps = rng.randint(2, 8) if abs(dt) > 0.5 else rng.randint(20, 200)
        if edge: nsteps = rng.choice([1, 1, 2, 4])
        s0 = state(sim); sim.dt = dt
        for _ in range(nsteps): sim.step()
        sim.synchronize(); far = max(abs(x) for x in state(sim))
        sim.dt = -dt
        for _ in range(nsteps): sim.step()
        sim.synchronize()
        s1 = state(sim)
        err = max(abs(p - q) for p, q in zip(s0, s1))
        ctx.case(key=("twobody", integ, str(opt), hyper, edge, abs(dt)))
        # rounding is amplified by the eccentricity and by (dt/period)^2 in the Kepler solver's argument doubling:
        # 1e-7 is ~100x above the worst error seen on the unchanged tree (calibrated over 40 seeds), far below a wrong branch (>1e-2)
        tol = 1e-7 * max(1.0, far)
        if not (err < tol):
            sym_fail.append({"integrator": integ, "options": opt, "N": 2, "dt": dt, "steps": nsteps, "relative_error": err,
                             "a": a, "e": e, "edge": edge, "err": err, "tol": tol, "state0": [x.hex() for x in s0], "masses": [p.m for p in sim.particles]})
    if sym_fail:
        f = min(sym_fail, key=lambda d: d["steps"])
        ctx.violation("symmetric-roundtrip:%s:%s" % (f["integrator"], f["options"]), f, True,
                      "time-symmetric scheme does not reverse to rounding error")
    ctx.rule = ("JANUS: orders 2..10 x scales 1e-16..1e-10 x N 2..8 x steps; distinct by (kind, order, N, scales, steps); "
                "symmetric schemes: leapfrog, whfast x4 coords, 10 SABA types, 6 EOS splittings, SEI")
    ctx.assumptions += [
        "double->int64 conversion modelled as truncation with the x86-64 cvttsd2si out-of-range result (INT64_MIN); int64 += wraps (gcc -fno-strict-overflow is among the build flags)",
        "the force is any function of the integer positions (F_pos hypothesis); REB_GRAVITY_BASIC satisfies it; gravity routines with history (COMPENSATED) are outside the theorem",
        "time t is not claimed to return bitwise (the property speaks of positions and velocities)",
        "other symmetric schemes: theorem is over abstract invertible operators (exact arithmetic); the rounding-level claim is validated by the searcher only",
    ]
