#!/bin/sh
# Re-evaluate every stored seed against the current checks (only meaningful after a clean pass on /repo).
# usage: tools/seedall.sh [parallelism]   -- results in seeded/<name>/meta.json, then regenerate DESIGN tables.
cd "$(dirname "$0")/.."
P=${1:-4}
ls seeded | while read n; do
  [ -f seeded/$n/meta.json ] || continue
  prop=$(/venv/bin/python -c "import json;print(json.load(open('seeded/$n/meta.json'))['breaks_property'])")
  checks=$(/venv/bin/python -c "import json;print(','.join(json.load(open('seeded/$n/meta.json')).get('checks',{}).keys()) or '$prop')")
  echo "$n $prop $checks"
done | xargs -P $P -L 1 sh -c 'tools/seedtest.py $0 $1 seeded/$0 --checks $2 --skip-tests > /tmp/seedall_$0.log 2>&1; echo "$0 done"'
/venv/bin/python tools/mkdesign_tables.py
