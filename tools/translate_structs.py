#!/venv/bin/python
"""C18 translator (C side): $VERIF_REPO/src/*.h  ->  coq/Gen/Structs.v   (+ build/c18/structs.json for the harness)

Runs  clang -Xclang -ast-dump=json -fsyntax-only  with the -D flags of the library build on a translation unit that
includes rebound.h and the other headers of src/ (VERIF_C18_VARIANT=avx512 adds -DAVX512 -mavx512f), and emits
  c_structs : every struct/union defined in the repository headers, plus every system record they embed by value,
              plus `struct timeval`; ordered so that a record embedded by value precedes its user; each member with
              its C type (typedefs resolved to builtin types) and its aligned(n) attribute;
  c_enums   : every enum of the repository headers with its constants and values;
  c_decls   : every function / extern variable declared in the repository headers, with the header's name and whether
              the declaration is spelled with DLLEXPORT in the source text.
Fail closed: bit-fields, unknown type syntax, unknown typedefs, flexible arrays inside reachable records -> exit != 0.
"""
import json, os, re, subprocess, sys, glob

ROOT = os.path.dirname(os.path.dirname(os.path.abspath(__file__)))
REPO = os.environ.get("VERIF_REPO", "/repo")
SRC = os.path.join(REPO, "src")
VARIANT = os.environ.get("VERIF_C18_VARIANT", "default")
SUFFIX = "" if VARIANT == "default" else "_" + VARIANT
# the default variant is part of the Coq development; other variants are only evaluated by the harness (thorough tier)
OUT = os.path.join(ROOT, "coq", "Gen", "Structs.v") if VARIANT == "default" else os.path.join(ROOT, "build", "c18", "Structs_%s.v" % VARIANT)
OUTJ = os.path.join(ROOT, "build", "c18", "structs%s.json" % SUFFIX)
DFLAGS = ["-DLIBREBOUND", "-D_GNU_SOURCE", "-DSERVER", "-std=c99"]
VFLAGS = {"default": [], "avx512": ["-DAVX512", "-mavx512f"]}
SKIP_HEADERS = {"glad.h", "khrplatform.h", "communication_mpi.h"}   # third-party GL loader / MPI-only
EXTRA_RECORDS = ["timeval"]


class Fail(Exception):
    pass


def fail(msg):
    raise Fail(msg)


def qs(s):
    if any(ord(c) < 32 or ord(c) > 126 for c in s):
        fail("non printable-ascii string %r" % s)
    return '"' + s.replace('"', '""') + '"'


# ----------------------------------------------------------------------------- source locations
def resolve_locations(ast):
    """clang omits file/line in a location when they equal those of the previously PRINTED location; replay that."""
    st = {"file": None, "line": None}
    stack = [ast]
    # iterative DFS in document order
    def walk(o):
        if isinstance(o, dict):
            if "offset" in o and ("col" in o or "line" in o or "file" in o):
                if "file" in o: st["file"] = o["file"]
                if "line" in o: st["line"] = o["line"]
                o["_file"] = st["file"]; o["_line"] = st["line"]
            for k, v in o.items():
                if isinstance(v, (dict, list)):
                    walk(v)
        elif isinstance(o, list):
            for v in o:
                walk(v)
    sys.setrecursionlimit(100000)
    walk(ast)


def bare(loc):
    if loc is None:
        return None
    if "expansionLoc" in loc:
        return loc["expansionLoc"]
    return loc


def node_file(n):
    l = bare(n.get("loc"))
    if l and "_file" in l:
        return l["_file"], l["_line"], l.get("col")
    r = n.get("range", {}).get("begin")
    r = bare(r)
    if r and "_file" in r:
        return r["_file"], r["_line"], r.get("col")
    return None, None, None


# ----------------------------------------------------------------------------- C type-name parser
QUALS = {"const", "volatile", "restrict", "__restrict", "__restrict__", "_Atomic"}
BUILTIN_WORDS = {"unsigned", "signed", "int", "long", "short", "char", "double", "float", "void", "_Bool"}
CANON = {
    ("char",): "char", ("char", "signed"): "signed char", ("char", "unsigned"): "unsigned char",
    ("short",): "short", ("int", "short"): "short", ("short", "unsigned"): "unsigned short", ("int", "short", "unsigned"): "unsigned short",
    ("int",): "int", ("signed",): "int", ("int", "signed"): "int", ("unsigned",): "unsigned int", ("int", "unsigned"): "unsigned int",
    ("long",): "long", ("int", "long"): "long", ("long", "unsigned"): "unsigned long", ("int", "long", "unsigned"): "unsigned long",
    ("long", "long"): "long long", ("int", "long", "long"): "long long", ("long", "long", "unsigned"): "unsigned long long",
    ("int", "long", "long", "unsigned"): "unsigned long long",
    ("float",): "float", ("double",): "double", ("double", "long"): "long double", ("_Bool",): "_Bool",
}


class TypeParser:
    def __init__(self, typedefs):
        self.typedefs = typedefs     # name -> qualType string
        self.depth = 0

    def parse(self, s):
        self.depth += 1
        if self.depth > 40:
            fail("typedef recursion too deep at '%s'" % s)
        try:
            m = re.match(r"^__attribute__\(\(__vector_size__\((\d+) \* sizeof\((\w[\w ]*)\)\)\)\) (\w[\w ]*)$", s)
            if m:
                el = self.parse(m.group(3))
                szs = {"double": 8, "float": 4, "long long": 8, "int": 4, "char": 1, "short": 2}
                if m.group(2) not in szs:
                    fail("vector element '%s'" % m.group(2))
                return ("vec", int(m.group(1)) * szs[m.group(2)], el)
            anon = []
            def repl(mm):
                anon.append(mm.group(0)); return " ANON%d " % (len(anon) - 1)
            s2 = re.sub(r"\((?:unnamed|anonymous)(?: struct| union| enum)? at [^)]*\)", repl, s)
            s2 = re.sub(r"\b\w+::ANON", "ANON", s2)
            toks = re.findall(r"\.\.\.|[A-Za-z_]\w*|\d+|[*()\[\],]", s2)
            if "".join(toks) != re.sub(r"\s+", "", s2):
                fail("cannot tokenise C type '%s'" % s)
            self_t = _P(self, toks, anon, s)
            t = self_t.type_name()
            if self_t.i != len(toks):
                fail("trailing tokens in C type '%s'" % s)
            return t
        finally:
            self.depth -= 1


class _P:
    def __init__(self, tp, toks, anon, src):
        self.tp = tp; self.toks = toks; self.i = 0; self.anon = anon; self.src = src

    def peek(self, k=0):
        return self.toks[self.i + k] if self.i + k < len(self.toks) else None

    def next(self):
        t = self.peek(); self.i += 1; return t

    def anon_key(self, tok):
        txt = self.anon[int(tok[4:])]
        m = re.search(r" at (.*):(\d+):(\d+)\)$", txt)
        if not m:
            fail("anonymous type location not understood: %s" % txt)
        return "anon@%s:%s:%s" % (os.path.basename(m.group(1)), m.group(2), m.group(3))

    def specifiers(self):
        words = []; base = None
        while True:
            t = self.peek()
            if t in QUALS:
                self.next(); continue
            if t in ("struct", "union", "enum"):
                self.next(); nm = self.next()
                if nm is None: fail("tag without name in '%s'" % self.src)
                if nm.startswith("ANON"): nm = self.anon_key(nm)
                base = ("enum", nm) if t == "enum" else ("struct", nm)
                continue
            if t in BUILTIN_WORDS:
                words.append(self.next()); continue
            if t is not None and re.match(r"[A-Za-z_]", t) and base is None and not words:
                if t.startswith("ANON"):
                    fail("bare anonymous type in '%s'" % self.src)
                if t not in self.tp.typedefs:
                    fail("unknown type name '%s' in '%s'" % (t, self.src))
                self.next()
                base = self.tp.parse(self.tp.typedefs[t])
                continue
            break
        if base is not None and words:
            fail("mixed specifiers in '%s'" % self.src)
        if base is None:
            if not words:
                fail("no type specifier in '%s'" % self.src)
            if words == ["void"]:
                return ("void",)
            key = tuple(sorted(words))
            if key not in CANON:
                fail("builtin type '%s' not understood" % " ".join(words))
            return ("prim", CANON[key])
        return base

    def type_name(self):
        return self.abs_decl(self.specifiers())

    def abs_decl(self, base):
        while self.peek() == "*":
            self.next()
            while self.peek() in QUALS: self.next()
            base = ("ptr", base)
        if self.peek() == "(" and self.peek(1) in ("*", "(", "["):
            self.next()
            depth = 1; j = self.i
            while depth > 0:
                t = self.toks[j] if j < len(self.toks) else fail("unbalanced parens in '%s'" % self.src)
                if t == "(": depth += 1
                elif t == ")": depth -= 1
                j += 1
            inner = self.toks[self.i:j - 1]
            self.i = j
            base = self.suffixes(base)
            sub = _P(self.tp, inner, self.anon, self.src)
            t = sub.abs_decl(base)
            if sub.i != len(inner): fail("inner declarator not consumed in '%s'" % self.src)
            return t
        return self.suffixes(base)

    def suffixes(self, base):
        sufs = []
        while self.peek() in ("[", "("):
            if self.next() == "[":
                n = self.next()
                if n == "]":
                    sufs.append(("arr", None)); continue
                if not n.isdigit(): fail("array size in '%s'" % self.src)
                if self.next() != "]": fail("']' expected in '%s'" % self.src)
                sufs.append(("arr", int(n)))
            else:
                params = []; variadic = False
                if self.peek() == ")":
                    self.next(); sufs.append(("fun", [], False, True)); continue
                while True:
                    if self.peek() == "...":
                        self.next(); variadic = True
                    else:
                        params.append(self.type_name())
                    t = self.next()
                    if t == ")": break
                    if t != ",": fail("',' expected in '%s'" % self.src)
                if params == [("void",)]: params = []
                sufs.append(("fun", params, variadic, False))
        for s in reversed(sufs):
            if s[0] == "arr":
                base = ("arr", s[1], base)
            else:
                base = ("fun", base, s[1], s[2])
        return base


def coq_type(t):
    k = t[0]
    if k == "void": return "CVoid"
    if k == "prim": return "CPrim %s" % qs(t[1])
    if k == "enum": return "CEnum %s" % qs(t[1])
    if k == "struct": return "CStruct %s" % qs(t[1])
    if k == "ptr": return "CPtr (%s)" % coq_type(t[1])
    if k == "arr":
        if t[1] is None: fail("array of unknown size")
        return "CArr %d (%s)" % (t[1], coq_type(t[2]))
    if k == "vec": return "CVec %d (%s)" % (t[1], coq_type(t[2]))
    if k == "fun":
        return "CFun (%s) [%s] %s" % (coq_type(t[1]), "; ".join(coq_type(a) for a in t[2]), "true" if t[3] else "false")
    fail("type kind " + k)


def byvalue(t):
    if t[0] == "struct": return [t[1]]
    if t[0] in ("arr", "vec"): return byvalue(t[2])
    return []


def member_kind(t):
    """coarse classification for the library-only searcher (how gcc reads the bytes of the member)."""
    k = t[0]
    if k == "prim":
        n = t[1]
        if n == "char": return "char"
        if n in ("float", "double", "long double"): return "float"
        if n == "_Bool": return "other"
        return "unsigned" if n.startswith("unsigned") else "signed"
    if k == "enum": return "enum"
    if k == "ptr": return "funptr" if t[1][0] == "fun" else "ptr"
    if k == "struct": return "struct:" + t[1]
    return "other"


# ----------------------------------------------------------------------------- main
def main():
    hdrs = ["rebound.h"] + sorted(os.path.basename(h) for h in glob.glob(os.path.join(SRC, "*.h"))
                                  if os.path.basename(h) not in SKIP_HEADERS and os.path.basename(h) != "rebound.h")
    if not os.path.exists(os.path.join(SRC, "rebound.h")):
        fail("no rebound.h under %s" % SRC)
    os.makedirs(os.path.dirname(OUTJ), exist_ok=True)
    tu = os.path.join(os.path.dirname(OUTJ), "tu%s_%d.c" % (SUFFIX, os.getpid()))
    open(tu, "w").write("".join('#include "%s"\n' % h for h in hdrs))
    try:
        r = subprocess.run(["clang", "-Xclang", "-ast-dump=json", "-fsyntax-only", "-w"] + DFLAGS + VFLAGS[VARIANT] + ["-I" + SRC, tu],
                           capture_output=True, text=True, timeout=240)
    finally:
        os.remove(tu)
    if r.returncode != 0:
        fail("clang failed: " + r.stderr[-1500:])
    ast = json.loads(r.stdout)
    resolve_locations(ast)
    srcreal = os.path.realpath(SRC)

    def in_repo(f):
        return f is not None and os.path.dirname(os.path.realpath(f)) == srcreal

    typedefs = {}; records = {}; recbyid = {}; enums = []; decls = []
    anon_names = {}

    def visit_record(n, parent=None):
        f, line, col = node_file(n)
        if not n.get("completeDefinition"):
            return
        name = n.get("name") or anon_names.get(n["id"]) or "anon@%s:%s:%s" % (os.path.basename(f or "?"), line, col)
        members = []
        for ch in n.get("inner", []):
            k = ch["kind"]
            if k == "RecordDecl":
                visit_record(ch, name)
            elif k == "EnumDecl":
                visit_enum(ch)
            elif k == "FieldDecl":
                aligned = 0
                for a in ch.get("inner", []):
                    if a["kind"] == "AlignedAttr":
                        v = None
                        for b in a.get("inner", []):
                            if b["kind"] == "ConstantExpr" and "value" in b: v = int(b["value"])
                        if v is None: fail("aligned attribute without constant value in %s.%s" % (name, ch.get("name")))
                        aligned = v
                    elif a["kind"].endswith("Attr"):
                        members.append(("!attr:" + a["kind"], None, 0)); continue
                if ch.get("isBitfield"):
                    members.append(("!bitfield", None, 0)); continue
                if not ch.get("name"):
                    members.append(("!anonymous-member", None, 0)); continue
                members.append((ch["name"], ch["type"]["qualType"], aligned))
            elif k.endswith("Attr") and k not in ("MaxFieldAlignmentAttr",):
                members.append(("!attr:" + k, None, 0))
            elif k == "MaxFieldAlignmentAttr":
                members.append(("!packed", None, 0))
        tag = n.get("tagUsed")
        spelling = ("%s %s" % (tag, name)) if n.get("name") else (name if n["id"] in anon_names else None)
        rec = {"name": name, "union": tag == "union", "file": f, "members": members, "in_repo": in_repo(f),
               "spelling": spelling}
        if name in records and records[name]["members"] != members:
            fail("two different definitions of record %s" % name)
        records[name] = rec
        recbyid[n["id"]] = rec

    def visit_enum(n):
        f, line, col = node_file(n)
        name = n.get("name") or anon_names.get(n["id"]) or "anon@%s:%s:%s" % (os.path.basename(f or "?"), line, col)
        consts = []; prev = -1
        for ch in n.get("inner", []):
            if ch["kind"] != "EnumConstantDecl":
                continue
            val = None
            inner = [x for x in ch.get("inner", []) if x["kind"] not in ("FullComment",) and not x["kind"].endswith("Comment")]
            if inner:
                if inner[0]["kind"] == "ConstantExpr" and "value" in inner[0]:
                    val = int(inner[0]["value"])
                else:
                    fail("enum constant %s: initialiser without evaluated value" % ch.get("name"))
            else:
                val = prev + 1
            consts.append((ch["name"], val)); prev = val
        if in_repo(f):
            enums.append({"name": name, "file": os.path.basename(f), "consts": consts})

    # first: names for anonymous tag types introduced by a typedef
    for n in ast["inner"]:
        if n["kind"] == "TypedefDecl":
            for ch in n.get("inner", []):
                o = ch.get("ownedTagDecl")
                if o and not o.get("name"):
                    anon_names[o["id"]] = n["name"]
    hdrtext = {}
    for n in ast["inner"]:
        k = n["kind"]
        if k == "TypedefDecl":
            typedefs[n["name"]] = n["type"]["qualType"]
        elif k == "RecordDecl":
            visit_record(n)
        elif k == "EnumDecl":
            visit_enum(n)
        elif k in ("FunctionDecl", "VarDecl"):
            f, line, col = node_file(n)
            if not in_repo(f) or n.get("storageClass") == "static" or n.get("isImplicit"):
                continue
            b = bare(n.get("range", {}).get("begin"))
            bl = b.get("_line") if b and b.get("_file") == f else line
            if f not in hdrtext:
                hdrtext[f] = open(f, errors="replace").read().split("\n")
            txt = hdrtext[f][bl - 1] if bl and bl - 1 < len(hdrtext[f]) else ""
            if n["name"] not in txt and line:
                txt2 = hdrtext[f][line - 1]
                if n["name"] not in txt2:
                    fail("declaration of %s not found at %s:%s" % (n["name"], f, line))
            dll = re.match(r"\s*DLLEXPORT\b", txt) is not None
            decls.append({"name": n["name"], "file": os.path.basename(f), "dllexport": dll, "function": k == "FunctionDecl",
                          "qualType": n["type"]["qualType"]})
    tp = TypeParser(typedefs)

    # which records to emit
    want = [r["name"] for r in records.values() if r["in_repo"]] + EXTRA_RECORDS
    parsed = {}
    order = []; state = {}

    def need(name, why):
        if state.get(name) == 2: return
        if state.get(name) == 1: fail("by-value cycle through record %s" % name)
        if name not in records:
            fail("record %s (needed by %s) has no complete definition" % (name, why))
        state[name] = 1
        rec = records[name]
        ms = []
        for mn, qt, al in rec["members"]:
            if qt is None:
                fail("record %s: unsupported member (%s)" % (name, mn))
            t = tp.parse(qt)
            if t[0] in ("fun", "void"): fail("record %s member %s has function/void type" % (name, mn))
            for d in byvalue(t):
                need(d, name)
            ms.append((mn, t, al))
        parsed[name] = ms
        state[name] = 2; order.append(name)
    for nm in want:
        need(nm, "top level")

    # ---- emit
    L = []; w = L.append
    w("(* GENERATED by tools/translate_structs.py (variant %s) from %s/src/*.h — do not edit. *)" % (VARIANT, REPO))
    w("From Coq Require Import ZArith String List.")
    w("From RV Require Import C18.Types.")
    w("Import ListNotations.")
    w("Open Scope string_scope. Open Scope Z_scope.")
    w("")
    w("Definition c_structs : list cstruct := [")
    items = []
    for nm in order:
        rec = records[nm]
        items.append(" {| cs_name := %s; cs_union := %s; cs_header := %s; cs_members := [\n%s ] |}" % (
            qs(nm), "true" if rec["union"] else "false", qs(os.path.basename(rec["file"]) if rec["in_repo"] else "<system>"),
            ";\n".join("    {| cm_name := %s; cm_type := %s; cm_aligned := %d |}" % (qs(mn), coq_type(t), al)
                       for mn, t, al in parsed[nm])))
    w(";\n".join(items)); w("].")
    w("")
    w("Definition c_enums : list cenum := [")
    w(";\n".join(" {| ce_name := %s; ce_header := %s; ce_consts := [%s] |}" % (
        qs(e["name"]), qs(e["file"]), "; ".join("(%s, %s)" % (qs(c), ("%d" % v) if v >= 0 else "(%d)" % v) for c, v in e["consts"]))
        for e in enums))
    w("].")
    w("")
    seen = set(); dl = []
    for d in decls:
        key = (d["name"], d["file"])
        if key in seen:
            continue
        seen.add(key); dl.append(d)
    # prototypes of the exported functions of rebound.h (used to compare named callbacks with the member they are stored in)
    funtypes = []
    for d in dl:
        if d["function"] and d["dllexport"] and d["file"] == "rebound.h":
            t = tp.parse(d["qualType"])
            if t[0] != "fun":
                fail("declaration of %s does not have a function type: %s" % (d["name"], d["qualType"]))
            funtypes.append((d["name"], t))
    w("Definition c_fun_types : list (string * ctype) := [")
    w(";\n".join(" (%s, %s)" % (qs(nm), coq_type(t)) for nm, t in funtypes))
    w("].")
    w("")
    w("Definition c_decls : list cdecl := [")
    w(";\n".join(" {| cd_name := %s; cd_header := %s; cd_dllexport := %s; cd_is_function := %s |}" % (
        qs(d["name"]), qs(d["file"]), "true" if d["dllexport"] else "false", "true" if d["function"] else "false") for d in dl))
    w("].")
    os.makedirs(os.path.dirname(OUT), exist_ok=True)
    tmp = OUT + ".tmp"
    open(tmp, "w").write("\n".join(L) + "\n")
    os.replace(tmp, OUT)
    json.dump({"headers": hdrs, "variant": VARIANT,
               "structs": [{"name": nm, "union": records[nm]["union"], "in_repo": records[nm]["in_repo"],
                            "header": os.path.basename(records[nm]["file"] or ""), "spelling": records[nm]["spelling"],
                            "members": [mn for mn, _, _ in parsed[nm]],
                            "kinds": [member_kind(t) for _, t, _ in parsed[nm]],
                            "types": [t for _, t, _ in parsed[nm]]} for nm in order],
               "functions": {nm: t for nm, t in funtypes},
               "enums": [{"name": e["name"], "consts": e["consts"]} for e in enums]},
              open(OUTJ + ".tmp", "w"), indent=0)
    os.replace(OUTJ + ".tmp", OUTJ)
    print("translate_structs[%s]: %d records (%d members), %d enums (%d constants), %d declarations" % (
        VARIANT, len(order), sum(len(parsed[n]) for n in order), len(enums), sum(len(e["consts"]) for e in enums), len(dl)))


if __name__ == "__main__":
    try:
        main()
    except Fail as e:
        print("translate_structs: FAIL: %s" % e, file=sys.stderr)
        try: os.remove(OUT)
        except OSError: pass
        sys.exit(2)
