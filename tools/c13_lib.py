"""C13 helpers: building collision test simulations on the library under test, recording callbacks,
Coq literal printers, and the exact-arithmetic oracles of the searcher."""
import ctypes, math
from fractions import Fraction
import vlib


# ------------------------------------------------------------------------------------------ generation
def gen_radii(rng, n):
    style = rng.random()
    rs = []
    for i in range(n):
        u = rng.random()
        if style < 0.25:
            r = rng.uniform(0.2, 0.6)
        elif u < 0.15:
            r = 0.0
        elif u < 0.35:
            r = 10 ** rng.uniform(-6, -2)
        elif u < 0.5:
            r = rng.uniform(1.0, 2.5)
        else:
            r = rng.uniform(0.1, 0.8)
        rs.append(r)
    return rs


def gen_cluster(rng, n=None, periodic=None, tree=None, line=False, big=False, fast=False, weird=False):
    """A cluster/chain of n spheres with many simultaneous overlaps; optional periodic box with images.
    big: many spheres whose radii exceed the tree cells they sit in (stresses the tree-walk pruning radius)."""
    if n is None:
        n = rng.choice([2, 3, 3, 4, 5, 6, 7, 8, 10, 12]) if not big else rng.choice([6, 8, 10, 12, 16])
        if not big and not fast and rng.random() < 0.08:
            n = rng.choice([0, 1, 1, 2])          # the smallest particle numbers
    if periodic is None:
        periodic = rng.random() < 0.4
    box = rng.choice([8.0, 10.0, 12.5, 16.0]) if not big else 8.0
    rs = gen_radii(rng, n) if not big else [rng.uniform(0.7, 1.6) for _ in range(n)]
    shape = rng.choice(["blob", "chain", "faces"]) if periodic else rng.choice(["blob", "chain"])
    if big:
        shape = "blob"
    P = []
    for i in range(n):
        if shape == "blob":
            s = rng.choice([0.3, 0.8, 1.5]) if not big else rng.choice([1.0, 1.8])
            p = [rng.gauss(0, s) for _ in range(3)]
        elif shape == "chain":
            p = [0.45 * i - 0.2 * n + rng.uniform(-0.1, 0.1), rng.uniform(-0.2, 0.2), rng.uniform(-0.2, 0.2)]
        else:   # near opposite faces of the periodic box, so that overlaps happen across images
            ax = rng.randrange(3)
            p = [rng.uniform(-1, 1) for _ in range(3)]
            p[ax] = rng.choice([-1, 1]) * (box / 2 - rng.uniform(0.01, 0.5))
            if rng.random() < 0.3:
                ax2 = (ax + 1) % 3
                p[ax2] = rng.choice([-1, 1]) * (box / 2 - rng.uniform(0.01, 0.5))
        lim = box / 2 * 0.999
        P.append([min(max(c, -lim), lim) for c in p])
    vs = 10 ** rng.uniform(-2, 0.5)
    V = [[rng.gauss(0, vs) for _ in range(3)] for _ in range(n)]
    if rng.random() < 0.3:   # converge on the centre: most pairs approach
        V = [[-0.5 * c + 0.05 * rng.gauss(0, 1) for c in p] for p in P]
    if rng.random() < 0.1 and n >= 2:   # a pair at relative rest (dv.dx == 0)
        V[1] = list(V[0])
    ms = []
    for i in range(n):
        u = rng.random()
        ms.append(0.0 if u < 0.1 else (10 ** rng.uniform(-8, -2) if u < 0.35 else rng.uniform(0.1, 3)))
    if ms and all(m == 0.0 for m in ms):
        ms[0] = 1.0
    cfg = dict(N=n, periodic=periodic, box=box, x=[p[0] for p in P], y=[p[1] for p in P], z=[p[2] for p in P],
               vx=[v[0] for v in V], vy=[v[1] for v in V], vz=[v[2] for v in V], m=ms, r=rs,
               tree=bool(tree), keep=0, mode="line" if line else "direct", seed=rng.randrange(1, 2 ** 31),
               t=rng.choice([1.0, 0.5, 3.25]), dt=rng.choice([0.01, 0.1, 0.5, -0.1]) if line else 0.01)
    if cfg["tree"]:
        cfg["mode"] = "linetree" if line else "tree"
    if not fast and not big and rng.random() < 0.3:
        corners(rng, cfg, weird)
    if fast and line:
        # small fast spheres moving mainly along z: paths cross during the step although the end positions are far apart,
        # so LINETREE must rely on its drift terms (|dt||v1| and maxdrift) to reach the partner's cell
        cfg["dt"] = rng.choice([0.5, -0.5, 1.0])
        V = rng.choice([1.0, 2.0, 4.0])
        cfg["vx"] = [rng.gauss(0, 0.1) for _ in range(n)]
        cfg["vy"] = [rng.gauss(0, 0.1) for _ in range(n)]
        cfg["vz"] = [rng.gauss(0, V) for _ in range(n)]
        cfg["r"] = [rng.uniform(0.05, 0.3) for _ in range(n)]
        s = rng.choice([0.5, 1.0])
        lim = box / 2 * 0.999
        cfg["x"] = [min(max(rng.gauss(0, s), -lim), lim) for _ in range(n)]
        cfg["y"] = [min(max(rng.gauss(0, s), -lim), lim) for _ in range(n)]
        cfg["z"] = [min(max(rng.gauss(0, 2.0), -lim), lim) for _ in range(n)]
    return cfg


EXTREME = [-0.0, 5e-324, -1e-310, 2.2250738585072014e-308, 1e300, -1e300, float("inf"), float("-inf"), float("nan")]


def corners(rng, cfg, weird):
    """degenerate corners of the quantified space, a few per configuration (general, not aimed at anything):
    coincident positions, exact touching at dyadic distances, -0.0, dt = 0, t = 0, ghost-box counts 0..3 per axis,
    and (weird = binary64-only corners, never given to the exact-rational oracle) subnormal / huge / infinite / NaN values"""
    n = cfg["N"]
    for _ in range(rng.randint(1, 3)):
        k = rng.choice(["coincident", "touch", "negzero", "dt0", "t0", "nghost", "equal_all", "weird" if weird else "negzero"])
        if k == "coincident" and n >= 2 and not cfg["tree"]:
            i, j = rng.sample(range(n), 2)
            for c in ("x", "y", "z"):
                cfg[c][j] = cfg[c][i]
            if rng.random() < 0.5:
                for c in ("vx", "vy", "vz"):
                    cfg[c][j] = cfg[c][i]
        elif k == "touch" and n >= 2:
            i, j = rng.sample(range(n), 2)
            cfg["r"][i], cfg["r"][j] = rng.choice([(0.5, 0.25), (0.25, 0.25), (1.0, 0.0)] + ([] if cfg["tree"] else [(0.0, 0.0)]))
            cfg["x"][j] = cfg["x"][i] = rng.choice([0.0, 1.0, -2.0])
            cfg["y"][j] = cfg["y"][i] = 0.5
            cfg["z"][j] = cfg["z"][i] = -0.25
            cfg["x"][j] = cfg["x"][i] + (cfg["r"][i] + cfg["r"][j]) * rng.choice([1, -1])     # exactly touching (dyadic, exact)
            cfg["vx"][i], cfg["vx"][j] = rng.choice([(0.0, 0.0), (1.0, -1.0), (-1.0, 1.0)])
        elif k == "negzero" and n >= 1:
            i = rng.randrange(n)
            cfg[rng.choice(["x", "y", "z", "vx", "vy", "vz"])][i] = -0.0
            if rng.random() < 0.5:
                cfg["r"][i] = 0.0
        elif k == "dt0":
            cfg["dt"] = rng.choice([0.0, -0.0, 5e-324, -1e-3])
        elif k == "t0":
            cfg["t"] = rng.choice([0.0, -0.0, -1.0, 1e300])
        elif k == "nghost":
            cfg["nghost3"] = tuple(rng.choice([0, 1, 1, 2, 3]) for _ in range(3))
        elif k == "equal_all" and n >= 2:
            r0 = rng.choice([0.0, 0.3])
            cfg["r"] = [r0] * n
            cfg["m"] = [rng.choice([0.0, 1.0])] * n if rng.random() < 0.5 else cfg["m"]
        elif k == "weird" and n >= 1 and not cfg["tree"]:
            i = rng.randrange(n)
            f = rng.choice(["x", "y", "z", "vx", "vy", "vz", "r", "m", "dt"])
            if f == "dt":
                cfg["dt"] = rng.choice(EXTREME)
            elif f in ("r", "m"):
                cfg[f][i] = rng.choice([0.0, 5e-324, 1e300, 1e-300, float("inf"), float("nan")])
            else:
                cfg[f][i] = rng.choice(EXTREME)
            cfg["weird"] = True
    if cfg["tree"]:      # the tree refuses a second particle at the same coordinates (an error, tested by C15): keep them distinct
        seen = set()
        for i in range(n):
            while (cfg["x"][i], cfg["y"][i], cfg["z"][i]) in seen:
                cfg["y"][i] += 0.0078125
            seen.add((cfg["x"][i], cfg["y"][i], cfg["z"][i]))


def make_sim(rebound, cfg):
    sim = rebound.Simulation()
    sim.integrator = "none"
    sim.gravity = "none"
    sim.collision = cfg["mode"]
    if cfg["periodic"] or cfg["tree"]:
        sim.configure_box(cfg["box"], 1, 1, 1)
    if cfg["periodic"]:
        sim.boundary = "periodic"
        sim.N_ghost_x, sim.N_ghost_y, sim.N_ghost_z = cfg.get("nghost3", (cfg.get("nghost", 1),) * 3)
    else:
        sim.boundary = "none" if not cfg["tree"] else "open"
    sim.collision_resolve_keep_sorted = cfg["keep"]
    sim.t = cfg["t"]
    sim.dt = cfg["dt"]
    fin = (lambda v: 0.0) if cfg.get("weird") else (lambda v: v)      # placeholders; the real values are written below
    for i in range(cfg["N"]):
        sim.add(m=fin(cfg["m"][i]), x=fin(cfg["x"][i]), y=fin(cfg["y"][i]), z=fin(cfg["z"][i]), vx=fin(cfg["vx"][i]),
                vy=fin(cfg["vy"][i]), vz=fin(cfg["vz"][i]), r=fin(cfg["r"][i]), hash=1000 + i)
    if cfg.get("weird"):       # Python's Particle() rejects NaN: write the fields of the C array directly
        for i in range(cfg["N"]):
            q = sim.particles[i]
            for k_ in ("m", "x", "y", "z", "vx", "vy", "vz", "r"):
                setattr(q, k_, cfg[k_][i])
    sim.dt_last_done = cfg["dt"]
    sim.rand_seed = cfg["seed"]
    sim.N_active = cfg.get("nact", -1)
    if cfg.get("hybrid"):
        set_hybrid(sim, *cfg["hybrid"])
    return sim


_libc = ctypes.CDLL(None)
_libc.calloc.restype = ctypes.c_void_p
_libc.calloc.argtypes = [ctypes.c_size_t, ctypes.c_size_t]


def set_hybrid(sim, integrator, mode, emap):
    """put the simulation in the state reb_collision_search sees inside a MERCURIUS / TRACE step: integrator, mode and encounter
    map (arrays from the C allocator, so that the library may realloc / free them)"""
    n = max(sim.N, 1)
    sim.integrator = integrator
    arr = ctypes.cast(_libc.calloc(n, 4), ctypes.POINTER(ctypes.c_int))
    for k, v in enumerate(emap):
        arr[k] = v
    if integrator == "mercurius":
        rim = sim.ri_mercurius
        rim.mode = mode
        rim._encounter_map = arr
        rim._encounter_N = len(emap)
        rim._encounter_N_active = len(emap)
        rim._N_allocated = n
    else:
        rit = sim.ri_trace
        rit._mode = mode
        rit._encounter_map = arr
        rit._encounter_N = len(emap)
        rit._encounter_N_active = len(emap)
        rit._current_Ks = ctypes.cast(_libc.calloc(n * n, 4), ctypes.POINTER(ctypes.c_int))
        rit._N_allocated = n



def gb_int(sim, c):
    """ghost box integer triple of a reb_collision (periodic/open boxes)"""
    out = []
    for comp, ng in (("x", sim.N_ghost_x), ("y", sim.N_ghost_y), ("z", sim.N_ghost_z)):
        b = getattr(sim.boxsize, comp)
        g = getattr(c.gb, comp)
        out.append(int(round(g / b)) if (ng > 0 and b != 0 and g == g) else 0)
    return tuple(out)


def gbid(t):
    return (t[0] + 1) * 9 + (t[1] + 1) * 3 + (t[2] + 1)


def search(rebound, sim, callback):
    """install the callback and run reb_collision_search once (no integrator involved)"""
    sim.collision_resolve = callback
    rebound.clibrebound.reb_collision_search(ctypes.byref(sim))


def record_all(rebound, cfg):
    """run A: outcome 0 for every call -> the complete shuffled pending array, in processing order"""
    sim = make_sim(rebound, cfg)
    L = []
    def cb(sp, c):
        s = sp.contents
        L.append((c.p1, c.p2, gbid(gb_int(s, c)), s.particles[c.p1].hash.value, s.particles[c.p2].hash.value))
        return 0
    search(rebound, sim, cb)
    return L, sim


def record_outcomes(rebound, cfg, outs):
    """run B: outcomes from the list (0 when exhausted); returns log, final [(hash, flagged)], number used"""
    sim = make_sim(rebound, cfg)
    log = []
    def cb(sp, c):
        s = sp.contents
        o = outs[len(log)] if len(log) < len(outs) else 0
        log.append((c.p1, c.p2, gbid(gb_int(s, c)), s.particles[c.p1].hash.value, s.particles[c.p2].hash.value, o))
        return o
    search(rebound, sim, cb)
    fin = [(sim.particles[i].hash.value, sim.particles[i].y != sim.particles[i].y) for i in range(sim.N)]
    return log, fin, sim


def state(sim):
    out = []
    for i in range(sim.N):
        p = sim.particles[i]
        out += [p.x, p.y, p.z, p.vx, p.vy, p.vz, p.m, p.r, p.last_collision]
    return out


def hashes(sim):
    return [sim.particles[i].hash.value for i in range(sim.N)]


def ccbrt(x):
    return math.cbrt(x) if x == x else float("nan")


def run_merge(rebound, cfg):
    """run with the library's merge resolver wrapped in a recording callback; the wrapper also applies libm cbrt to
    the argument r_i^3 + r_j^3 (computed in binary64 in the model's operation order) for the model's oracle input"""
    clib = rebound.clibrebound
    f = clib.reb_collision_resolve_merge
    f.argtypes = [ctypes.POINTER(rebound.Simulation), rebound.simulation.CollisionS]
    f.restype = ctypes.c_int
    sim = make_sim(rebound, cfg)
    mr_before = (sim.max_radius[0], sim.max_radius[1])
    log, cbs = [], []
    def cb(sp, c):
        s = sp.contents
        i, j = (c.p2, c.p1) if c.p2 < c.p1 else (c.p1, c.p2)
        ri, rj = s.particles[i].r, s.particles[j].r
        h1, h2 = s.particles[c.p1].hash.value, s.particles[c.p2].hash.value
        o = f(sp, c)
        if o != 0:
            cbs.append(ccbrt(ri * ri * ri + rj * rj * rj))
        log.append((c.p1, c.p2, gbid(gb_int(s, c)), h1, h2, o))
        return o
    search(rebound, sim, cb)
    sim._c13_mr_before = mr_before
    return log, cbs, sim


def csin(x):
    return math.sin(x) if math.isfinite(x) else float("nan")      # C: sin(+-inf) = NaN (Python raises)


def ccos(x):
    return math.cos(x) if math.isfinite(x) else float("nan")


def run_hardsphere(rebound, cfg, eps=None, mcv=0.0):
    clib = rebound.clibrebound
    f = clib.reb_collision_resolve_hardsphere
    f.argtypes = [ctypes.POINTER(rebound.Simulation), rebound.simulation.CollisionS]
    f.restype = ctypes.c_int
    sim = make_sim(rebound, cfg)
    sim.minimum_collision_velocity = mcv
    if eps is not None:
        sim.coefficient_of_restitution = lambda sp, v: eps
    log, orcs = [], []
    def cb(sp, c):
        s = sp.contents
        p1, p2 = s.particles[c.p1], s.particles[c.p2]
        y21 = p1.y + c.gb.y - p2.y
        z21 = p1.z + c.gb.z - p2.z
        x21 = p1.x + c.gb.x - p2.x
        th = math.atan2(z21, y21)
        st, ct = csin(th), ccos(th)
        y21n = ct * y21 + st * z21
        ph = math.atan2(y21n, x21)
        orcs.append((st, ct, csin(ph), ccos(ph)))
        h1, h2 = p1.hash.value, p2.hash.value
        o = f(sp, c)
        log.append((c.p1, c.p2, gbid(gb_int(s, c)), h1, h2, o))
        return o
    search(rebound, sim, cb)
    return log, orcs, sim


# ------------------------------------------------------------------------------------------ Coq printers
def zl(xs):
    return "[" + "; ".join("(%d)%%Z" % x for x in xs) + "]"


def entries(L):
    return "[" + "; ".join("(%d, %d, %d)%%Z" % (a[0], a[1], a[2]) for a in L) + "]"


def events(L):
    return "[" + "; ".join("(%d, %d, %d, %d, %d, %d)%%Z" % tuple(a) for a in L) + "]"


def idps(L):
    return "[" + "; ".join("((%d)%%Z, %s)" % (h, "true" if f else "false") for h, f in L) + "]"


def particles(cfg, lc=0.0):
    out = []
    for i in range(cfg["N"]):
        out.append("mkF %s (%d)%%Z" % (" ".join(vlib.fhex(cfg[k][i]) for k in ("x", "y", "z", "vx", "vy", "vz", "m", "r"))
                                  + " " + vlib.fhex(lc), 1000 + i))
    return "[" + "; ".join(out) + "]"


def particles_from_sim(sim, lc=None):
    out = []
    for i in range(sim.N):
        q = sim.particles[i]
        vals = [q.x, q.y, q.z, q.vx, q.vy, q.vz, q.m, q.r, q.last_collision if lc is None else lc]
        out.append("mkF %s (%d)%%Z" % (" ".join(vlib.fhex(v) for v in vals), q.hash.value))
    return "[" + "; ".join(out) + "]"


def gcell_term(cell):
    """dumped reb_treecell (c15_lib.dump_cell dict) -> Coq term of type option (gcell float)"""
    if cell is None:
        return "None"
    if cell["pt"] >= 0:
        return "Some (GL %d%%nat)" % cell["pt"]
    return "Some (GN %s %s %s %s [%s])" % (vlib.fhex(cell["x"]), vlib.fhex(cell["y"]), vlib.fhex(cell["z"]), vlib.fhex(cell["w"]),
                                          "; ".join(gcell_term(d) for d in cell["oct"]))


def roots_term(forest):
    return "[" + "; ".join(gcell_term(c) for c in forest) + "]"


# ------------------------------------------------------------------------------------------ exact oracles
def F(x):
    return Fraction(x)


def images(cfg):
    if not cfg["periodic"]:
        return [(0, 0, 0)]
    n3 = [min(v, 1) for v in cfg.get("nghost3", (cfg.get("nghost", 1),) * 3)]
    return [(a, b, c) for a in range(-n3[0], n3[0] + 1) for b in range(-n3[1], n3[1] + 1) for c in range(-n3[2], n3[2] + 1)]


def rel(cfg, i, j, g):
    """exact relative position/velocity of (particle i shifted by ghost box g) minus particle j"""
    B = F(cfg["box"]) if cfg["periodic"] else F(0)
    d = (F(cfg["x"][i]) + B * g[0] - F(cfg["x"][j]), F(cfg["y"][i]) + B * g[1] - F(cfg["y"][j]),
         F(cfg["z"][i]) + B * g[2] - F(cfg["z"][j]))
    v = (F(cfg["vx"][i]) - F(cfg["vx"][j]), F(cfg["vy"][i]) - F(cfg["vy"][j]), F(cfg["vz"][i]) - F(cfg["vz"][j]))
    return d, v


def dot(a, b):
    return a[0] * b[0] + a[1] * b[1] + a[2] * b[2]


def overlap_margin(cfg, i, j, g):
    """(r2 - sr^2, dv.dx) exactly"""
    d, v = rel(cfg, i, j, g)
    sr = F(cfg["r"][i]) + F(cfg["r"][j])
    return dot(d, d) - sr * sr, dot(d, v), dot(d, d)


def line_margin(cfg, i, j, g):
    """min over s in [0,1] of |d - s*dt*v|^2 minus (r1+r2)^2, exactly"""
    d, v = rel(cfg, i, j, g)
    dt = F(cfg["dt"])
    w = (v[0] * dt, v[1] * dt, v[2] * dt)
    A, Bq, C = dot(d, d), dot(d, w), dot(w, w)
    cands = [A, A - 2 * Bq + C]
    if C != 0:
        s = Bq / C
        if 0 <= s <= 1:
            cands.append(A - Bq * Bq / C)
    sr = F(cfg["r"][i]) + F(cfg["r"][j])
    return min(cands) - sr * sr, A
