"""Shared helpers of the C06 / C07 checks: driving the real library (in-process for benign operations, in child
processes for anything that opens a possibly damaged file), parsing streams, building Coq case files."""
import ctypes, json, os, struct, subprocess, sys, hashlib

PRELUDE = ("From Coq Require Import List NArith Bool.\nFrom RV Require Import C06.Model C06.Run.\n"
           "Import ListNotations.\nOpen Scope N_scope.\n")


def load(libdir):
    if libdir not in sys.path:
        sys.path.insert(0, libdir)
    import rebound
    return rebound


def field_types(rebound):
    from rebound.binary_field_descriptor import binary_field_descriptor_list
    d = {}
    for fd in binary_field_descriptor_list():
        d[fd.name.decode("ascii")] = (fd.type, fd.dtype)
    return d


def rcfg_text(ft):
    return "Definition R := mkR (mkCfg %d %d %d %d) %d %d.\n" % (
        ft["end"][0], ft["header"][0], ft["t"][0], ft["simulationarchive_version"][0],
        ft["particles"][0], ft["var_config"][0])


def nl(b):
    return "[" + ";".join(str(x) for x in b) + "]"


def stream_of(rebound, sim):
    """bytes of reb_simulation_save_to_stream(sim)"""
    clib = rebound.clibrebound
    buf = ctypes.c_char_p(None)
    size = ctypes.c_size_t(0)
    clib.reb_simulation_save_to_stream(ctypes.byref(sim), ctypes.byref(buf), ctypes.byref(size))
    data = ctypes.string_at(buf, size.value)
    libc = ctypes.CDLL(None)
    libc.free.argtypes = [ctypes.c_void_p]
    libc.free(ctypes.cast(buf, ctypes.c_void_p))
    return data


def lib_diff(rebound, b1, b2):
    """bytes of reb_binary_diff(b1,b2,output_option=0)"""
    clib = rebound.clibrebound
    bufp = ctypes.c_char_p(None)
    sizep = ctypes.c_size_t(0)
    clib.reb_binary_diff.restype = ctypes.c_int
    clib.reb_binary_diff(ctypes.c_char_p(b1), ctypes.c_size_t(len(b1)), ctypes.c_char_p(b2), ctypes.c_size_t(len(b2)),
                         ctypes.byref(bufp), ctypes.byref(sizep), ctypes.c_int(0))
    data = ctypes.string_at(bufp, sizep.value) if sizep.value else b""
    if bufp:
        libc = ctypes.CDLL(None)
        libc.free.argtypes = [ctypes.c_void_p]
        libc.free(ctypes.cast(bufp, ctypes.c_void_p))
    return data


def parse(stream, end_type):
    """[(type, payload bytes)] of a stream (behind the 64-byte header, up to END)"""
    pos = 64
    out = []
    while pos + 16 <= len(stream):
        t, = struct.unpack_from("<I", stream, pos)
        n, = struct.unpack_from("<Q", stream, pos + 8)
        pos += 16
        if t == end_type:
            break
        out.append((t, stream[pos:pos + n]))
        pos += n
    return out


def mask_padding(b, end_type, start=0, chain=False):
    """zero the 4 padding bytes of every 16-byte field header (struct copies in the C code leave them unspecified).
    b: a delta (start=0) or a stream/file (start=64; chain=True: continue over trailers and appended blobs)."""
    b = bytearray(b)
    pos = start
    while pos + 16 <= len(b):
        t, = struct.unpack_from("<I", b, pos)
        n, = struct.unpack_from("<Q", b, pos + 8)
        b[pos + 4:pos + 8] = b"\0\0\0\0"
        pos += 16
        if t == end_type:
            if not chain:
                break
            pos += 12          # trailer
            continue
        pos += n
    return bytes(b)


def masked(rebound, stream, ft, extra_names=("functionpointers",), relax_vc=False):
    """canonical form of a stream for comparing states: dict type -> payload with wall-clock fields dropped and the
    pointer members of particle / var_config structs zeroed (addresses are not state)."""
    drop = {ft[n][0] for n in ft if n.startswith("walltime")} | {ft[n][0] for n in extra_names}
    d = {}
    for t, p in parse(stream, ft["end"][0]):
        if t in drop:
            continue
        if t in (ft["particles"][0], ft.get("ri_whfast.p_jh", (None,))[0], ft.get("ri_mercurius.particles_backup", (None,))[0]) or \
                (ft_dtype_particle(ft, t)):
            b = bytearray(p)
            for i in range(len(b) // 128):
                b[i * 128 + 96:i * 128 + 104] = b"\0" * 8     # c
                b[i * 128 + 108:i * 128 + 128] = b"\0" * 20    # padding, ap, sim
            p = bytes(b)
        elif t == ft["var_config"][0]:
            b = bytearray(p)
            for i in range(len(b) // 40):
                b[i * 40:i * 40 + 8] = b"\0" * 8
                b[i * 40 + 28:i * 40 + 32] = b"\0" * 4
                if relax_vc and b[i * 40 + 8:i * 40 + 12] == b"\1\0\0\0":
                    b[i * 40 + 20:i * 40 + 28] = b"\0" * 8     # index_1st_order_a/b of a FIRST-order record (never initialised by the library)
            p = bytes(b)
        d[t] = p
    return d


_PARTICLE_TYPES = {}


def ft_dtype_particle(ft, t):
    """is field type t an array of struct reb_particle?  (pointer fields with element_size 128 and 'particle'/'p_' names)"""
    if not _PARTICLE_TYPES:
        from rebound.binary_field_descriptor import binary_field_descriptor_list
        for fd in binary_field_descriptor_list():
            if fd.element_size == 128 or fd.dtype in (8, 15):
                _PARTICLE_TYPES[fd.type] = 1
        _PARTICLE_TYPES[-1] = 1
    return t in _PARTICLE_TYPES


def diff_masked(a, b, ft):
    names = {v[0]: k for k, v in ft.items()}
    out = []
    for t in sorted(set(a) | set(b)):
        if a.get(t) != b.get(t):
            out.append(names.get(t, str(t)))
    return out


# ------------------------------------------------------------------ history interpreter
VAR_OK = ("ias15", "whfast", "leapfrog", "bs")
INTEGRATORS = ["ias15", "whfast", "leapfrog", "mercurius", "saba", "janus", "bs", "trace", "sei", "eos"]


def new_sim(rebound, spec):
    sim = rebound.Simulation()
    if spec.get("n", 2) >= 1:
        sim.add(m=1.0)
    for i in range(spec.get("n", 2) - 1):
        sim.add(m=1e-3 * (i + 1), a=1.0 + 0.7 * i, e=0.05 * i, inc=0.01 * i, r=1e-4)
    sim.integrator = spec.get("integrator", "whfast")
    sim.dt = spec.get("dt", 0.05)
    if spec.get("t0"):
        sim.t = spec["t0"]
    return sim


def merge_resolve_setup(rebound, sim):
    sim.collision = "direct"
    sim.collision_resolve = "merge"


def apply_op(rebound, sim, op, fname):
    """apply one history operation; returns True if it wrote a manual snapshot"""
    k = op[0]
    nreal = sim.N - sim.N_var
    if k == "step":
        if nreal >= 2:                       # stepping an empty simulation is not this property's subject
            for _ in range(op[1]):
                sim.step()
    elif k == "integrate":
        if nreal >= 2:
            sim.integrate(sim.t + op[1], exact_finish_time=op[2])
    elif k == "add":
        if sim.N == 0:
            sim.add(m=max(op[1], 0.5))            # a new primary at the origin
        else:
            sim.add(m=op[1], a=op[2], e=0.01, r=1e-4)
    elif k == "add_test":
        sim.add(m=0.0, x=op[1], y=0.3, vz=0.1)
    elif k == "remove_idx":
        if sim.N - sim.N_var > 1 and sim.N_var == 0:
            sim.remove(index=min(op[1], sim.N - 1), keep_sorted=op[2])
    elif k == "remove_hash":
        if sim.N_var == 0 and sim.N > 0:
            sim.particles[sim.N - 1].hash = 4242
            sim.remove(hash=4242)
    elif k == "remove_all":
        if sim.N_var == 0:
            while sim.N > 0:
                sim.remove(index=sim.N - 1)
    elif k == "integrator":
        if sim.N_var == 0 or op[1] in VAR_OK:
            sim.integrator = op[1]
    elif k == "reset_integrator":
        sim.reset_integrator()
    elif k == "setting":
        name, val = op[1], op[2]
        if name == "dt":
            sim.dt = val
        elif name == "G":
            sim.G = val
        elif name == "softening":
            sim.softening = val
        elif name == "N_active":
            sim.N_active = min(val, sim.N) if sim.N_var == 0 else sim.N_active
        elif name == "gravity":
            sim.gravity = val
        elif name == "safe_mode":
            sim.ri_whfast.safe_mode = val
        elif name == "corrector":
            sim.ri_whfast.corrector = val
        elif name == "epsilon":
            sim.ri_ias15.epsilon = val
        elif name == "exit_max_distance":
            sim.exit_max_distance = val
        elif name == "boxsize":
            sim.configure_box(val)
    elif k == "add_variation":
        if sim.N > 0 and sim.N_var == 0 and sim.integrator in VAR_OK:
            sim.add_variation()
    elif k == "init_megno":
        if sim.N > 0 and sim.N_var == 0 and sim.integrator in VAR_OK:
            sim.init_megno(seed=7)
    elif k == "collide":
        # bring the last two bodies into contact with the merge resolver, take one step: N shrinks by one
        if sim.N >= 3 and sim.N_var == 0:
            merge_resolve_setup(rebound, sim)
            p, q = sim.particles[sim.N - 1], sim.particles[sim.N - 2]
            p.r = q.r = 1e-2
            p.x, p.y, p.z = q.x + 1e-3, q.y, q.z
            old = sim.integrator
            sim.integrator = "leapfrog"          # one cheap step to trigger the merge (adaptive schemes would crawl)
            sim.step()
            sim.integrator = old
            sim.collision = "none"
    elif k == "signed_zero":
        if sim.N > 0:
            p = sim.particles[min(op[1], sim.N - 1)]
            p.z = -p.z if p.z == 0.0 else p.z
    elif k == "set_t":
        sim.t = op[1]
    elif k == "set_vc":
        # change exactly one member of one reb_variational_configuration record
        if sim.N_var_config > op[1]:
            setattr(sim.var_config[op[1]], {"lrescale": "_lrescale"}.get(op[2], op[2]), op[3])
    elif k == "set_p":
        # change exactly one non-pointer member of one particle (doubles: by one ulp unless a value is given)
        if sim.N > 0:
            import math
            p = sim.particles[min(op[1], sim.N - 1)]
            if op[2] == "hash":
                p.hash = ctypes.c_uint32(op[3])
            else:
                cur = getattr(p, op[2])
                setattr(p, op[2], op[3] if len(op) > 3 and op[3] is not None else math.nextafter(cur, math.inf))
    elif k == "big_var":
        # make the variational coordinates huge so that the next step rescales them (lrescale changes)
        if sim.N_var_config > 0 and sim.var_config[0]._lrescale >= 0:
            vc = sim.var_config[0]
            for i in range(vc.index, sim.N):
                sim.particles[i].x = 3e120
    elif k == "snap_del":
        sim.save_to_file(fname, delete_file=True)       # first snapshot of a history: the file does not exist yet
        return True
    elif k == "snap":
        sim.save_to_file(fname)
        return True
    else:
        raise ValueError(op)
    return False


def lib_index(rebound, fname):
    """(ok, corrupt_warning, [(offset, t_bits)]) as exposed by the library. ONLY for files known to be benign."""
    import warnings
    with warnings.catch_warnings():
        warnings.simplefilter("ignore")
        try:
            sa = rebound.Simulationarchive(fname, process_warnings=False)
        except RuntimeError:
            return (False, False, [])
        w = sa.warnings.value
        out = [(int(sa.offset[i]), struct.unpack("<Q", struct.pack("<d", sa.t[i]))[0]) for i in range(sa.nblobs)]
        return (True, bool(w & 512), out)


def coq_open(res):
    ok, cw, l = res
    return "(%s, %s, [%s])" % ("true" if ok else "false", "true" if cw else "false",
                               ";".join("(%d,%d)" % (o, t) for o, t in l))
