#!/venv/bin/python
"""C19 translator: the ORDERED synchronisation skeleton of the integration loop and of every web-server request handler.

  $VERIF_REPO/src/rebound.c : reb_simulation_integrate_raw   ->  integ_prologue, integ_loop (head ++ body, integ_exit_at), integ_epilogue
  $VERIF_REPO/src/server.c  : reb_server_start (POSIX branch) ->  handlers : list (uri * list act)
written to coq/Gen/LockProto.v as lists of the protocol actions of coq/C19/Conc.v.

Both files are dumped with clang's JSON AST with the flags of the library build (-DLIBREBOUND -D_GNU_SOURCE -DSERVER -std=c99),
so what is translated is the code that is compiled (no OPENGL / _WIN32 / MPI branches).  Every statement of the regions is
mapped, in source order, to
   AWait            while (X->need_copy == 1) { usleep(..); }
   ALock / AUnlock  pthread_mutex_lock/unlock(&(X->mutex))        X = r->server_data or data
   ASetFlag b       X->mutex_locked_by_integrate = b
   ASetNeedCopy b   X->need_copy = b
   AStepBegin; AStepEnd   reb_simulation_step(r)
   ASerBegin; ASerEnd     reb_simulation_save_to_stream(r, ..)
   AWriteBegin l; AWriteEnd l   any other statement that can write the simulation: an assignment / ++ / -- whose left-hand side
                    goes through a `struct reb_simulation *`, or a call (also through a function pointer) that is handed a pointer
                    to a non-const simulation.  l = the callee / the field.
   ALocal l         anything else (no access that can write the simulation)
`if (r->server_data) {..}` is flattened (the model describes a simulation whose server is running).  A statement that contains
one of the synchronisation operations anywhere else than at the recognised places, return/continue inside a region, a goto
that is not a forward jump over synchronisation-free statements to a label of the same handler, an unknown statement kind:
exit != 0 (fail closed).
"""
import json, os, re, subprocess, sys

ROOT = os.path.dirname(os.path.dirname(os.path.abspath(__file__)))
REPO = os.environ.get("VERIF_REPO", "/repo")
SRC = os.path.join(REPO, "src")
OUT = os.path.join(ROOT, "coq", "Gen", "LockProto.v")
OUTJ = os.path.join(ROOT, "build", "c19", "lockproto.json")
DFLAGS = ["-DLIBREBOUND", "-D_GNU_SOURCE", "-DSERVER", "-std=c99"]
SYNC_CALLS = {"pthread_mutex_lock", "pthread_mutex_unlock", "pthread_mutex_trylock", "reb_simulation_step",
              "reb_simulation_save_to_stream", "pthread_cond_wait", "pthread_cond_signal"}
SYNC_FIELDS = {"need_copy", "mutex_locked_by_integrate", "mutex"}


class Fail(Exception):
    pass


def fail(msg):
    raise Fail(msg)


def qs(s):
    if any(ord(c) < 32 or ord(c) > 126 for c in s):
        fail("non printable-ascii string %r" % s)
    return '"' + s.replace('"', '""') + '"'


def ast_of(name):
    r = subprocess.run(["clang", "-Xclang", "-ast-dump=json", "-fsyntax-only", "-w"] + DFLAGS + ["-I" + SRC, os.path.join(SRC, name)],
                       capture_output=True)
    if r.returncode != 0:
        fail("clang failed on %s: %s" % (name, r.stderr.decode()[-500:]))
    def hook(d):
        if d.get("kind") in ("RecordDecl", "EnumDecl", "TypedefDecl"):
            d.pop("inner", None)
        return d
    return json.loads(r.stdout, object_hook=hook)


def function(ast, name):
    c = [n for n in ast["inner"] if n.get("kind") == "FunctionDecl" and n.get("name") == name
         and any(x.get("kind") == "CompoundStmt" for x in n.get("inner", []))]
    if len(c) != 1:
        fail("function %s: %d definitions" % (name, len(c)))
    return [x for x in c[0]["inner"] if x["kind"] == "CompoundStmt"][0]


def kids(n):
    return [c for c in (n.get("inner") or []) if isinstance(c, dict)]


def walk(n):
    yield n
    for c in kids(n):
        yield from walk(c)


def qt(n):
    return n.get("type", {}).get("qualType", "")


SIMPTR = re.compile(r"^(const )?struct reb_simulation \*( ?const)?( ?restrict)?$")


def is_simptr(n, writable_only=False):
    m = SIMPTR.match(qt(n))
    if not m:
        return False
    return not (writable_only and m.group(1))


def strip(n):
    while n.get("kind") in ("ImplicitCastExpr", "ParenExpr", "CStyleCastExpr") and kids(n):
        n = kids(n)[0]
    return n


def callee(n):
    """name of the function called by CallExpr n ('' for a call through a pointer)."""
    f = strip(kids(n)[0])
    if f.get("kind") == "DeclRefExpr" and f.get("referencedDecl", {}).get("kind") == "FunctionDecl":
        return f["referencedDecl"]["name"]
    if f.get("kind") == "MemberExpr":
        return "(*" + f.get("name", "?") + ")"
    return "(*)"


def lhs_root_through_sim(e):
    """does the lvalue e designate memory reached through a simulation pointer?  returns field name or None"""
    field = None
    while True:
        k = e.get("kind")
        if k in ("ParenExpr", "ImplicitCastExpr", "CStyleCastExpr", "ArraySubscriptExpr"):
            e = kids(e)[0]
        elif k == "UnaryOperator" and e.get("opcode") in ("*", "&"):
            e = kids(e)[0]
        elif k == "MemberExpr":
            base = kids(e)[0]
            if e.get("isArrow") and is_simptr(strip(base)) or e.get("isArrow") and is_simptr(base):
                return e.get("name")
            field = e.get("name")
            e = base
        else:
            return None


SYNCFUNS = {}       # functions of the current translation unit whose body (transitively) contains synchronisation: name -> body


def has_sync(n):
    for x in walk(n):
        if x.get("kind") == "CallExpr" and (callee(x) in SYNC_CALLS or callee(x) in SYNCFUNS):
            return True
        if x.get("kind") == "MemberExpr" and x.get("name") in SYNC_FIELDS:
            return True
    return False


def sim_write_label(n):
    """label of the first simulation-writing construct in the statement, or None"""
    for x in walk(n):
        k = x.get("kind")
        if k == "CallExpr":
            args = kids(x)[1:]
            if any(is_simptr(a, writable_only=True) for a in args):
                return callee(x)
        elif k in ("BinaryOperator", "CompoundAssignOperator") and (k == "CompoundAssignOperator" or x.get("opcode") == "="):
            f = lhs_root_through_sim(kids(x)[0])
            if f:
                return "field:" + f
        elif k == "UnaryOperator" and x.get("opcode") in ("++", "--"):
            f = lhs_root_through_sim(kids(x)[0])
            if f:
                return "field:" + f
    return None


def local_label(n):
    for x in walk(n):
        if x.get("kind") == "CallExpr":
            return callee(x)
    return {"DeclStmt": "decl", "NullStmt": "skip"}.get(n.get("kind"), "expr")


def sync_member(e, field):
    """e is X->field with X = r->server_data or data (a struct reb_server_data *)"""
    e = strip(e)
    if e.get("kind") != "MemberExpr" or e.get("name") != field or not e.get("isArrow"):
        return False
    base = strip(kids(e)[0])
    return "struct reb_server_data *" in qt(base)


def int_lit(e):
    e = strip(e)
    if e.get("kind") == "IntegerLiteral":
        return int(e["value"])
    return None


def unit(n, where):
    """a statement without synchronisation operations"""
    for x in walk(n):
        if x.get("kind") in ("ReturnStmt", "ContinueStmt"):
            fail("%s: return/continue inside a protocol region" % where)
    w = sim_write_label(n)
    if w:
        return [("AWriteBegin", w), ("AWriteEnd", w)]
    return [("ALocal", local_label(n))]


def status_constants(n):
    """REB_STATUS_* enum constants referenced in the subtree"""
    return set(x.get("referencedDecl", {}).get("name") for x in walk(n)
               if x.get("kind") == "DeclRefExpr" and x.get("referencedDecl", {}).get("kind") == "EnumConstantDecl"
               and x["referencedDecl"].get("name", "").startswith("REB_STATUS_"))


def reads_status(n):
    return any(x.get("kind") == "MemberExpr" and x.get("name") == "status" and x.get("isArrow") and is_simptr(strip(kids(x)[0]))
               for x in walk(n))


def classify_store(e):
    """where does a store through the lvalue e land?  ("field", path): member path (e.g. ri_ias15.N_allocated) of the simulation struct itself;
    ("via", f): memory reached through the pointer member f of the simulation (r->particles[i].x, r->server_data->flag); None: not the simulation"""
    deref = False
    path = []
    while True:
        k = e.get("kind")
        if k in ("ParenExpr", "CStyleCastExpr", "ImplicitCastExpr"):
            e = kids(e)[0]
        elif k == "ArraySubscriptExpr":
            base = kids(e)[0]
            if not (base.get("kind") == "ImplicitCastExpr" and base.get("castKind") == "ArrayToPointerDecay"):
                deref = True        # subscript of a pointer
                path = []
            e = base
        elif k == "UnaryOperator" and e.get("opcode") == "*":
            deref = True; path = []
            e = kids(e)[0]
        elif k == "UnaryOperator" and e.get("opcode") == "&":
            e = kids(e)[0]
        elif k == "MemberExpr":
            base = kids(e)[0]
            if e.get("isArrow"):
                if is_simptr(strip(base)) or is_simptr(base):
                    if deref:
                        return ("via", e.get("name"))
                    return ("field", ".".join([e.get("name")] + path))
                deref = True; path = []
            else:
                path = [e.get("name")] + path
            e = base
        else:
            return None


def effects_of(node, fbodies, effects, ext, seen, depth=0):
    """conservative effect set of a statement on the simulation, following calls into functions of this translation unit:
         field:f / via:f    stores (see classify_store)
         opaque:g           a pointer to a non-const simulation is handed to g whose body is not visible here (or g is a function pointer)
         extptr:f:g         a pointer into the simulation (through member f) is handed to the external function g
       ext collects the external functions called without any access to the simulation"""
    if depth > 6:
        fail("effects: call chain too deep")
    for x in walk(node):
        k = x.get("kind")
        if k == "CallExpr":
            g = callee(x)
            args = kids(x)[1:]
            if g in fbodies:
                if g not in seen:
                    seen.add(g)
                    effects_of(fbodies[g], fbodies, effects, ext, seen, depth + 1)
                continue
            if g in SYNC_CALLS and not g.startswith("pthread_"):
                effects.add("opaque:" + g)
                continue
            if any(is_simptr(a, writable_only=True) for a in args):
                effects.add("opaque:" + g)
                continue
            handed = False
            for a in args:
                if "*" in qt(a) or "[" in qt(a):
                    c = None
                    for y in walk(a):
                        if y.get("kind") == "MemberExpr" and y.get("isArrow") and (is_simptr(strip(kids(y)[0])) or is_simptr(kids(y)[0])):
                            c = y.get("name")
                    if c:
                        effects.add("extptr:%s:%s" % (c, g)); handed = True
            if not handed:
                ext.add(g)
        elif k in ("BinaryOperator", "CompoundAssignOperator") and (k == "CompoundAssignOperator" or x.get("opcode") == "="):
            c = classify_store(kids(x)[0])
            if c:
                effects.add("%s:%s" % c)
        elif k == "UnaryOperator" and x.get("opcode") in ("++", "--"):
            c = classify_store(kids(x)[0])
            if c:
                effects.add("%s:%s" % c)


def request_triggered(body_stmts, guard_consts, fbodies):
    """effects (see effects_of) of the regions of a function that are control-dependent on a test of r->status against one of the
    status values a web-server request can set"""
    effects, ext, regions = set(), set(), [0]

    def collect(n):
        regions[0] += 1
        effects_of(n, fbodies, effects, ext, set())

    def visit(n):
        k = n.get("kind")
        c = kids(n)
        if k == "IfStmt":
            if reads_status(c[0]) and (status_constants(c[0]) & guard_consts):
                collect(c[1])                 # the else branch also runs when no request was made: visited, not collected
                if len(c) > 2:
                    visit(c[2])
                return
        elif k in ("WhileStmt", "DoStmt", "ForStmt"):
            conds = c[:-1] if k != "DoStmt" else c[1:]
            if any(reads_status(x) and (status_constants(x) & guard_consts) for x in conds):
                collect(c[-1] if k != "DoStmt" else c[0])
                return
        elif k in ("SwitchStmt", "ConditionalOperator") and reads_status(c[0]):
            fail("status tested by a %s (not understood)" % k)
        for x in c:
            visit(x)
    for s_ in body_stmts:
        visit(s_)
    return sorted(effects), sorted(ext), regions[0]


def teardown_sequence(stmts, where):
    """ordered teardown actions of a function body: stop_server / free:<member> / opaque:<callee> (a writable simulation handed to
    a function, which may free or modify members) / call:<name> (pthread_*, close) / other.  Statements are classified as a whole."""
    out = []
    for st in stmts:
        labels = []
        for x in walk(st):
            if x.get("kind") != "CallExpr":
                continue
            g = callee(x)
            args = kids(x)[1:]
            if g == "reb_simulation_stop_server":
                labels.append("stop_server")
            elif g == "free":
                m = None
                for y in walk(args[0]):
                    if y.get("kind") == "MemberExpr" and y.get("isArrow") and (is_simptr(strip(kids(y)[0])) or is_simptr(kids(y)[0])):
                        m = y.get("name")
                if m is None and is_simptr(strip(args[0])):
                    m = "<simulation>"
                labels.append("free:" + (m or "<local>"))
            elif g.startswith("pthread_") or g in ("close", "closesocket"):
                labels.append("call:" + g)
            elif any(is_simptr(a, writable_only=True) for a in args):
                labels.append("opaque:" + g)
        if not labels:
            # assignment r->server_data = NULL etc.
            c = None
            for x in walk(st):
                if x.get("kind") == "BinaryOperator" and x.get("opcode") == "=":
                    c = classify_store(kids(x)[0])
            labels.append("store:%s" % c[1] if c else "other")
        # one statement may hold several calls (loops); keep order of first occurrence, no duplicates
        seen = []
        for l in labels:
            if l not in seen:
                seen.append(l)
        out += seen
    return out


def show_expr(e):
    """canonical text of a (simple) C expression, for tying an audited statement to the source"""
    k = e.get("kind")
    c = kids(e)
    if k in ("ImplicitCastExpr", "CStyleCastExpr"):
        return show_expr(c[0])
    if k == "ParenExpr":
        return "(" + show_expr(c[0]) + ")"
    if k == "BinaryOperator":
        return "%s %s %s" % (show_expr(c[0]), e.get("opcode"), show_expr(c[1]))
    if k == "UnaryOperator":
        return (show_expr(c[0]) + e.get("opcode")) if e.get("isPostfix") else (e.get("opcode") + show_expr(c[0]))
    if k == "MemberExpr":
        return show_expr(c[0]) + ("->" if e.get("isArrow") else ".") + e.get("name")
    if k == "DeclRefExpr":
        return e.get("referencedDecl", {}).get("name", "?")
    if k == "IntegerLiteral":
        return str(e.get("value"))
    fail("show_expr: %s not supported" % k)


class LazyBodies(dict):
    """name -> body of a function defined in any translation unit linked into the library; translation units are dumped on demand
    (the file that defines a function is located by its text, then confirmed by the AST)"""
    def __init__(self):
        super().__init__()
        import vlib
        self.files = [n + ".c" for n in vlib.LIB_SOURCES]
        self.text = {f: open(os.path.join(SRC, f)).read() for f in self.files}
        self.loaded = set()
        self.missing = set()
        self.owner = {}

    def load(self, f):
        if f in self.loaded:
            return
        self.loaded.add(f)
        a = ast_of(f)
        for fn in a["inner"]:
            if fn.get("kind") == "FunctionDecl":
                b = [x for x in fn.get("inner", []) if x.get("kind") == "CompoundStmt"]
                if b and not (fn["name"] in self and fn.get("storageClass") == "static"):
                    dict.__setitem__(self, fn["name"], b[0]); self.owner[fn["name"]] = f

    def __contains__(self, name):
        if dict.__contains__(self, name):
            return True
        if name in self.missing or not re.match(r"^[A-Za-z_]\w*$", name or ""):
            return False
        pat = re.compile(r"^[A-Za-z_][\w\s\*]*\b%s\s*\([^;{]*\)\s*\{" % re.escape(name), re.M)
        for f in self.files:
            if f not in self.loaded and pat.search(self.text[f]):
                self.load(f)
                if dict.__contains__(self, name):
                    return True
        self.missing.add(name)
        return False

    def __getitem__(self, name):
        if name in self:
            return dict.__getitem__(self, name)
        raise KeyError(name)


def compute_syncfuns(ast, exclude):
    """fixpoint: functions defined in this translation unit that contain a synchronisation operation, directly or through calls"""
    SYNCFUNS.clear()
    bodies = {}
    for f in ast["inner"]:
        if f.get("kind") == "FunctionDecl" and f.get("name") not in exclude:
            b = [x for x in f.get("inner", []) if x.get("kind") == "CompoundStmt"]
            if b:
                bodies[f["name"]] = b[0]
    changed = True
    while changed:
        changed = False
        for nm, b in bodies.items():
            if nm not in SYNCFUNS and has_sync(b):
                SYNCFUNS[nm] = b; changed = True


def callee_body_stmts(name, where):
    """statements of a helper that contains synchronisation, for inlining at a call; only a final `return` is allowed"""
    st = kids(SYNCFUNS[name])
    if st and st[-1].get("kind") == "ReturnStmt":
        if has_sync(st[-1]) or sim_write_label(st[-1]):
            fail("%s: return expression of %s is not a plain read" % (where, name))
        st = st[:-1]
    for s_ in st:
        for x in walk(s_):
            if x.get("kind") in ("ReturnStmt", "GotoStmt", "ContinueStmt", "BreakStmt") and has_sync(s_):
                fail("%s: %s inside %s next to synchronisation" % (where, x["kind"], name))
    return st


MAXPATHS = 64


def paths_block(stmts, where, depth):
    out = [[]]
    for s_ in stmts:
        ps = paths_stmt(s_, where, depth)
        out = [a + b for a in out for b in ps]
        if len(out) > MAXPATHS:
            fail("%s: more than %d paths" % (where, MAXPATHS))
    return out


def paths_stmt(n, where, depth=0):
    """all control-flow paths (lists of actions) through a statement; branches are split only where they contain synchronisation"""
    if depth > 4:
        fail("%s: helper inlining too deep" % where)
    k = n.get("kind")
    if not has_sync(n):
        return [translate_stmt(n, where)]
    if k == "CompoundStmt":
        return paths_block(kids(n), where, depth)
    if k == "CallExpr" and callee(n) in SYNCFUNS:
        if any(has_sync(a) for a in kids(n)[1:]):
            fail("%s: synchronisation inside the arguments of %s" % (where, callee(n)))
        return paths_block(callee_body_stmts(callee(n), where), where + " > " + callee(n), depth + 1)
    if k == "IfStmt":
        c = kids(n)
        cond = strip(c[0])
        if (cond.get("kind") == "MemberExpr" and cond.get("name") == "server_data" and cond.get("isArrow")
                and is_simptr(strip(kids(cond)[0])) and len(c) == 2):
            return paths_stmt(c[1], where, depth)
        if has_sync(c[0]):
            fail("%s: synchronisation inside a condition" % where)
        pre = unit(c[0], where) if sim_write_label(c[0]) else []
        res = [pre + p_ for p_ in paths_stmt(c[1], where, depth)]
        res += [pre + p_ for p_ in (paths_stmt(c[2], where, depth) if len(c) > 2 else [[]])]
        return res
    return [translate_stmt(n, where)]


def translate_stmt(n, where):
    k = n.get("kind")
    if k == "CallExpr" and callee(n) in SYNCFUNS:
        ps = paths_stmt(n, where)
        if len(ps) != 1:
            fail("%s: helper %s has several synchronisation paths where a single one is required" % (where, callee(n)))
        return ps[0]
    if k == "CompoundStmt":
        return translate_block(kids(n), where)
    if k == "LabelStmt":
        return translate_stmt(kids(n)[0], where)
    if not has_sync(n):
        if k in ("IfStmt", "WhileStmt", "ForStmt", "DoStmt", "SwitchStmt", "DeclStmt", "CallExpr", "BinaryOperator", "CompoundAssignOperator",
                 "UnaryOperator", "NullStmt", "GotoStmt"):
            return unit(n, where)
        fail("%s: unknown statement kind %s" % (where, k))
    # --- statements that contain synchronisation
    if k == "IfStmt":
        c = kids(n)
        cond = strip(c[0])
        if (cond.get("kind") == "MemberExpr" and cond.get("name") == "server_data" and cond.get("isArrow")
                and is_simptr(strip(kids(cond)[0])) and len(c) == 2):
            return translate_stmt(c[1], where)
        if is_fresh_server_data_local(cond) and len(c) == 2:
            return translate_stmt(c[1], where)
        fail("%s: synchronisation under an unrecognised condition" % where)
    if k == "WhileStmt":
        c = kids(n)
        cond = strip(c[0])
        if (cond.get("kind") == "BinaryOperator" and cond.get("opcode") == "==" and sync_member(kids(cond)[0], "need_copy")
                and int_lit(kids(cond)[1]) == 1):
            body = kids(c[1]) if c[1].get("kind") == "CompoundStmt" else [c[1]]
            if len(body) == 1 and body[0].get("kind") == "CallExpr" and callee(body[0]) == "usleep" and not has_sync(body[0]):
                return [("AWait",)]
        fail("%s: unrecognised loop containing synchronisation" % where)
    if k == "CallExpr":
        f = callee(n)
        args = kids(n)[1:]
        if f in ("pthread_mutex_lock", "pthread_mutex_unlock"):
            a = strip(args[0])
            if a.get("kind") == "UnaryOperator" and a.get("opcode") == "&" and sync_member(kids(a)[0], "mutex"):
                return [("ALock",) if f == "pthread_mutex_lock" else ("AUnlock",)]
            fail("%s: %s on an unrecognised mutex" % (where, f))
        if f == "reb_simulation_step" and len(args) == 1 and is_simptr(args[0]) and not any(has_sync(a) for a in args):
            return [("AStepBegin",), ("AStepEnd",)]
        if f == "reb_simulation_save_to_stream" and is_simptr(args[0]) and not any(has_sync(a) for a in args):
            return [("ASerBegin",), ("ASerEnd",)]
        fail("%s: unrecognised call %s containing synchronisation" % (where, f))
    if k == "BinaryOperator" and n.get("opcode") == "=":
        l, r = kids(n)
        v = int_lit(r)
        if v in (0, 1) and not has_sync(r):
            if sync_member(l, "need_copy"):
                return [("ASetNeedCopy", bool(v))]
            if sync_member(l, "mutex_locked_by_integrate"):
                return [("ASetFlag", bool(v))]
        fail("%s: unrecognised assignment to a synchronisation field" % where)
    fail("%s: synchronisation inside an unrecognised %s" % (where, k))


FRESH_SCOPES = []     # per enclosing block being translated: ids of locals initialised from r->server_data INSIDE that block


def is_fresh_server_data_local(e):
    """a local `struct reb_server_data* x = r->server_data;` declared in a block that encloses the current statement within the region being
    translated (e.g. once per loop iteration).  A copy taken outside the region (once per call) is stale and is not accepted."""
    e = strip(e)
    if e.get("kind") != "DeclRefExpr":
        return False
    rid = e.get("referencedDecl", {}).get("id")
    return any(rid in sc for sc in FRESH_SCOPES)


def note_fresh_locals(st, scope):
    if st.get("kind") != "DeclStmt":
        return
    for v in kids(st):
        if v.get("kind") == "VarDecl" and "struct reb_server_data *" in qt(v) and kids(v):
            init = strip(kids(v)[-1])
            if init.get("kind") == "MemberExpr" and init.get("name") == "server_data" and init.get("isArrow") and is_simptr(strip(kids(init)[0])):
                scope.add(v.get("id"))


def translate_block(stmts, where):
    scope = set()
    FRESH_SCOPES.append(scope)
    try:
        return translate_block_inner(stmts, where, scope)
    finally:
        FRESH_SCOPES.pop()


def translate_block_inner(stmts, where, scope):
    # gotos: forward jumps to a label of this block over synchronisation-free statements only
    labels = {}
    for i, s in enumerate(stmts):
        if s.get("kind") == "LabelStmt":
            labels[s.get("name")] = i
    for i, s in enumerate(stmts):
        for x in walk(s):
            if x.get("kind") == "GotoStmt":
                tgt = None
                for nm, j in labels.items():
                    if stmts[j].get("declId") == x.get("targetLabelDeclId"):
                        tgt = j
                if tgt is None or tgt <= i:
                    fail("%s: goto that is not a forward jump to a label of the same block" % where)
                if has_sync(s):
                    fail("%s: goto inside a statement with synchronisation" % where)
                for m in range(i + 1, tgt):
                    if has_sync(stmts[m]):
                        fail("%s: goto jumps over synchronisation" % where)
    out = []
    for s in stmts:
        note_fresh_locals(s, scope)
        out += translate_stmt(s, where)
    return out


def coq_act(a):
    if len(a) == 1:
        return a[0]
    if isinstance(a[1], bool):
        return "%s %s" % (a[0], "true" if a[1] else "false")
    return "%s %s" % (a[0], qs(a[1]))


def coq_list(acts):
    return "[" + "; ".join(coq_act(a) for a in acts) + "]"


def main():
    # ------------------------------------------------------------------ integrator thread
    sast0 = ast_of("server.c")
    # status values that a request handler can set or tests (what a client can make the integration thread see)
    guard_consts = status_constants(function(sast0, "reb_server_start"))
    if not guard_consts:
        fail("no REB_STATUS_* constant in reb_server_start")
    ast = ast_of("rebound.c")
    compute_syncfuns(ast, exclude={"reb_simulation_integrate_raw", "reb_simulation_integrate"})
    fbodies_r = {f["name"]: [x for x in f.get("inner", []) if x.get("kind") == "CompoundStmt"][0] for f in ast["inner"]
                 if f.get("kind") == "FunctionDecl" and any(x.get("kind") == "CompoundStmt" for x in f.get("inner", []))}
    rt_writes, rt_calls, rt_regions = request_triggered(kids(function(ast, "reb_check_exit")), guard_consts, fbodies_r)
    # ... and the same for reb_simulation_integrate_raw itself (its prologue keeps a paused simulation paused)
    w2, c2, n2 = request_triggered(kids(function(ast, "reb_simulation_integrate_raw")), guard_consts, fbodies_r)
    rt_writes = sorted(set(rt_writes) | set(w2)); rt_calls = sorted(set(rt_calls) | set(c2)); rt_regions += n2
    body = kids(function(ast, "reb_simulation_integrate_raw"))
    if body and body[-1].get("kind") == "ReturnStmt" and not has_sync(body[-1]) and not sim_write_label(body[-1]):
        body = body[:-1]          # the function's final `return`
    loops = [i for i, s in enumerate(body) if s.get("kind") == "WhileStmt"]
    if len(loops) != 1:
        fail("reb_simulation_integrate_raw: expected exactly one top-level while loop, found %d" % len(loops))
    li = loops[0]
    w = kids(body[li])
    cond = w[0]
    cond_calls = [x for x in walk(cond) if x.get("kind") == "CallExpr"]
    if [callee(x) for x in cond_calls] != ["reb_check_exit"] or any(has_sync(a) for a in kids(cond_calls[0])[1:]):
        fail("integration loop condition is not a single reb_check_exit test")
    for x in walk(w[1]):
        if x.get("kind") in ("ReturnStmt", "ContinueStmt", "BreakStmt", "GotoStmt"):
            fail("integration loop body contains %s" % x["kind"])
    pro = translate_block(body[:li], "integrate_raw prologue")
    if "reb_check_exit" in SYNCFUNS:
        # reb_check_exit takes the mutex itself on some branches: one loop-head block per control-flow path through it
        heads = paths_block(callee_body_stmts("reb_check_exit", "reb_check_exit"), "reb_check_exit", 1)
    else:
        heads = [unit(cond, "integrate_raw loop condition")]
    uniq = []
    for h in heads:
        if h not in uniq:
            uniq.append(h)
    heads = uniq
    lbody = translate_stmt(w[1], "integrate_raw loop body")
    epi = translate_block(body[li + 1:], "integrate_raw epilogue")
    # the other stepping entry point of the C API: reb_simulation_steps = a single for loop around reb_simulation_step
    sb = kids(function(ast, "reb_simulation_steps"))
    if len(sb) != 1 or sb[0].get("kind") != "ForStmt":
        fail("reb_simulation_steps is not a single for loop")
    fk = kids(sb[0])
    for x in fk[:-1]:
        if has_sync(x):
            fail("reb_simulation_steps: synchronisation in the loop header")
    for x in walk(fk[-1]):
        if x.get("kind") in ("ReturnStmt", "ContinueStmt", "BreakStmt", "GotoStmt"):
            fail("reb_simulation_steps loop body contains %s" % x["kind"])
    steps_body = translate_stmt(fk[-1], "reb_simulation_steps loop body")
    # any other function of rebound.c that touches the mutex is outside the model: list them
    # ------------------------------------------------------------------ server thread
    # teardown order: reb_simulation_free -> reb_simulation_free_pointers -> (frees | reb_simulation_stop_server | frees)
    td_free = teardown_sequence(kids(function(ast, "reb_simulation_free")), "reb_simulation_free")
    td_ptrs = teardown_sequence(kids(function(ast, "reb_simulation_free_pointers")), "reb_simulation_free_pointers")
    if "stop_server" not in td_ptrs:
        fail("reb_simulation_free_pointers does not call reb_simulation_stop_server")
    sync_helpers_rebound = sorted(SYNCFUNS)
    # who calls functions that operate the mutex (directly or through helpers)?  Every such call must be inside the modelled programs.
    fbodies = {f["name"]: [x for x in f.get("inner", []) if x.get("kind") == "CompoundStmt"][0] for f in ast["inner"]
               if f.get("kind") == "FunctionDecl" and any(x.get("kind") == "CompoundStmt" for x in f.get("inner", []))}
    mutexfuns = set()
    changed = True
    while changed:
        changed = False
        for nm, b in fbodies.items():
            if nm in mutexfuns:
                continue
            for x in walk(b):
                if x.get("kind") == "CallExpr" and (callee(x).startswith("pthread_mutex_") or callee(x) in mutexfuns):
                    mutexfuns.add(nm); changed = True
                    break
    mutex_callers = sorted(set((nm, callee(x)) for nm, b in fbodies.items() for x in walk(b)
                               if x.get("kind") == "CallExpr" and callee(x) in mutexfuns))
    sast = ast_of("server.c")
    compute_syncfuns(sast, exclude={"reb_server_start"})
    sbody = kids(function(sast, "reb_server_start"))
    sloops = [s for s in sbody if s.get("kind") == "WhileStmt"]
    if len(sloops) != 1:
        fail("reb_server_start: expected exactly one top-level loop")
    startup_writes = []
    for s in sbody:
        if s.get("kind") != "WhileStmt":
            if has_sync(s):
                fail("reb_server_start: synchronisation outside the request loop")
            for x in walk(s):
                if x.get("kind") == "CallExpr" and any(is_simptr(a, writable_only=True) for a in kids(x)[1:]):
                    startup_writes.append(callee(x))
                elif x.get("kind") in ("BinaryOperator", "CompoundAssignOperator", "UnaryOperator") and sim_write_label(x) and \
                        sim_write_label(x).startswith("field:") and x.get("opcode") in ("=", "++", "--", "+=", "-="):
                    startup_writes.append(sim_write_label(x))
    ss = kids(function(sast, "reb_simulation_stop_server"))
    td_stop = teardown_sequence([x for st in ss for x in ([st] if st.get("kind") != "IfStmt" else kids(kids(st)[1]) if kids(st)[1].get("kind") == "CompoundStmt" else [kids(st)[1]])],
                                "reb_simulation_stop_server")
    lb = kids(kids(sloops[0])[1])
    disp = [i for i, s in enumerate(lb) if s.get("kind") == "IfStmt" and has_sync(s)]
    if len(disp) != 1:
        fail("request loop: expected one dispatch if-chain containing the handlers")
    for i, s in enumerate(lb):
        if i != disp[0] and (has_sync(s) or sim_write_label(s)):
            fail("request loop: synchronisation / simulation write outside the dispatch chain")
    handlers = []
    handler_effects = []
    fbodies_s = {f["name"]: [x for x in f.get("inner", []) if x.get("kind") == "CompoundStmt"][0] for f in sast["inner"]
                 if f.get("kind") == "FunctionDecl" and any(x.get("kind") == "CompoundStmt" for x in f.get("inner", []))}
    node = lb[disp[0]]
    while True:
        c = kids(node)
        uri = None
        for x in walk(c[0]):
            if x.get("kind") == "StringLiteral":
                uri = json.loads(x["value"]) if x["value"].startswith('"') else x["value"]
        calls = [callee(x) for x in walk(c[0]) if x.get("kind") == "CallExpr"]
        if uri is None or not calls or any(f not in ("strcasecmp", "strncasecmp") for f in calls) or has_sync(c[0]):
            fail("dispatch condition not recognised")
        existing = [h for h, _ in handlers]
        name = uri if uri not in existing else uri + "#2"
        for x in walk(c[1]):
            if x.get("kind") in ("ReturnStmt", "ContinueStmt"):
                fail("handler %s contains return/continue" % uri)
        acts = translate_stmt(c[1], "handler " + uri)
        # several uris served by the same branch (|| chain): one handler
        handlers.append((name, acts))
        he, hx = set(), set()
        effects_of(c[1], fbodies_s, he, hx, set())
        handler_effects.append((name, sorted(he), sorted(hx)))
        if len(c) == 2:
            break
        if c[2].get("kind") == "IfStmt":
            node = c[2]
            continue
        handlers.append(("<other>", translate_stmt(c[2], "handler <other>")))
        he, hx = set(), set()
        effects_of(c[2], fbodies_s, he, hx, set())
        handler_effects.append(("<other>", sorted(he), sorted(hx)))
        break
    # descriptor hygiene of the request loop: stream = fdopen(fd, ..) ... fclose(stream); close(fd);  closes fd twice; in a
    # multi-threaded process the second close can hit a descriptor another thread has just opened
    fdopen_pairs = set()
    for x in walk(kids(sloops[0])[1]):
        if x.get("kind") == "BinaryOperator" and x.get("opcode") == "=":
            l, r = kids(x)
            l = strip(l); r = strip(r)
            if r.get("kind") == "CallExpr" and callee(r) == "fdopen" and l.get("kind") == "DeclRefExpr":
                a0 = strip(kids(r)[1])
                if a0.get("kind") == "DeclRefExpr":
                    fdopen_pairs.add((l["referencedDecl"]["name"], a0["referencedDecl"]["name"]))
    def arg_name(c):
        a = strip(kids(c)[1]) if len(kids(c)) > 1 else {}
        return a.get("referencedDecl", {}).get("name") if a.get("kind") == "DeclRefExpr" else None
    double_close = 0
    for x in walk(kids(sloops[0])[1]):
        if x.get("kind") == "CompoundStmt":
            ch = kids(x)
            for u, v in zip(ch, ch[1:]):
                if (u.get("kind") == "CallExpr" and callee(u) == "fclose" and v.get("kind") == "CallExpr" and callee(v) == "close"
                        and (arg_name(u), arg_name(v)) in fdopen_pairs):
                    double_close += 1
    # the key codes the /keyboard/ handler reacts to (case labels of its switch), for the searcher
    keyboard_keys = []
    for x in walk(lb[disp[0]]):
        if x.get("kind") == "CaseStmt":
            for y in walk(kids(x)[0]):
                if y.get("kind") in ("IntegerLiteral", "CharacterLiteral") and "value" in y:
                    keyboard_keys.append(int(y["value"])); break
    keyboard_keys = sorted(set(keyboard_keys))
    # ------------------------------------------------------------------ descriptor life cycle of the listening socket
    # open sites: X->socket = socket(...);  close sites: close(X->socket) / closesocket(..).  A close site is INVALIDATING when, later in
    # the same function, the member is overwritten, or its holder (struct reb_server_data) is freed / the simulation's pointer to it reset:
    # after an invalidating close no copy of the number survives, so the descriptor cannot be closed a second time.
    sock_open, sock_close = [], []
    for fn in sast["inner"]:
        if fn.get("kind") != "FunctionDecl":
            continue
        fb = [x for x in fn.get("inner", []) if x.get("kind") == "CompoundStmt"]
        if not fb:
            continue
        seq = list(walk(fb[0]))
        for i, x in enumerate(seq):
            if x.get("kind") == "BinaryOperator" and x.get("opcode") == "=":
                l_ = strip(kids(x)[0]); r_ = strip(kids(x)[1])
                if l_.get("kind") == "MemberExpr" and l_.get("name") == "socket" and r_.get("kind") == "CallExpr" and callee(r_) == "socket":
                    sock_open.append(fn["name"])
            if x.get("kind") == "CallExpr" and callee(x) in ("close", "closesocket") and len(kids(x)) > 1:
                a_ = strip(kids(x)[1])
                if a_.get("kind") == "MemberExpr" and a_.get("name") == "socket":
                    inval = False
                    for y in seq[i + 1:]:
                        if y.get("kind") == "BinaryOperator" and y.get("opcode") == "=":
                            l_ = strip(kids(y)[0])
                            if l_.get("kind") == "MemberExpr" and l_.get("name") in ("socket", "server_data"):
                                inval = True
                        if y.get("kind") == "CallExpr" and callee(y) == "free" and len(kids(y)) > 1 and "struct reb_server_data *" in qt(strip(kids(y)[1])):
                            inval = True
                    sock_close.append((fn["name"], inval))
    # ------------------------------------------------------------------ the serializer must not write the simulation
    gbodies = LazyBodies()
    ser_eff, ser_ext = set(), set()
    effects_of(gbodies["reb_simulation_save_to_stream"], gbodies, ser_eff, ser_ext, {"reb_simulation_save_to_stream"})
    diff_eff, diff_ext = set(), set()
    effects_of(gbodies["reb_binary_diff"], gbodies, diff_eff, diff_ext, {"reb_binary_diff"})
    # the audited exception: the IAS15 "compress before writing" statement, tied to the source text
    comp = []
    for x in walk(gbodies["reb_simulation_save_to_stream"]):
        if x.get("kind") == "IfStmt":
            c_ = kids(x)
            stores = [y for y in walk(c_[1]) if y.get("kind") == "BinaryOperator" and y.get("opcode") == "=" and classify_store(kids(y)[0])]
            if stores:
                if len(stores) != 1 or len(c_) != 2:
                    fail("save_to_stream: a conditional with simulation stores of an unexpected shape")
                comp.append((show_expr(c_[0]), show_expr(kids(stores[0])[0]), show_expr(kids(stores[0])[1])))
    top_stores = [y for st in kids(gbodies["reb_simulation_save_to_stream"]) if st.get("kind") != "IfStmt" for y in walk(st)
                  if y.get("kind") in ("BinaryOperator", "CompoundAssignOperator", "UnaryOperator") and
                  ((y.get("kind") == "UnaryOperator" and y.get("opcode") in ("++", "--") and classify_store(kids(y)[0])) or
                   (y.get("kind") != "UnaryOperator" and (y.get("kind") == "CompoundAssignOperator" or y.get("opcode") == "=") and classify_store(kids(y)[0])))]
    # the consumer of N_allocated: the IAS15 allocation test (re-allocates and zeroes the summation arrays) and what N3 can be
    gbodies.load("integrator_ias15.c")
    alloc = []
    n3_values = []
    for fname, fb in list(gbodies.items()):
        if gbodies.owner.get(fname) != "integrator_ias15.c":
            continue
        for x in walk(fb):
            if x.get("kind") == "IfStmt":
                c_ = kids(x)
                for y in kids(c_[1]) if c_[1].get("kind") == "CompoundStmt" else [c_[1]]:
                    if y.get("kind") == "BinaryOperator" and y.get("opcode") == "=" and classify_store(kids(y)[0]) == ("field", "ri_ias15.N_allocated"):
                        alloc.append((fname, show_expr(c_[0]), show_expr(kids(y)[1])))
            if x.get("kind") == "BinaryOperator" and x.get("opcode") == "=" and strip(kids(x)[0]).get("kind") == "DeclRefExpr" \
                    and strip(kids(x)[0]).get("referencedDecl", {}).get("name") == "N3":
                n3_values.append(show_expr(kids(x)[1]))
    # particle.c: who changes the particle number, and who forgets the IAS15 per-slot arrays when IAS15 is the integrator
    gbodies.load("particle.c")
    n_writers, reset_callers = [], []
    for fname, fb in sorted(gbodies.items()):
        if gbodies.owner.get(fname) != "particle.c":
            continue
        for x in walk(fb):
            k_ = x.get("kind")
            c_ = None
            if k_ in ("BinaryOperator", "CompoundAssignOperator") and (k_ == "CompoundAssignOperator" or x.get("opcode") == "="):
                c_ = classify_store(kids(x)[0])
            elif k_ == "UnaryOperator" and x.get("opcode") in ("++", "--"):
                c_ = classify_store(kids(x)[0])
            if c_ == ("field", "N") and fname not in n_writers:
                n_writers.append(fname)
            if k_ == "IfStmt":
                cc = kids(x)
                try:
                    ctext = show_expr(cc[0])
                except Fail:
                    ctext = ""
                if ctext == "r->integrator == REB_INTEGRATOR_IAS15" and any(y.get("kind") == "CallExpr" and callee(y) == "reb_integrator_ias15_reset" for y in walk(cc[1])):
                    if fname not in reset_callers:
                        reset_callers.append(fname)
    reset_stores = []
    for x in walk(gbodies["reb_integrator_ias15_reset"]):
        if x.get("kind") == "BinaryOperator" and x.get("opcode") == "=" and classify_store(kids(x)[0]) == ("field", "ri_ias15.N_allocated"):
            reset_stores.append(show_expr(kids(x)[1]))
    out = {"serializer_effects": sorted(ser_eff), "serializer_stores": comp, "keyboard_keys": keyboard_keys, "double_close_sites": double_close, "prologue": pro, "heads": heads, "steps_body": steps_body, "body": lbody, "sync_helpers": sync_helpers_rebound, "epilogue": epi, "handlers": handlers, "server_startup_writes": startup_writes}
    os.makedirs(os.path.dirname(OUTJ), exist_ok=True)
    json.dump(out, open(OUTJ, "w"), indent=1)
    coq = ["(* GENERATED by tools/translate_lockproto.py from $VERIF_REPO/src/rebound.c, server.c — do not edit. *)",
           "From Coq Require Import List String Bool.", "From RV Require Import C19.Conc.", "Import ListNotations.",
           "Open Scope string_scope.", "",
           "Definition integ_prologue : list act := %s." % coq_list(pro),
           "(* one block per control-flow path through the loop condition reb_check_exit (branches are split only where they synchronise) *)",
           "Definition integ_loop_heads : list (list act) := [\n  %s]." % ";\n  ".join(coq_list(h) for h in heads),
           "(* status values a request handler of server.c sets or tests *)",
           "Definition request_guard_constants : list string := [%s]." % "; ".join(qs(c) for c in sorted(guard_consts)),
           "(* inside the %d regions of reb_check_exit / reb_simulation_integrate_raw that are control-dependent on a test of r->status against one of them: *)" % rt_regions,
           "(* effects: field:f / via:f / opaque:g / extptr:f:g (see handler_effects below); calls: external functions reached without access to the simulation *)",
           "Definition request_triggered_writes : list string := [%s]." % "; ".join(qs(c) for c in rt_writes),
           "Definition request_triggered_calls : list string := [%s]." % "; ".join(qs(c) for c in rt_calls),
           "Definition request_triggered_regions : nat := %d." % rt_regions,
           "(* per request handler: effects on the simulation (field:f = store to member f, via:f = store through pointer member f, opaque:g = writable",
           "   simulation handed to g, extptr:f:g = pointer into the simulation handed to external g) and functions called without access to it *)",
           "Definition handler_effects : list (string * list string * list string) := [\n  %s]." % ";\n  ".join(
               "(%s, [%s], [%s])" % (qs(h), "; ".join(qs(e) for e in he), "; ".join(qs(e) for e in hx)) for h, he, hx in handler_effects),
           "(* ordered teardown actions (free:<member of the simulation> / opaque:<callee given a writable simulation> / stop_server / call:<name> / store:<member>) *)",
           "Definition teardown_free : list string := [%s]." % "; ".join(qs(x) for x in td_free),
           "Definition teardown_free_pointers : list string := [%s]." % "; ".join(qs(x) for x in td_ptrs),
           "Definition teardown_stop_server : list string := [%s]." % "; ".join(qs(x) for x in td_stop),
           "(* (caller, callee) for every call in rebound.c to a function that operates a pthread mutex directly or through helpers *)",
           "Definition mutex_callers : list (string * string) := [%s]." % "; ".join("(%s, %s)" % (qs(a), qs(b)) for a, b in mutex_callers),
           "(* functions of rebound.c that contain synchronisation and are inlined where the modelled programs call them *)",
           "Definition sync_helpers : list string := [%s]." % "; ".join(qs(f) for f in sync_helpers_rebound),
           "Definition integ_loop_body : list act := %s." % coq_list(lbody),
           "Definition integ_epilogue : list act := %s." % coq_list(epi),
           "(* loop body of reb_simulation_steps (what sim.steps(n) runs; sim.step() calls reb_simulation_step directly) *)",
           "Definition steps_loop_body : list act := %s." % coq_list(steps_body),
           "Definition handlers : list (string * list act) := [\n  %s]." % ";\n  ".join("(%s, %s)" % (qs(h), coq_list(a)) for h, a in handlers),
           "(* simulation writes of the server thread before it accepts requests (message buffer), not part of the modelled programs *)",
           "(* effects (field:path / via:f / opaque:g / extptr:f:g) of reb_simulation_save_to_stream and of everything it calls, across all linked files *)",
           "Definition serializer_effects : list string := [%s]." % "; ".join(qs(x) for x in sorted(ser_eff)),
           "Definition binary_diff_effects : list string := [%s]." % "; ".join(qs(x) for x in sorted(diff_eff)),
           "(* every store to the simulation inside reb_simulation_save_to_stream itself: (condition, target, value) as source text; unconditional ones: %d *)" % len(top_stores),
           "Definition serializer_stores : list (string * string * string) := [%s]." % "; ".join("(%s, %s, %s)" % tuple(qs(t) for t in c) for c in comp),
           "Definition serializer_unconditional_stores : nat := %d." % len(top_stores),
           "(* integrator_ias15.c: (function, condition, value) of every conditional store to ri_ias15.N_allocated, and every value assigned to N3 *)",
           "Definition ias15_alloc_stores : list (string * string * string) := [%s]." % "; ".join("(%s, %s, %s)" % tuple(qs(t) for t in c) for c in alloc),
           "(* particle.c: functions that store to r->N; functions that call reb_integrator_ias15_reset under `r->integrator == REB_INTEGRATOR_IAS15`;",
           "   values reb_integrator_ias15_reset assigns to ri_ias15.N_allocated *)",
           "Definition particle_number_writers : list string := [%s]." % "; ".join(qs(x) for x in n_writers),
           "Definition ias15_reset_on_particle_change : list string := [%s]." % "; ".join(qs(x) for x in reset_callers),
           "Definition ias15_reset_N_allocated_values : list string := [%s]." % "; ".join(qs(x) for x in reset_stores),
           "Definition ias15_N3_values : list string := [%s]." % "; ".join(qs(v) for v in sorted(set(n3_values))),
           "(* listening socket (member `socket` of struct reb_server_data): functions that open it; (function, invalidating?) for every close *)",
           "Definition listening_socket_open_sites : list string := [%s]." % "; ".join(qs(x) for x in sock_open),
           "Definition listening_socket_close_sites : list (string * bool) := [%s]." % "; ".join("(%s, %s)" % (qs(f), "true" if b else "false") for f, b in sock_close),
           "(* key codes with a case label in the /keyboard/ handler *)",
           "Definition keyboard_keys : list nat := [%s]." % "; ".join(str(k) for k in keyboard_keys),
           "(* places where the request loop closes a connection descriptor twice: fclose(fdopen(fd)) followed by close(fd) *)",
           "Definition server_double_close_sites : nat := %d." % double_close,
           "Definition server_startup_writes : list string := [%s]." % "; ".join(qs(f) for f in startup_writes),
           ""]
    new = "\n".join(coq)
    if not os.path.exists(OUT) or open(OUT).read() != new:
        with open(OUT + ".tmp", "w") as f:
            f.write(new)
        os.replace(OUT + ".tmp", OUT)
    print("lockproto: prologue %d, %d loop-head paths, loop body %d, epilogue %d actions; %d handlers" % (len(pro), len(heads), len(lbody), len(epi), len(handlers)))


if __name__ == "__main__":
    try:
        main()
    except Fail as e:
        print("translate_lockproto: FAIL: %s" % e, file=sys.stderr)
        sys.exit(2)
