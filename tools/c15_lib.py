"""C15 helpers: read-only dump of the library's tree through ctypes, float replay of the functional
PR-octree model (transcription of coq/C15/Tree.v `add`, but in binary64 with the C operation order), and
the Python transcription of the checker wf_b (cross-checked against the Coq wf_b on every run)."""
import ctypes, math
from fractions import Fraction


class TreeCell(ctypes.Structure):
    pass


# struct reb_treecell of src/tree.h (QUADRUPOLE not defined in the library build): field order checked by
# c15.py against the regenerated source text on every run (check_layout).
TreeCell._fields_ = [("x", ctypes.c_double), ("y", ctypes.c_double), ("z", ctypes.c_double), ("w", ctypes.c_double),
                     ("m", ctypes.c_double), ("mx", ctypes.c_double), ("my", ctypes.c_double), ("mz", ctypes.c_double),
                     ("oct", ctypes.POINTER(TreeCell) * 8), ("pt", ctypes.c_int), ("remote", ctypes.c_int)]

EXPECTED_FIELDS = ["x", "y", "z", "w", "m", "mx", "my", "mz", "oct", "pt", "remote"]


def parse_treecell_fields(tree_h_text):
    """Fail-closed reader of struct reb_treecell from tree.h (without QUADRUPOLE members)."""
    import re
    m = re.search(r"struct\s+reb_treecell\s*\{(.*?)\n\};", tree_h_text, re.S)
    if not m:
        raise RuntimeError("struct reb_treecell not found in tree.h")
    body = re.sub(r"/\*.*?\*/", "", m.group(1), flags=re.S)
    body = re.sub(r"#ifdef QUADRUPOLE.*?#endif[^\n]*", "", body, flags=re.S)
    out = []
    for decl in body.split(";"):
        d = " ".join(decl.split())
        if not d:
            continue
        mm = re.match(r"^(double|int|struct reb_treecell \*)\s*(\w+)(\[8\])?$", d)
        if not mm:
            raise RuntimeError("tree.h: cannot parse member %r" % d)
        out.append((mm.group(1), mm.group(2), mm.group(3) or ""))
    return out


def dump_cell(ptr, maxcells):
    """-> nested dict or None. ptr: POINTER(TreeCell) value."""
    if not ptr:
        return None
    c = ptr.contents
    maxcells[0] -= 1
    if maxcells[0] < 0:
        raise RuntimeError("tree dump exceeds cell budget (cycle or runaway tree)")
    return {"x": c.x, "y": c.y, "z": c.z, "w": c.w, "m": c.m, "mx": c.mx, "my": c.my, "mz": c.mz, "pt": c.pt,
            "addr": ctypes.addressof(c),
            "oct": [dump_cell(c.oct[o], maxcells) for o in range(8)]}


def dump_tree(sim, budget=200000):
    """list over root boxes (length N_root) of nested dicts / None; None if the tree does not exist."""
    root = sim._tree_root
    if not root:
        return None
    arr = ctypes.cast(root, ctypes.POINTER(ctypes.POINTER(TreeCell) * sim.N_root)).contents
    b = [budget]
    return [dump_cell(arr[i], b) for i in range(sim.N_root)]


def particles_snapshot(sim):
    return [(p.x, p.y, p.z, p.m, p.r, p.c) for p in (sim.particles[i] for i in range(sim.N))]


def leaves_of(cell, out):
    if cell is None:
        return
    if cell["pt"] >= 0:
        out.append(cell["pt"])
    for d in cell["oct"]:
        leaves_of(d, out)


def count_cells(cell):
    if cell is None:
        return 0
    return 1 + sum(count_cells(d) for d in cell["oct"])


def depth_of(cell):
    if cell is None:
        return 0
    return 1 + max([depth_of(d) for d in cell["oct"]] + [0])


# ------------------------------------------------------------------ geometry (binary64, C operation order)
class Box:
    def __init__(self, root_size, nx, ny, nz):
        self.rs = root_size; self.n = (nx, ny, nz)
        self.box = (root_size * float(nx), root_size * float(ny), root_size * float(nz))

    def in_box(self, p):
        return all(not (p[a] > self.box[a] / 2.) and not (p[a] < -self.box[a] / 2.) for a in range(3))

    def rootbox(self, p):
        """reb_get_rootbox_for_particle (C int arithmetic: % truncates; clamp of the upper border since /repo da62396)."""
        ijk = []
        for a in range(3):
            f = int(math.floor((p[a] + self.box[a] / 2.) / self.rs))
            if f == self.n[a]:            # /repo da62396: the upper box border belongs to the last root box
                f = self.n[a] - 1
            f += self.n[a]
            ijk.append(int(math.fmod(f, self.n[a])))
        return (ijk[2] * self.n[1] + ijk[1]) * self.n[0] + ijk[0]

    def root_centre_for(self, p):
        """geometry of a NEW root cell as computed in reb_tree_add_particle_to_cell (no +N_root before %)."""
        c = []
        for a in range(3):
            f = int(math.floor((p[a] + self.box[a] / 2.) / self.rs))
            if f == self.n[a]:
                f = self.n[a] - 1
            i = int(math.fmod(f, self.n[a]))
            c.append(-self.box[a] / 2. + self.rs * (0.5 + float(i)))
        return tuple(c)

    def root_centre_of_index(self, ri):
        i = ri % self.n[0]; j = (ri // self.n[0]) % self.n[1]; k = ri // (self.n[0] * self.n[1])
        return tuple(-self.box[a] / 2. + self.rs * (0.5 + float(v)) for a, v in enumerate((i, j, k)))


def octant(p, c):
    o = 0
    if p[0] < c[0]: o += 1
    if p[1] < c[1]: o += 2
    if p[2] < c[2]: o += 4
    return o


def child_geom(c, w, o):
    cw = w / 2.
    return ((c[0] + cw / 2. * (1. if (o >> 0) % 2 == 0 else -1.),
             c[1] + cw / 2. * (1. if (o >> 1) % 2 == 0 else -1.),
             c[2] + cw / 2. * (1. if (o >> 2) % 2 == 0 else -1.)), cw)


class ModelError(Exception):
    pass


def model_add(pos, node, pt, c, w, depth=0):
    """Functional transcription of reb_tree_add_particle_to_cell / Tree.v `add` (binary64).
    node: None | {"pt":..,"oct":[..], "c":.., "w":..}.  Returns the new node."""
    if depth > 1200:
        raise ModelError("depth")
    if node is None:
        return {"pt": pt, "oct": [None] * 8, "c": c, "w": w}
    if node["pt"] >= 0:
        q = node["pt"]
        o1 = octant(pos[q], c); o2 = octant(pos[pt], c)
        if o1 == o2 and pos[q][0] == pos[pt][0] and pos[q][1] == pos[pt][1] and pos[q][2] == pos[pt][2]:
            raise ModelError("same coordinates")
        oct_ = [None] * 8
        g1 = child_geom(c, w, o1)
        oct_[o1] = model_add(pos, None, q, g1[0], g1[1], depth + 1)
        g2 = child_geom(c, w, o2)
        oct_[o2] = model_add(pos, oct_[o2], pt, g2[0], g2[1], depth + 1)
        return {"pt": -2, "oct": oct_, "c": c, "w": w}
    o = octant(pos[pt], c)
    g = child_geom(c, w, o)
    oct_ = list(node["oct"])
    oct_[o] = model_add(pos, oct_[o], pt, g[0], g[1], depth + 1)
    return {"pt": node["pt"] - 1, "oct": oct_, "c": c, "w": w}


def model_build(box, pos, order=None):
    """Insert particles (in index order unless `order`) into an empty forest."""
    nroot = box.n[0] * box.n[1] * box.n[2]
    forest = [None] * nroot
    for pt in (order if order is not None else range(len(pos))):
        ri = box.rootbox(pos[pt])
        if not (0 <= ri < nroot):
            raise ModelError("rootbox out of range")
        c = forest[ri]["c"] if forest[ri] is not None else box.root_centre_for(pos[pt])
        forest[ri] = model_add(pos, forest[ri], pt, c, box.rs)
    return forest


def same_shape(model, dump):
    """model node (model_add format) vs dumped cell: identical pt, geometry (bitwise) and children."""
    if model is None or dump is None:
        return model is None and dump is None
    if model["pt"] != dump["pt"]:
        return False
    if (model["c"][0], model["c"][1], model["c"][2], model["w"]) != (dump["x"], dump["y"], dump["z"], dump["w"]):
        return False
    return all(same_shape(a, b) for a, b in zip(model["oct"], dump["oct"]))


def on_border(box, pos, dump_forest):
    """True if some particle coordinate equals the centre coordinate of a cell on its path (tie: a PR-octree
    with closed cells is then not unique) or lies on the box border."""
    def walk(cell, pts):
        if cell is None:
            return False
        if cell["pt"] >= 0:
            return False
        c = (cell["x"], cell["y"], cell["z"])
        lv = []
        leaves_of(cell, lv)
        for q in lv:
            if q < len(pos) and any(pos[q][a] == c[a] for a in range(3)):
                return True
        return any(walk(d, pts) for d in cell["oct"])
    for p in pos:
        for a in range(3):
            if abs(p[a]) == box.box[a] / 2.:
                return True
            # root-box borders
            t = (p[a] + box.box[a] / 2.) / box.rs
            if t == math.floor(t):
                return True
    return any(walk(c, None) for c in dump_forest)


# ------------------------------------------------------------------ Python transcription of Tree.v wf_b (exact)
def wfb_py(box, pos, N, forest, exact_geometry=True):
    """Returns list of error strings (empty = well formed). Checks, for every root cell and recursively:
    geometry (root: centre of its root index, w = root_size; child: w/2 and centre +- w/4, replayed in binary64
    with the C expression, which is what `exact_geometry` means), leaf: oct all NULL, 0 <= pt < N, particle inside
    the closed cell |p-c| <= w/2 (evaluated like the C code: fabs(p-c) > w/2 is false), node: -pt = number of
    leaves below >= 2; globally: every index 0..N-1 in exactly one leaf."""
    errs = []
    allleaves = []

    def rec(cell, c, w, path):
        if (cell["x"], cell["y"], cell["z"], cell["w"]) != (c[0], c[1], c[2], w):
            errs.append("geometry %s: (%r,%r,%r,%r) expected (%r,%r,%r,%r)" % (path, cell["x"], cell["y"], cell["z"], cell["w"], c[0], c[1], c[2], w))
        if cell["pt"] >= 0:
            q = cell["pt"]
            if any(d is not None for d in cell["oct"]):
                errs.append("leaf with children %s" % path)
            if q >= N:
                errs.append("leaf pt=%d >= N=%d %s" % (q, N, path))
            else:
                p = pos[q]
                if (abs(p[0] - cell["x"]) > cell["w"] / 2. or abs(p[1] - cell["y"]) > cell["w"] / 2. or
                        abs(p[2] - cell["z"]) > cell["w"] / 2. or p[1] != p[1]):
                    errs.append("particle %d %r outside its leaf cell %s centre (%r,%r,%r) w %r" % (q, p, path, cell["x"], cell["y"], cell["z"], cell["w"]))
            return 1
        n = 0
        for o in range(8):
            d = cell["oct"][o]
            if d is not None:
                g = child_geom((cell["x"], cell["y"], cell["z"]), cell["w"], o)
                n += rec(d, g[0], g[1], path + [o])
        if -cell["pt"] != n:
            errs.append("node count pt=%d but %d leaves below %s" % (cell["pt"], n, path))
        if n < 2:
            errs.append("node with %d < 2 particles (not derefined) %s" % (n, path))
        return n

    for ri, cell in enumerate(forest):
        if cell is None:
            continue
        leaves_of(cell, allleaves)
        rec(cell, box.root_centre_of_index(ri), box.rs, [ri])
    cnt = {}
    for q in allleaves:
        cnt[q] = cnt.get(q, 0) + 1
    for i in range(N):
        if cnt.get(i, 0) != 1:
            errs.append("particle %d occurs in %d leaves" % (i, cnt.get(i, 0)))
    if len(allleaves) != N:
        errs.append("%d leaves for N=%d" % (len(allleaves), N))
    return errs


def gravity_data_py(cell, part):
    """binary64 replay of reb_simulation_update_tree_gravity_data_in_cell; returns list (pre-order) of (m,mx,my,mz)."""
    out = []

    def rec(c):
        idx = len(out); out.append(None)
        if c["pt"] < 0:
            m = 0.; mx = 0.; my = 0.; mz = 0.
            for o in range(8):
                d = c["oct"][o]
                if d is not None:
                    dm, dx, dy, dz = rec(d)
                    mx += dx * dm; my += dy * dm; mz += dz * dm; m += dm
            if m > 0:
                mx /= m; my /= m; mz /= m
            out[idx] = (m, mx, my, mz)
        else:
            p = part[c["pt"]]
            out[idx] = (p[3], p[0], p[1], p[2])
        return out[idx]
    rec(cell)
    return out


def gravity_dump_preorder(cell, out):
    if cell is None:
        return
    out.append((cell["m"], cell["mx"], cell["my"], cell["mz"]))
    for d in cell["oct"]:
        gravity_dump_preorder(d, out)


# ------------------------------------------------------------------ exact scaling for the Coq (Z) model
def dyadic(x):
    """x = m * 2**e with m odd integer (or (0,0))."""
    if x == 0:
        return 0, 0
    m, e = math.frexp(x)
    m = int(m * (1 << 53)); e -= 53
    while m % 2 == 0:
        m //= 2; e += 1
    return m, e


def scale_for(box, pos):
    """Choose unit 2**ue so that every coordinate is a multiple of 2**12 units and the root half-width is
    u * 2**L units with u the odd part of root_size/2. Returns (ue, u, L) or None if unsuitable (u >= 2**11)."""
    m, e = dyadic(box.rs / 2.)
    if m >= (1 << 11):
        return None
    es = [e]
    for p in pos:
        for a in range(3):
            if p[a] != 0 and p[a] == p[a] and abs(p[a]) != float("inf"):
                es.append(dyadic(p[a])[1])
    ue = min(es) - 12
    L = e - ue
    if L > 1500:
        return None
    return ue, m, L


def to_units(x, ue):
    f = Fraction(x) / (Fraction(2) ** ue)
    assert f.denominator == 1
    return int(f)
