"""C11 round 2: mirrors of reb_orbit_from_particle_err and the Pal routines whose ONLY purpose is to find out at which
arguments the C code calls libm, so that those libm values can be handed to the Coq binary64 models as tables.
The value compared with the library is the one computed by the Coq model (vm_compute), never the mirror's.
Arithmetic in numpy.float64 (IEEE semantics for x/0, sqrt(-1), ...)."""
import ctypes, math
import numpy as np
import vlib

F = np.float64
np.seterr(all="ignore")


class Rec2:
    ONE = ("sin", "cos", "sinh", "cosh", "log", "tan", "tanh", "atan")
    ONE2 = ("acos", "acosh", "cbrt")

    def __init__(self, L):
        self.L = L
        for fn in self.ONE2:
            getattr(L.libm, fn).restype = ctypes.c_double
            getattr(L.libm, fn).argtypes = [ctypes.c_double]
        L.libm.atan2.restype = ctypes.c_double
        L.libm.atan2.argtypes = [ctypes.c_double, ctypes.c_double]
        self.t = {k: {} for k in self.ONE + self.ONE2}
        self.t2 = {"fmod": {}, "copysign": {}, "atan2": {}}

    @staticmethod
    def key(x):
        x = float(x)
        return vlib.bits(x) if x == x else -1

    def f(self, name, x):
        y = getattr(self.L.libm, name)(float(x))
        self.t[name][self.key(x)] = (float(x), y)
        return F(y)

    def g(self, name, x, y):
        z = getattr(self.L.libm, name)(float(x), float(y))
        self.t2[name][(self.key(x), self.key(y))] = (float(x), float(y), z)
        return F(z)

    def coq(self):
        H = vlib.fhex
        one = lambda d: "[" + "; ".join("(%s, %s)" % (H(x), H(y)) for x, y in d.values()) + "]"
        two = lambda d: "[" + "; ".join("(%s, %s, %s)" % (H(x), H(y), H(z)) for x, y, z in d.values()) + "]"
        return "(mkTables %s %s %s) (mkTables2 %s %s)" % (
            " ".join(one(self.t[k]) for k in self.ONE), two(self.t2["fmod"]), two(self.t2["copysign"]),
            " ".join(one(self.t[k]) for k in self.ONE2), two(self.t2["atan2"]))

    # ---- mirrors
    def mod2pi(self, x):
        pi2 = F(2.) * F(math.pi)
        return self.g("fmod", pi2 + self.g("fmod", x, pi2), pi2)

    def M_to_E(self, e, M):
        e = F(e); M = F(M)
        if e < 1.:
            M = self.mod2pi(M)
            E = M if e < 0.8 else F(math.pi)
            Fv = E - e * self.f("sin", E) - M
            for _ in range(100):
                E = E - Fv / (F(1.) - e * self.f("cos", E))
                Fv = E - e * self.f("sin", E) - M
                if abs(Fv) < 1.e-16:
                    break
            return self.mod2pi(E)
        E = self.g("copysign", self.f("log", F(2.) * abs(M) / e + F(1.8)), M)
        Fv = E - e * self.f("sinh", E) + M
        for _ in range(100):
            E = E - Fv / (F(1.) - e * self.f("cosh", E))
            Fv = E - e * self.f("sinh", E) + M
            if abs(Fv) < 1.e-16:
                break
        return E

    def acos2(self, num, den, dis):
        c = num / den
        if c > -1. and c < 1.:
            v = self.f("acos", c)
            return -v if dis < 0. else v
        return F(math.pi) if c <= -1. else F(0.)

    def orbit(self, G, t0, p, pr):
        G = F(G); p = [F(x) for x in p]; pr = [F(x) for x in pr]
        TINY = F(1e-308)
        if pr[0] <= TINY:
            return
        mu = G * (p[0] + pr[0])
        dx, dy, dz, dvx, dvy, dvz = [p[i] - pr[i] for i in range(1, 7)]
        d = np.sqrt(dx * dx + dy * dy + dz * dz)
        vsq = dvx * dvx + dvy * dvy + dvz * dvz
        vc = mu / d
        a = -mu / (vsq - F(2.) * vc)
        self.f("cbrt", p[0] / (F(3.) * pr[0]))
        hx = dy * dvz - dz * dvy; hy = dz * dvx - dx * dvz; hz = dx * dvy - dy * dvx
        h = np.sqrt(hx * hx + hy * hy + hz * hz)
        vdiff = vsq - vc
        if d <= TINY:
            return
        vr = (dx * dvx + dy * dvy + dz * dvz) / d
        rvr = d * vr
        muinv = F(1.) / mu
        ex = muinv * (vdiff * dx - rvr * dvx); ey = muinv * (vdiff * dy - rvr * dvy); ez = muinv * (vdiff * dz - rvr * dvz)
        e = np.sqrt(ex * ex + ey * ey + ez * ez)
        inc = self.acos2(hz, h, F(1.))
        nx = -hy; ny = hx
        nn = np.sqrt(nx * nx + ny * ny)
        Om = self.acos2(nx, nn, ny)
        if e < 1.:
            ea = self.acos2(F(1.) - d / a, e, vr)
            M = ea - e * self.f("sin", ea)
        else:
            ea = self.f("acosh", (F(1.) - d / a) / e)
            if vr < 0.:
                ea = -ea
            M = e * self.f("sinh", ea) - ea
        PI = F(math.pi)
        MIN = F(1e-8)
        retro = not (inc < PI / F(2.))
        if inc < MIN or inc > PI - MIN:
            theta = self.acos2(dx, d, dy)
            pom = self.acos2(ex, e, ey)
            if retro:
                om, f = Om - pom, pom - theta
            else:
                om, f = pom - Om, theta - pom
        else:
            wpf = self.acos2(nx * dx + ny * dy, nn * d, dz)
            om = self.acos2(nx * ex + ny * ey, nn * e, ez)
            if retro:
                pom, f, theta = Om - om, wpf - om, Om - wpf
            else:
                pom, f, theta = Om + om, wpf - om, Om + wpf
        if e > MIN:
            l = pom - M if retro else pom + M
        else:
            s = self.f("sin", f)
            l = theta + F(2.) * e * s if retro else theta - F(2.) * e * s
        for x in (om, f, M, l, theta):
            self.mod2pi(x)

    def pal_solve(self, h, k, lam):
        h = F(h); k = F(k); lam = F(lam)
        e2 = h * h + k * k
        if e2 < F(0.3) * F(0.3):
            pn = F(0.); qn = F(0.)
            n = 0
            while True:
                c = self.f("cos", pn); s = self.f("sin", pn)
                f0 = qn * c + pn * s - (k * self.f("cos", lam) + h * self.f("sin", lam))
                f1 = -qn * s + pn * c - (k * self.f("sin", lam) - h * self.f("cos", lam))
                fac = F(1.) / (qn - F(1.))
                fd00 = fac * (qn * c - c + pn * s); fd01 = fac * (pn * c - qn * s + s)
                fd10 = fac * (-s); fd11 = fac * (-c)
                qn = qn - (fd00 * f0 + fd01 * f1)
                pn = pn - (fd10 * f0 + fd11 * f1)
                f = np.sqrt(f0 * f0 + f1 * f1)
                ok = n < 50 and f > 1e-15
                n += 1
                if not ok:
                    break
            return pn, qn
        pom = self.g("atan2", h, k)
        M = lam - pom
        e = np.sqrt(e2)
        E = self.M_to_E(e, M)
        return e * self.f("sin", E), e * self.f("cos", E)

    def from_pal(self, lam, k, h):
        p, q = self.pal_solve(h, k, lam)
        self.f("sin", F(lam) + p); self.f("cos", F(lam) + p)

    def to_pal(self, G, p, pr):
        G = F(G); p = [F(x) for x in p]; pr = [F(x) for x in pr]
        x, y, z, vx, vy, vz = [p[i] - pr[i] for i in range(1, 7)]
        mu = G * (p[0] + pr[0])
        r = np.sqrt(x * x + y * y + z * z)
        cx = y * vz - z * vy; cy = z * vx - x * vz; cz = x * vy - y * vx
        c2 = cx * cx + cy * cy + cz * cz
        c = np.sqrt(c2)
        chat = x * vx + y * vy + z * vz
        k = c / mu * (vy - vz / (c + cz) * cy) - F(1.) / r * (x - z / (c + cz) * cx)
        h = c / mu * (-vx + vz / (c + cz) * cx) - F(1.) / r * (y - z / (c + cz) * cy)
        e2 = k * k + h * h
        l = F(1.) - np.sqrt(F(1.) - e2)
        self.g("atan2", -r * vx + r * vz * cx / (c + cz) - k * chat / (F(2.) - l),
               r * vy - r * vz * cy / (c + cz) + h * chat / (F(2.) - l))


ORBIT_FIELDS = ["d", "v", "h", "P", "n", "a", "e", "inc", "Omega", "omega", "pomega", "f", "M", "l", "theta", "T", "rhill",
                "pal_h", "pal_k", "pal_ix", "pal_iy"]


def gen_cases(L, rng, n_orb, n_pal):
    """[(kind, coq_term, expected, descr)]"""
    import c11_search as S
    H = vlib.fhex
    D = ctypes.c_double
    clib = L.clib
    clib.reb_orbit_from_particle_err.restype = L.rebound.Orbit
    clib.reb_orbit_from_particle_err.argtypes = [D, L.rebound.Particle, L.rebound.Particle, ctypes.POINTER(ctypes.c_int)]
    clib.reb_tools_solve_kepler_pal.restype = None
    clib.reb_tools_particle_to_pal.restype = None
    cases = []
    # the edges of the domain (deterministic): states that have no well-defined orbit, thresholds, extreme magnitudes
    tn = 1e-308
    P0 = [1.0, 0.1, -0.2, 0.3, 0.01, 0.02, -0.03]
    st = [
        ([1e-3, 1.1, -0.2, 0.3, 0.01, 0.02, -0.03], P0),                      # at rest relative to the primary (h = 0, e = 1)
        ([1e-3, 1.1, -0.2, 0.3, 0.51, 0.02, -0.03], P0),                      # radial motion
        ([1e-3, 1.1, 0.8, 0.3, -0.6, 0.9, -0.03], [1.0, 0.1, -0.2, 0.3, 0.0, 0.0, -0.03]),   # exactly planar, prograde
        ([1e-3, 1.1, 0.8, 0.3, 0.6, -0.9, -0.03], [1.0, 0.1, -0.2, 0.3, 0.0, 0.0, -0.03]),   # exactly planar, retrograde (Pal singular)
        ([0.0, 1.1, 0.8, 0.3, -0.6, 0.9, 0.1], [tn] + P0[1:]),                # primary mass == TINY
        ([0.0, 1.1, 0.8, 0.3, -0.6, 0.9, 0.1], [math.nextafter(tn, 1.0)] + P0[1:]),
        ([0.0, 1.1, 0.8, 0.3, -0.6, 0.9, 0.1], [-1.0] + P0[1:]),
        ([1e-3] + P0[1:4] + [0.5, 0.6, 0.7], P0),                             # on top of the primary
        ([1e-3, 1e200, 0.0, 0.0, 0.0, 1e-100, 0.0], [1.0, 0, 0, 0, 0, 0, 0]), # norms overflow
        ([1e-3, 1e-200, 0.0, 0.0, 0.0, 1e100, 0.0], [1.0, 0, 0, 0, 0, 0, 0]), # norms underflow
        ([1e-3, -0.0, 1.0, -0.0, -1.0, -0.0, -0.0], [1.0, 0, 0, 0, 0, 0, 0]), # signed zeros, circular
        ([1e-3, float("nan"), 1.0, 0.0, -1.0, 0.0, 0.0], [1.0, 0, 0, 0, 0, 0, 0]),
        ([1e-3, float("inf"), 1.0, 0.0, -1.0, 0.0, 0.0], [1.0, 0, 0, 0, 0, 0, 0]),
        ([1e-3, 1.0, 0.0, 0.0, 0.0, math.sqrt(2.0), 0.0], [1.0, 0, 0, 0, 0, 0, 0]),          # parabolic: a infinite
        ([1e-3, 1.0, 0.0, 0.0, 0.0, 1.0, 1e-9], [1.0, 0, 0, 0, 0, 0, 0]),                    # inc just above MIN_INC
    ]
    for pl, prl in st:
        err = ctypes.c_int(0)
        o = clib.reb_orbit_from_particle_err(1.0, L.mk_prim(pl), L.mk_prim(prl), ctypes.byref(err))
        if err.value:
            exp = [float(err.value)]
        else:
            exp = [0.0] + [getattr(o, f) for f in ORBIT_FIELDS] + [o.hvec.x, o.hvec.y, o.hvec.z, o.evec.x, o.evec.y, o.evec.z]
        R = Rec2(L)
        R.orbit(1.0, 0.0, pl, prl)
        cases.append(("orbit_from_particle", "(ofp %s %s %s %s %s)" % (R.coq(), H(1.0), H(0.0), vlib.flist(pl), vlib.flist(prl)), exp,
                      {"case": {"e": 0.0}, "particle": pl, "primary": prl, "err": err.value, "edge": True}))
    for i in range(n_orb):
        c = S.gen_orbit(rng)
        u = rng.random()
        if u < 0.15:
            c["inc"] = rng.choice([1e-9, 5e-9, 2e-8, math.pi - 3e-9, math.pi - 5e-8])     # around MIN_INC
        if u > 0.85 and c["e"] < 1:
            c["e"] = rng.choice([1e-9, 5e-9, 2e-8, 1e-12])                                # around MIN_ECC
        prim = L.mk_prim(c["prim"])
        err = ctypes.c_int(0)
        p = clib.reb_particle_from_orbit_err(c["G"], prim, c["m"], c["a"], c["e"], c["inc"], c["Omega"], c["omega"], c["f"], ctypes.byref(err))
        pl = [p.m, p.x, p.y, p.z, p.vx, p.vy, p.vz]
        if err.value or rng.random() < 0.05:
            pl = [rng.choice([0.0, 1e-3])] + [rng.gauss(0, 1) for _ in range(6)]       # arbitrary state
            if rng.random() < 0.3:
                pl[1:4] = c["prim"][1:4]                                                 # on top of the primary -> err 2
            p = L.mk_prim(pl)
        if rng.random() < 0.03:
            c["prim"][0] = rng.choice([0.0, 1e-309]); prim = L.mk_prim(c["prim"])         # err 1
        err = ctypes.c_int(0)
        o = clib.reb_orbit_from_particle_err(c["G"], p, prim, ctypes.byref(err))
        if err.value:
            exp = [float(err.value)]
            if not all(getattr(o, f) != getattr(o, f) for f in ORBIT_FIELDS[:17]):   # reb_orbit_nan sets d..rhill (pal_*, hvec, evec are left uninitialised)
                exp = [float("inf")]          # an error code must come with an all-NaN orbit: force a mismatch
        else:
            exp = [0.0] + [getattr(o, f) for f in ORBIT_FIELDS] + [o.hvec.x, o.hvec.y, o.hvec.z, o.evec.x, o.evec.y, o.evec.z]
        R = Rec2(L)
        R.orbit(c["G"], 0.0, pl, c["prim"])
        term = "(ofp %s %s %s %s %s)" % (R.coq(), H(c["G"]), H(0.0), vlib.flist(pl), vlib.flist(c["prim"]))
        cases.append(("orbit_from_particle", term, exp, {"case": c, "particle": pl, "err": err.value}))
    for i in range(n_pal):
        kind = ("skp", "fpal", "tpal")[i % 3]
        ee = rng.choice([rng.uniform(0, 0.3), rng.uniform(0.25, 0.35), rng.uniform(0.3, 0.95), 0.0])
        w = rng.uniform(0, 2 * math.pi)
        h, k = ee * math.sin(w), ee * math.cos(w)
        lam = rng.choice([0.0, 2 * math.pi, rng.uniform(-7, 14), rng.uniform(0, 6.3)])
        ii = rng.uniform(0, 1.9); O = rng.uniform(0, 2 * math.pi)
        ix, iy = ii * math.cos(O), ii * math.sin(O)
        G = rng.choice([1.0, 39.47841760435743]); m = rng.choice([0.0, 1e-3]); a = 10 ** rng.uniform(-2, 3)
        prl = [rng.uniform(0.5, 2)] + [rng.gauss(0, 1) for _ in range(6)]
        R = Rec2(L)
        if kind == "skp":
            pp, qq = D(), D()
            clib.reb_tools_solve_kepler_pal(D(h), D(k), D(lam), ctypes.byref(pp), ctypes.byref(qq))
            R.pal_solve(h, k, lam)
            cases.append((kind, "(skp %s %s %s %s)" % (R.coq(), H(h), H(k), H(lam)), [pp.value, qq.value], {"h": h, "k": k, "lambda": lam}))
            continue
        p = clib.reb_particle_from_pal(G, L.mk_prim(prl), m, a, lam, k, h, ix, iy)
        pl = [p.m, p.x, p.y, p.z, p.vx, p.vy, p.vz]
        if kind == "fpal":
            R.from_pal(lam, k, h)
            term = "(fpal %s %s %s %s)" % (R.coq(), H(G), vlib.flist(prl), " ".join(H(x) for x in (m, a, lam, k, h, ix, iy)))
            cases.append((kind, term, pl, {"a": a, "h": h, "k": k, "ix": ix, "iy": iy, "lambda": lam}))
        else:
            out = [D() for _ in range(6)]
            clib.reb_tools_particle_to_pal(D(G), p, L.mk_prim(prl), *[ctypes.byref(x) for x in out])
            R.to_pal(G, pl, prl)
            term = "(tpal %s %s %s %s)" % (R.coq(), H(G), vlib.flist(pl), vlib.flist(prl))
            cases.append((kind, term, [x.value for x in out], {"a": a, "h": h, "k": k, "ix": ix, "iy": iy, "lambda": lam}))
    return cases


# ----------------------------------------------------------------------------- value flow of the two front ends
def _E_to_f(R, e, E):
    e = F(e); E = F(E)
    if e > 1.:
        return R.mod2pi(F(2.) * R.f("atan", np.sqrt((F(1.) + e) / (e - F(1.))) * R.f("tanh", F(0.5) * E)))
    return R.mod2pi(F(2.) * R.f("atan", np.sqrt((F(1.) + e) / (F(1.) - e)) * R.f("tan", F(0.5) * E)))


def flow_case(L, c, dec, front, prim, jm=None):
    """records the libm / pow values the front end's value flow and reb_particle_from_orbit_err ask for.
    Returns (coq_term_without_expected) for an accepted-classical decision `dec` (>= 1000)."""
    H = vlib.fhex
    R = Rec2(L)
    powt = {}

    def pw(x, y):
        z = float(x) ** float(y)
        powt[(R.key(x), R.key(y))] = (float(x), float(y), z)
        return F(z)
    v = c["vals"]
    get = lambda n: F(v[n]) if n in c["names"] else F(0.)
    G = F(c["G"]); t = F(c["t"]); m = get("m"); pm = F(prim[0])
    if jm is not None and jm[0] and front == "py":
        m0, Mint = F(jm[1]), F(jm[2])
        pm = m0 * (m + Mint) / Mint - m          # primary.m = particles[0].m*(self.m + interior_mass)/interior_mass - self.m
    afp = (dec // 100) % 10 == 1
    pe = (dec // 10) % 10
    an = dec % 10
    PI = F(math.pi)
    if afp:
        P = get("P")
        if front == "c":
            a = R.f("cbrt", P * P * G * (pm + m) / (F(4.) * PI * PI))
        else:
            a = pw(pw(P, 2.) * G * (pm + m) / (F(4.) * pw(PI, 2.)), F(1.) / F(3.))
    else:
        a = get("a")
    e, inc, Om = get("e"), get("inc"), get("Omega")
    cosi = R.f("cos", inc)
    if pe == 0:
        om = F(0.)
    elif pe == 1:
        om = get("omega")
    else:
        om = get("pomega") - Om if cosi > 0 else Om - get("pomega")
    M2f = lambda M: _E_to_f(R, e, R.M_to_E(e, M))
    if an == 0:
        f = F(0.)
    elif an == 1:
        f = get("f")
    elif an == 2:
        f = M2f(get("M"))
    elif an == 3:
        f = _E_to_f(R, e, get("E"))
    elif an == 4:
        f = M2f(get("l") - Om - om if cosi > 0 else Om - om - get("l"))
    elif an == 5:
        f = get("theta") - Om - om if cosi > 0 else Om - om - get("theta")
    else:
        if front == "c":
            n = np.sqrt(G * (pm + m) / abs(a * a * a))
        else:
            n = pw(G * (pm + m) / abs(pw(a, 3.)), F(0.5))
        f = M2f(n * (t - get("T")))
    for x in (Om, om, f, inc):
        R.f("cos", x); R.f("sin", x)
    two = "[" + "; ".join("(%s, %s, %s)" % (H(x), H(y), H(z)) for x, y, z in powt.values()) + "]"
    vals = [G, t, m] + [get(n) for n in ("a", "P", "e", "inc", "Omega", "omega", "pomega", "f", "M", "E", "l", "theta", "T")]
    if jm is not None:
        return "(flow_particle_jm %s %s %s %s %s %s %s %s %d %d %s)" % (
            "true" if front == "py" else "false", "true" if jm[0] else "false", H(jm[1]), H(jm[2]), R.coq(), two, vlib.flist(prim),
            "true" if afp else "false", pe, an, vlib.flist([float(x) for x in vals]))
    return "(flow_particle %s %s %s %s %s %d %d %s)" % ("true" if front == "py" else "false", R.coq(), two, vlib.flist(prim),
                                                       "true" if afp else "false", pe, an, vlib.flist([float(x) for x in vals]))


def gen_flow_sim_cases(L, rng, n):
    """the k-th planet (k = 1..4) added through rebound.Particle(simulation=sim, ...) to a simulation that already holds
    k-1 massive planets: size as a or P; pericentre as omega / pomega / default; phase as f / M / E / l / theta / T / default;
    jacobi_masses False / True; primary default (centre of mass) / explicit copy of particles[0] / explicit centre of mass.
    Model: Flow.v (py_elements_jm) + from_orbit model at binary64.  Also returns library-only comparisons."""
    rb = L.rebound
    clib = L.clib
    clib.reb_simulation_com.restype = rb.Particle
    cases = []
    for i in range(n):
        k = 1 + i % 4
        sim = rb.Simulation()
        sim.G = rng.choice([1.0, 39.47841760435743])
        sim.t = rng.choice([0.0, 3.5, -2.0])
        sim.add(m=rng.uniform(0.5, 2))
        for j in range(k - 1):
            sim.add(m=10 ** rng.uniform(-4, -2.3), a=1.0 + 0.7 * j, e=rng.uniform(0, 0.1), f=rng.uniform(0, 6))
        size = ("a", "P")[(i // 4) % 2]
        per = rng.choice([None, "omega", "pomega"])
        an = rng.choice([None, "f", "M", "E", "l", "theta", "T"])
        jmf = bool((i // 8) % 2)
        pmode = ("default", "particle", "com")[(i // 16) % 3]
        names = ["m", size, "e", "inc", "Omega"] + [x for x in (per, an) if x]
        vals = {"m": rng.choice([0.0, 10 ** rng.uniform(-5, -2.5)]), "e": rng.uniform(0, 0.6), "inc": rng.choice([rng.uniform(0, 3.1), 0.3]),
                "Omega": rng.uniform(0, 6.28)}
        vals[size] = rng.uniform(2.5, 6) if size == "a" else rng.uniform(3, 20)
        if per: vals[per] = rng.uniform(0, 6.28)
        if an: vals[an] = rng.uniform(-3, 9) if an != "T" else sim.t + rng.uniform(-4, 4)
        kw = dict(vals)
        if pmode == "particle":
            prim_obj = sim.particles[0].copy()
        elif pmode == "com":
            prim_obj = clib.reb_simulation_com(ctypes.byref(sim))
        else:
            prim_obj = None
        if prim_obj is not None:
            kw["primary"] = prim_obj
            prl = [prim_obj.m, prim_obj.x, prim_obj.y, prim_obj.z, prim_obj.vx, prim_obj.vy, prim_obj.vz]
        else:
            cm = clib.reb_simulation_com(ctypes.byref(sim))
            prl = [cm.m, cm.x, cm.y, cm.z, cm.vx, cm.vy, cm.vz]
        m0 = sim.particles[0].m
        Mint = 0
        for pp in sim.particles:
            Mint += pp.m
        try:
            p = rb.Particle(simulation=sim, jacobi_masses=jmf, **kw)
            exp = [0.0, p.m, p.x, p.y, p.z, p.vx, p.vy, p.vz]
        except ValueError as ex:
            import c11
            code = [cd for pat, cd in c11.PY_ERR if str(ex).startswith(pat)]
            exp = [float(code[0])] if code else [float("inf")]
        pe = {None: 0, "omega": 1, "pomega": 2}[per]
        ann = {None: 0, "f": 1, "M": 2, "E": 3, "l": 4, "theta": 5, "T": 6}[an]
        dec = 1000 + (100 if size == "P" else 0) + 10 * pe + ann
        c = {"G": sim.G, "t": sim.t, "names": names, "vals": vals}
        term = flow_case(L, c, dec, "py", prl, jm=(jmf, m0, float(Mint)))
        cases.append(("flow_py_nbody", term, exp, {"k": k, "size": size, "peri": per, "anomaly": an, "jacobi_masses": jmf,
                                                    "primary": pmode, "vals": {a: float(b).hex() for a, b in vals.items()}}))
    return cases


# ----------------------------------------------------------------------------- orbits of particles that live in simulations
def _orbit_list(o):
    return [0.0] + [getattr(o, f) for f in ORBIT_FIELDS] + [o.hvec.x, o.hvec.y, o.hvec.z, o.evec.x, o.evec.y, o.evec.z]


def gen_sim_cases(L, rng, n):
    """particles in simulations whose clock is not zero (set directly, or reached by integrate), read through every
    route: p.orbit() (default Jacobi primary, sim pointer NULL), p.orbit(primary=particles[0]) (primary in the
    simulation), sim.orbits(), reb_orbit_from_particle (C).  Model: orbit_from_particle_sim with the particle's clock."""
    import c11_search as S
    H = vlib.fhex
    D = ctypes.c_double
    rb = L.rebound
    clib = L.clib
    clib.reb_orbit_from_particle.restype = rb.Orbit
    clib.reb_orbit_from_particle.argtypes = [D, rb.Particle, rb.Particle]
    clib.reb_simulation_jacobi_com.restype = rb.Particle
    cases = []
    for i in range(n):
        t = rng.choice([12.5, -3.0, rng.uniform(-20, 20), 0.0])
        mode = ("set", "integrate")[i % 2]
        sim = rb.Simulation()
        sim.G = rng.choice([1.0, 39.47841760435743])
        if mode == "set":
            sim.t = t
        sim.add(m=rng.uniform(0.5, 2), x=rng.gauss(0, 1), vy=rng.gauss(0, 0.1))
        hyper = rng.random() < 0.2
        e = rng.uniform(1.1, 3) if hyper else rng.uniform(0, 0.9)
        sim.add(m=rng.choice([0.0, 1e-3]), a=(-1 if hyper else 1) * rng.uniform(0.5, 3), e=e, inc=rng.uniform(0, math.pi),
                Omega=rng.uniform(0, 6.28), omega=rng.uniform(0, 6.28), f=rng.uniform(-1, 1) if hyper else rng.uniform(0, 6.28))
        if rng.random() < 0.5:
            sim.add(m=1e-4, a=rng.uniform(5, 9), e=rng.uniform(0, 0.3), inc=rng.uniform(0, 0.5), f=rng.uniform(0, 6.28))
        if mode == "integrate":
            sim.integrator = rng.choice(["ias15", "whfast"])
            sim.dt = 0.01 * (1 if t >= 0 else -1)
            sim.integrate(t)
        ps = sim.particles
        idx = rng.randrange(1, sim.N)
        p = ps[idx]
        pl = [p.m, p.x, p.y, p.z, p.vx, p.vy, p.vz]
        jc = clib.reb_simulation_jacobi_com(ctypes.byref(p))
        routes = [("p.orbit()", jc, p.orbit(), []),
                  ("p.orbit(primary=particles[0])", ps[0], p.orbit(primary=ps[0]), [sim.t]),
                  ("sim.orbits()", None, sim.orbits()[idx - 1], []),
                  ("reb_orbit_from_particle(G,p,jacobi_com)", jc, clib.reb_orbit_from_particle(sim.G, p, jc), []),
                  ("reb_orbit_from_particle(G,p,particles[0])", ps[0], clib.reb_orbit_from_particle(sim.G, p, ps[0]), [sim.t])]
        for nme, prim, o, primsim in routes:
            if prim is None:
                if idx != 1:
                    continue          # sim.orbits() accumulates its own centre of mass; for index 1 it is particles[0]
                prim, primsim = ps[0], [sim.t]
            prl = [prim.m, prim.x, prim.y, prim.z, prim.vx, prim.vy, prim.vz]
            R = Rec2(L)
            R.orbit(sim.G, sim.t, pl, prl)
            term = "(ofps %s %s %s %s %s %s)" % (R.coq(), H(sim.G), vlib.flist([sim.t]), vlib.flist(primsim), vlib.flist(pl), vlib.flist(prl))
            cases.append(("orbit_in_sim", term, _orbit_list(o), {"route": nme, "t": sim.t, "mode": mode, "index": idx, "particle": pl, "primary": prl}))
    return cases
