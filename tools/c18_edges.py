"""C18 edge-of-domain probe (library-only; run as a child process with PYTHONPATH=<libdir>; argv[1] = the same job json as
tools/c18_probe.py).  The corners of what C18 quantifies over:
  * every scalar field with the extreme values of its C type (integer limits, -0.0, subnormal, huge, inf, NaN), bit for bit,
    first and last element / last byte of every array field;
  * containers of the smallest sizes: N = 0, 1, 2 particles, 0 variation sets, an archive with a single snapshot;
  * options by integer at and beyond the ends of the enum, unknown names, names of the wrong type, and the SAME object used
    again after the setter has raised (error path taken once);
  * equal hashes, hash 0, lookups that fail, and use after a failed lookup.
Each stage name is printed to stderr before it runs, so a crash (signal) is attributed to a stage by the harness.
stdout: one line  C18EDGES <json>.
"""
import ctypes, importlib, json, math, os, struct, sys, warnings


def main():
    job = json.load(open(sys.argv[1]))
    out = {"mismatch": [], "checked": {}}
    import rebound
    clib = rebound.clibrebound
    co = job["coff"]; csz = job["csize"]

    def stage(n):
        sys.stderr.write("C18EDGE-STAGE %s\n" % n); sys.stderr.flush()
        out["checked"].setdefault(n, 0)
        return n

    def bad(st, struct_, member, detail):
        out["mismatch"].append({"what": "edge-" + st, "struct": struct_, "member": member, "detail": detail})

    # ------------------------------------------------------------------ 1. extreme values through every scalar field
    st = stage("values")
    classes = {}
    for cname, mod in job["classes"]:
        m = importlib.import_module("rebound." + mod)
        classes[cname] = getattr(m, cname)
    pairs = {}
    for cls_, cs, pf, cm in job["name_pairs"]:
        pairs.setdefault(cls_, []).append((cs, pf, cm))
    DBL = [0.0, -0.0, 5e-324, -5e-324, 2.2250738585072014e-308, 1.7976931348623157e308, -1.7976931348623157e308,
           float("inf"), float("-inf"), float("nan"), 1.0000000000000002]
    for cname, lst in pairs.items():
        cls = classes[cname]
        cs = lst[0][0]
        if cs not in co:
            continue
        n = max(csz[cs][0], ctypes.sizeof(cls)) + 64
        ftypes = dict(cls._fields_)
        count = {}
        for cs, pf, cm in lst:
            count[pf] = count.get(pf, 0) + 1
        seen = {}
        for cs, pf, cm in lst:
            if cm not in co[cs] or not hasattr(cls.__dict__.get(pf), "offset"):
                continue
            coff, csize = co[cs][cm]
            ck = job["ckind"][cs].get(cm, "other")
            ft = ftypes[pf]
            k = seen.get(pf, 0); seen[pf] = k + 1
            split = count[pf] > 1
            el = ft._type_ if split else ft
            code = getattr(el, "_type_", None) if isinstance(el, type) and issubclass(el, ctypes._SimpleCData) else None
            buf = (ctypes.c_ubyte * n)()
            obj = cls.from_buffer(buf)
            def get():
                v = getattr(obj, pf); return v[k] if split else v
            def put(v):
                if split: getattr(obj, pf)[k] = v
                else: setattr(obj, pf, v)
            raw = lambda: bytes(buf[coff:coff + csize])
            def poke(b):
                for i, x in enumerate(b): buf[coff + i] = x
            if code in ("f", "d") and ck == "float":
                fmt = "<d" if csize == 8 else "<f"
                for v in DBL:
                    out["checked"][st] += 1
                    put(v)
                    if raw() != struct.pack(fmt, v):
                        bad(st, cname, pf, "wrote %r through python; C member %s.%s holds bits %s, expected %s" % (v, cs, cm, raw().hex(), struct.pack(fmt, v).hex()))
                    poke(struct.pack(fmt, v))
                    g = get()
                    if struct.pack(fmt, g) != struct.pack(fmt, v):
                        bad(st, cname, pf, "C member %s.%s holds %r; python reads %r" % (cs, cm, v, g))
            elif code in ("b", "B", "h", "H", "i", "I", "l", "L", "q", "Q") and ck in ("signed", "unsigned") and csize in (1, 2, 4, 8):
                bits = 8 * csize
                lim = [0, 1, (1 << bits) - 1, (1 << (bits - 1))] if ck == "unsigned" else [0, 1, -1, (1 << (bits - 1)) - 1, -(1 << (bits - 1))]
                fmt = "<" + {1: "b", 2: "h", 4: "i", 8: "q"}[csize]
                if ck == "unsigned": fmt = fmt.upper()
                for v in lim:
                    out["checked"][st] += 1
                    put(v)
                    if raw() != struct.pack(fmt, v):
                        bad(st, cname, pf, "wrote %d through python; C member %s.%s holds %s (%s as its C type)" % (v, cs, cm, raw().hex(), struct.unpack(fmt, raw())[0]))
                    poke(struct.pack(fmt, v))
                    if get() != v:
                        bad(st, cname, pf, "C member %s.%s holds %d; python reads %r" % (cs, cm, v, get()))
            elif isinstance(ft, type) and issubclass(ft, ctypes.Array) and not split:
                # first / last element and last byte of an array field
                out["checked"][st] += 1
                nel = ft._length_; es = ctypes.sizeof(ft._type_)
                if nel * es != csize:
                    bad(st, cname, pf, "array field has %d elements of %d bytes; C member %s.%s is %d bytes" % (nel, es, cs, cm, csize)); continue
                if issubclass(ft._type_, ctypes.Structure):
                    arr = getattr(obj, pf)
                    for idx in (0, nel - 1):
                        a = ctypes.addressof(arr[idx]) - ctypes.addressof(buf)
                        if a != coff + idx * es:
                            bad(st, cname, pf, "element %d of %s is at offset %d; C %s.%s[%d] is at %d" % (idx, pf, a, cs, cm, idx, coff + idx * es))
                elif ft._type_ is ctypes.c_char:
                    poke(b"A" * (csize - 1) + b"Z")
                    g = getattr(obj, pf)
                    if g != b"A" * (csize - 1) + b"Z":
                        bad(st, cname, pf, "char[%d] filled to the last byte reads back %d bytes ending %r" % (csize, len(g), g[-2:]))
                    poke(b"end" + b"\0" * (csize - 3))
                    if getattr(obj, pf) != b"end":
                        bad(st, cname, pf, "NUL-terminated content reads %r" % (getattr(obj, pf),))
            del obj

    # ------------------------------------------------------------------ 1b. NULL in every pointer-valued field
    st = stage("null-pointers")
    def py_is_null(v):
        if v is None: return True
        if isinstance(v, int): return v == 0
        try: return not bool(v)
        except Exception: return None
    def scan_nulls(obj, cname, base_addr, label):
        """every pointer / function-pointer field of obj: python's view of NULL-ness equals the raw C member's"""
        for cs, pf, cm in pairs.get(cname, []):
            ck = job["ckind"].get(cs, {}).get(cm, "other")
            if cm not in co.get(cs, {}): continue
            if ck in ("ptr", "funptr"):
                out["checked"][st] += 1
                rawp = ctypes.c_void_p.from_address(base_addr + co[cs][cm][0]).value
                try:
                    v = getattr(obj, pf)
                    isn = py_is_null(v)
                except Exception as e:
                    bad(st, cname, pf, "%s: reading the field raised %r (C member is %s)" % (label, e, "NULL" if not rawp else hex(rawp))); continue
                if isn is None or isn != (not rawp):
                    bad(st, cname, pf, "%s: C member %s.%s is %s; python reads %r" % (label, cs, cm, "NULL" if not rawp else hex(rawp), v))
            elif ck.startswith("struct:") and hasattr(cls_of.get(cname), pf):
                sub = getattr(obj, pf)
                if isinstance(sub, ctypes.Structure) and type(sub).__name__ in pairs:
                    scan_nulls(sub, type(sub).__name__, base_addr + co[cs][cm][0], label + "." + pf)
    cls_of = classes
    for cname, lst in pairs.items():            # all-zero objects of every class
        cls = classes[cname]; cs = lst[0][0]
        if cs not in co: continue
        buf = (ctypes.c_ubyte * (max(csz[cs][0], ctypes.sizeof(cls)) + 64))()
        obj = cls.from_buffer(buf)
        scan_nulls(obj, cname, ctypes.addressof(buf), "zeroed " + cname)
        del obj
    for N in (0, 2):                            # live simulations: fresh (most pointers NULL) and after use
        sim = rebound.Simulation()
        for i in range(N): sim.add(m=1. + i, x=float(i), hash="h%d" % i)
        if N:
            sim.integrator = "whfast"; sim.dt = 0.01; sim.step(); sim.add_variation(); sim.particles["h1"]
        scan_nulls(sim, "Simulation", ctypes.addressof(sim), "live simulation N=%d" % N)
        for j in range(N):
            scan_nulls(sim.particles[j], "Particle", ctypes.addressof(sim.particles[j]), "live particle %d" % j)

    # ------------------------------------------------------------------ 2. smallest containers
    st = stage("small-N")
    off_pp = co["reb_simulation"]["particles"][0]; off_N = co["reb_simulation"]["N"][0]
    pstride = csz["reb_particle"][0]; poff_m = co["reb_particle"]["m"][0]; poff_h = co["reb_particle"]["hash"][0]
    for N in (0, 1, 2):
        sim = rebound.Simulation()
        for i in range(N):
            sim.add(m=1.0 + i, x=float(i))
        b = ctypes.addressof(sim)
        rawN = ctypes.c_uint.from_address(b + off_N).value
        pbase = ctypes.c_void_p.from_address(b + off_pp).value
        out["checked"][st] += 1
        if not (rawN == N == len(sim.particles) == sim.N == sim.N_real):
            bad(st, "Particles", "__len__", "N=%d: C N=%d len(sim.particles)=%d sim.N=%d N_real=%d" % (N, rawN, len(sim.particles), sim.N, sim.N_real))
        if [ctypes.addressof(p) for p in sim.particles] != [pbase + i * pstride for i in range(N)]:
            bad(st, "Particles", "__iter__", "N=%d: iteration does not visit exactly the %d C particles" % (N, N))
        for sl in (slice(None), slice(0, 1), slice(-1, None), slice(None, None, -1), slice(5, 9)):
            out["checked"][st] += 1
            try:
                got = [ctypes.addressof(p) for p in sim.particles[sl]]
                if got != [pbase + i * pstride for i in range(N)[sl]]:
                    bad(st, "Particles", "__getitem__", "N=%d: sim.particles[%r] yields %d elements, expected %d" % (N, sl, len(got), len(range(N)[sl])))
            except Exception as e:
                bad(st, "Particles", "__getitem__", "N=%d: sim.particles[%r] raised %r" % (N, sl, e))
        for i in range(-N - 2, N + 2):
            out["checked"][st] += 1
            try:
                p = sim.particles[i]
                if not (-N <= i < N) or ctypes.addressof(p) != pbase + (i % N) * pstride:
                    bad(st, "Particles", "__getitem__", "N=%d: sim.particles[%d] returned the object at %#x" % (N, i, ctypes.addressof(p)))
            except (AttributeError, IndexError):
                if -N <= i < N:
                    bad(st, "Particles", "__getitem__", "N=%d: sim.particles[%d] raised" % (N, i))
            except Exception as e:
                bad(st, "Particles", "__getitem__", "N=%d: sim.particles[%d] raised %r" % (N, i, e))
        # failed lookup by hash, then the same object keeps working
        out["checked"][st] += 1
        try:
            sim.particles["nobody"]
            bad(st, "Particles", "__getitem__", "N=%d: lookup of an unknown hash did not raise" % N)
        except rebound.ParticleNotFound:
            pass
        except Exception as e:
            bad(st, "Particles", "__getitem__", "N=%d: lookup of an unknown hash raised %r" % (N, e))
        sim.add(m=9.5, hash="late")
        b2 = ctypes.c_void_p.from_address(b + off_pp).value
        out["checked"][st] += 1
        try:
            p = sim.particles["late"]
            if ctypes.addressof(p) != b2 + N * pstride or p.m != 9.5 or len(sim.particles) != N + 1:
                bad(st, "Particles", "__getitem__", "N=%d: after a failed lookup, the particle added next is not found at C particles[%d]" % (N, N))
        except Exception as e:
            bad(st, "Particles", "__getitem__", "N=%d: after a failed lookup, sim.particles['late'] raised %r" % (N, e))
        # 0 variation sets: N_var_config = 0, var_config is NULL
        out["checked"][st] += 1
        if ctypes.c_uint.from_address(b + co["reb_simulation"]["N_var_config"][0]).value != 0 or sim.N_var_config != 0 or sim.N_var != 0:
            bad(st, "Simulation", "N_var_config", "fresh simulation reports variation sets")
        if ctypes.c_void_p.from_address(b + co["reb_simulation"]["var_config"][0]).value is not None or bool(sim.var_config):
            bad(st, "Simulation", "var_config", "fresh simulation has a non-NULL var_config")

    # equal hashes / hash 0
    st = stage("hashes")
    sim = rebound.Simulation()
    sim.add(m=1., hash="twin"); sim.add(m=2., hash="twin"); sim.add(m=3.); sim.add(m=4., hash=0)
    b = ctypes.addressof(sim); pbase = ctypes.c_void_p.from_address(b + off_pp).value
    clib.reb_hash.restype = ctypes.c_uint32
    ht = clib.reb_hash(b"twin")
    out["checked"][st] += 1
    try:
        p = sim.particles["twin"]
        idx = (ctypes.addressof(p) - pbase) // pstride
        if not (0 <= idx < 4) or (ctypes.addressof(p) - pbase) % pstride or ctypes.c_uint32.from_address(pbase + idx * pstride + poff_h).value != ht:
            bad(st, "Particles", "__getitem__", "lookup of a hash carried by two particles returned %#x (not an element with that hash)" % ctypes.addressof(p))
    except rebound.ParticleNotFound:
        pass
    for key in (ctypes.c_uint32(0), 0):
        out["checked"][st] += 1
        try:
            p = sim.particles[key]
            if isinstance(key, int):
                if ctypes.addressof(p) != pbase:
                    bad(st, "Particles", "__getitem__", "sim.particles[0] is not C particles[0]")
            else:
                idx = (ctypes.addressof(p) - pbase) // pstride
                if not (0 <= idx < 4) or ctypes.c_uint32.from_address(pbase + idx * pstride + poff_h).value != 0:
                    bad(st, "Particles", "__getitem__", "lookup of hash 0 returned an element whose C hash is not 0")
        except rebound.ParticleNotFound:
            pass
        except Exception as e:
            bad(st, "Particles", "__getitem__", "sim.particles[%r] raised %r" % (key, e))
    # hash setter at the limits of uint32
    for hv in (0, 1, 2**32 - 1, 2**31):
        out["checked"][st] += 1
        sim.particles[2].hash = hv
        rawh = ctypes.c_uint32.from_address(pbase + 2 * pstride + poff_h).value
        if rawh != hv or sim.particles[2].hash.value != hv:
            bad(st, "Particle", "hash", "hash = %d: C holds %d, reads back %d" % (hv, rawh, sim.particles[2].hash.value))

    # ------------------------------------------------------------------ 3. options at the ends of the enums and after errors
    st = stage("options")
    sim = rebound.Simulation(); sim.add(m=1.)
    base = ctypes.addressof(sim); simsize = csz["reb_simulation"][0]

    def path_off(path):
        off = 0; cur = "reb_simulation"
        for i, p in enumerate(path):
            off += co[cur][p][0]
            if i + 1 < len(path):
                cur = job["cmember_struct"][cur][p]
        return off
    drules = {r[0]: r for r in job["doc_rules"] if r[3]}
    dicts = {}
    for dn, key, const, v in job["option_pairs"]:
        dicts.setdefault(dn, {})[key] = v
    for path, (_, cls_, prop, dname, _mode) in sorted(drules.items()):
        parts = path.split(".")
        cmem = [cm for c2, cs2, pf, cm in job["name_pairs"] if c2 == cls_ and pf == "_" + prop]
        off = path_off(parts[:-1] + cmem[:1])
        holder = sim
        for a in parts[:-1]: holder = getattr(holder, a)
        vals = sorted(dicts[dname].values())
        byval = {v: k for k, v in dicts[dname].items()}
        # integers: both ends of the enum, a gap value, one past the end, -1, INT_MAX
        for iv in (vals[0], vals[-1], vals[-1] + 1, max(vals) + 1000, 2**31 - 1) + ((-1,) if cls_ == "Simulation" else ()):
            out["checked"][st] += 1
            ctypes.c_uint.from_address(base + off).value = 0x5A5A5A5A
            before = ctypes.string_at(base, simsize)
            try:
                setattr(holder, prop, iv)
            except Exception as e:
                bad(st, dname, str(iv), "%s = %d raised %r" % (path, iv, e)); continue
            after = ctypes.string_at(base, simsize)
            rawv = ctypes.c_int.from_address(base + off).value
            back = getattr(holder, prop)
            oc = [i for i in range(simsize) if before[i] != after[i] and not (off <= i < off + 4)]
            if rawv != iv or oc or back != byval.get(iv, iv):
                bad(st, dname, str(iv), "%s = %d: C member holds %d, reads back %r (expected %r), other bytes changed: %s" % (path, iv, rawv, back, byval.get(iv, iv), oc[:6]))
        # wrong names / wrong types: the setter must leave every byte of the struct alone (and may raise); the object keeps working
        good = sorted(dicts[dname])[0]
        for wrong in ("", " ", "no_such_option", good + "x", good.encode("ascii") + b"\xff", None, 1.5, [good]):
            out["checked"][st] += 1
            ctypes.c_uint.from_address(base + off).value = 0x5A5A5A5A
            before = ctypes.string_at(base, simsize)
            try:
                setattr(holder, prop, wrong); raised = None
            except Exception as e:
                raised = e
            after = ctypes.string_at(base, simsize)
            if before != after:
                ch = [i for i in range(simsize) if before[i] != after[i]]
                bad(st, dname, repr(wrong), "%s = %r (%s) changed bytes %s of struct reb_simulation" % (path, wrong, "raised %r" % raised if raised else "accepted silently", ch[:6]))
            # same object after the error path
            try:
                setattr(holder, prop, good)
                if ctypes.c_int.from_address(base + off).value != dicts[dname][good] or getattr(holder, prop) != good:
                    bad(st, dname, good, "after %s = %r, setting %r stores %d / reads back %r" % (path, wrong, good, ctypes.c_int.from_address(base + off).value, getattr(holder, prop)))
            except Exception as e:
                bad(st, dname, good, "after %s = %r, setting %r raised %r" % (path, wrong, good, e))
        # setting an option to the value it already has changes no byte at all
        for nm in sorted(dicts[dname]):
            out["checked"][st] += 1
            try:
                setattr(holder, prop, nm)
                before = ctypes.string_at(base, simsize)
                setattr(holder, prop, nm); setattr(holder, prop, dicts[dname][nm])
                after = ctypes.string_at(base, simsize)
                if before != after or getattr(holder, prop) != nm:
                    bad(st, dname, nm, "%s = %r set again (by name and by value) changed bytes %s / reads back %r" % (path, nm, [i for i in range(simsize) if before[i] != after[i]][:6], getattr(holder, prop)))
            except Exception as e:
                bad(st, dname, nm, "%s = %r twice raised %r" % (path, nm, e))
        # case / whitespace variants the setters promise to accept (lower(); kernel/saba/eos also strip blanks and parentheses)
        mode = [r for r in job["doc_rules_full"] if r[0] == path][0][4]
        variants = []
        if mode >= 1: variants.append(good.upper())
        if mode >= 2: variants.append(" " + good.upper() + " ")
        if mode >= 3: variants.append("(" + good + ")")
        for v in variants:
            out["checked"][st] += 1
            try:
                setattr(holder, prop, v)
                if ctypes.c_int.from_address(base + off).value != dicts[dname][good] or getattr(holder, prop) != good:
                    bad(st, dname, v, "%s = %r stores %d, reads back %r (expected %r)" % (path, v, ctypes.c_int.from_address(base + off).value, getattr(holder, prop), good))
            except Exception as e:
                bad(st, dname, v, "%s = %r raised %r" % (path, v, e))

    # ------------------------------------------------------------------ 4. archives of the smallest size, error path, reuse
    st = stage("archive")
    fn = os.path.join(job["tmpdir"], "c18_edge_%d.bin" % os.getpid())
    sa_co = co["reb_simulationarchive"]
    with warnings.catch_warnings():
        warnings.simplefilter("ignore")
        for t0 in (0.0, 3.25, -2.0):
            if os.path.exists(fn): os.remove(fn)
            sim = rebound.Simulation(); sim.add(m=1.); sim.add(m=1e-3, a=1.); sim.t = t0
            sim.save_to_file(fn)
            sa = rebound.Simulationarchive(fn)
            ab = ctypes.addressof(sa)
            nb = ctypes.c_int64.from_address(ab + sa_co["nblobs"][0]).value
            tp = ctypes.c_void_p.from_address(ab + sa_co["t"][0]).value
            out["checked"][st] += 1
            ct0 = ctypes.c_double.from_address(tp).value
            if not (nb == 1 == len(sa)) or ct0 != t0 or sa.tmin != t0 or sa.tmax != t0 or sa[0].t != t0 or sa[-1].t != t0 or [s.t for s in sa] != [t0]:
                bad(st, "Simulationarchive", "__getitem__", "single snapshot at t=%r: nblobs=%d len=%d C t[0]=%r tmin=%r tmax=%r sa[0].t=%r sa[-1].t=%r" % (t0, nb, len(sa), ct0, sa.tmin, sa.tmax, sa[0].t, sa[-1].t))
            for i in (1, -2):
                out["checked"][st] += 1
                try:
                    sa[i]; bad(st, "Simulationarchive", "__getitem__", "single snapshot: sa[%d] did not raise" % i)
                except IndexError:
                    pass
            out["checked"][st] += 1
            try:
                g = sa.getSimulation(t0)
                if g.t != t0:
                    bad(st, "Simulationarchive", "getSimulation", "single snapshot at %r: getSimulation(%r).t = %r" % (t0, t0, g.t))
            except Exception as e:
                bad(st, "Simulationarchive", "getSimulation", "single snapshot at %r: getSimulation(%r) raised %r" % (t0, t0, e))
            # (a NaN request is deliberately not probed: what a time lookup does with NaN is not part of C18)
            for tq in (math.nextafter(t0, math.inf), math.nextafter(t0, -math.inf), float("inf")):
                out["checked"][st] += 1
                try:
                    g = sa.getSimulation(tq)
                    bad(st, "Simulationarchive", "getSimulation", "single snapshot at %r: getSimulation(%r) outside [tmin, tmax] returned a simulation at t=%r" % (t0, tq, g.t))
                except ValueError:
                    pass
                except Exception as e:
                    bad(st, "Simulationarchive", "getSimulation", "getSimulation(%r) raised %r" % (tq, e))
            # the archive still works after the error path
            out["checked"][st] += 1
            if sa[0].t != t0 or len(sa) != 1:
                bad(st, "Simulationarchive", "__getitem__", "after failed requests the archive no longer returns its snapshot")
            del sa
        # error path of the constructor, then a normal open in the same process
        out["checked"][st] += 1
        try:
            rebound.Simulationarchive(fn + ".does-not-exist")
            bad(st, "Simulationarchive", "__init__", "opening a missing file did not raise")
        except RuntimeError:
            pass
        except Exception as e:
            bad(st, "Simulationarchive", "__init__", "opening a missing file raised %r" % (e,))
        sa = rebound.Simulationarchive(fn)
        if len(sa) != 1:
            bad(st, "Simulationarchive", "__init__", "after a failed open, a good archive has len %d" % len(sa))
        # a simulation with N = 0 in an archive
        os.remove(fn)
        sim = rebound.Simulation(); sim.save_to_file(fn)
        sa = rebound.Simulationarchive(fn)
        out["checked"][st] += 1
        s0 = sa[0]
        if len(sa) != 1 or s0.N != 0 or len(s0.particles) != 0 or ctypes.c_void_p.from_address(ctypes.addressof(s0) + off_pp).value is not None and s0.N_allocated == 0 and False:
            bad(st, "Simulationarchive", "__getitem__", "archive of an empty simulation: len=%d N=%d" % (len(sa), s0.N))
        del sa
        os.remove(fn)

    # ------------------------------------------------------------------ 5. variations at the smallest sizes
    st = stage("variations")
    vc = "reb_variational_configuration"
    for N in (1, 2):
        sim = rebound.Simulation()
        for i in range(N):
            sim.add(m=1.0 + i, x=float(i), vy=0.1 * i)
        out["checked"][st] += 1
        try:
            v = sim.add_variation()
            b = ctypes.addressof(sim)
            pbase = ctypes.c_void_p.from_address(b + off_pp).value
            vb = ctypes.c_void_p.from_address(b + co["reb_simulation"]["var_config"][0]).value
            idx = ctypes.c_int.from_address(vb + co[vc]["index"][0]).value
            ps = v.particles
            if len(ps) != N or idx != N or [ctypes.addressof(p) for p in ps] != [pbase + (idx + j) * pstride for j in range(N)] or len(sim.particles) != 2 * N:
                bad(st, "Variation", "particles", "N=%d: one variation set: len(particles)=%d index=%d len(sim.particles)=%d" % (N, len(ps), idx, len(sim.particles)))
            v.lrescale = -1.0
            if ctypes.c_double.from_address(vb + co[vc]["lrescale"][0]).value != -1.0:
                bad(st, "Variation", "lrescale", "N=%d: single set: lrescale write did not reach C" % N)
            for val in (0.0, -0.0, float("inf"), 5e-324):
                v.lrescale = val
                got = ctypes.c_double.from_address(vb + co[vc]["lrescale"][0]).value
                if struct.pack("<d", got) != struct.pack("<d", val) or struct.pack("<d", v.lrescale) != struct.pack("<d", val):
                    bad(st, "Variation", "lrescale", "lrescale = %r: C holds %r, reads back %r" % (val, got, v.lrescale))
        except Exception as e:
            bad(st, "Variation", "add_variation", "N=%d: raised %r" % (N, e))
    # a variation set on an EMPTY simulation: either refused with an exception or a consistent empty view; never foreign memory
    sim = rebound.Simulation()
    out["checked"][st] += 1
    try:
        v = sim.add_variation()
        b = ctypes.addressof(sim)
        if ctypes.c_uint.from_address(b + co["reb_simulation"]["N"][0]).value != 0:
            bad(st, "Variation", "add_variation", "N=0: add_variation created particles")
        try:
            n_ = len(v.particles)
            if n_ != 0:
                bad(st, "Variation", "particles", "N=0: the view has %d elements" % n_)
        except (ValueError, AttributeError):
            pass        # NULL particle array: refusing is fine
    except Exception:
        pass
    # the last particle as a test particle; a test-particle index out of range must not hand out foreign memory
    sim = rebound.Simulation()
    for i in range(3): sim.add(m=1.0 + i, x=float(i))
    out["checked"][st] += 1
    v = sim.add_variation(testparticle=2)
    b = ctypes.addressof(sim); pbase = ctypes.c_void_p.from_address(b + off_pp).value
    if len(v.particles) != 1 or ctypes.addressof(v.particles[0]) != pbase + 3 * pstride:
        bad(st, "Variation", "particles", "test particle = last particle: view is not C particles[3]")
    print("C18EDGES " + json.dumps(out))


if __name__ == "__main__":
    main()
