#!/venv/bin/python
"""Regression of the repaired defects: for every `fixed` entry of known_findings.json, re-introduce the defect by
reverting its /repo commit on a scratch worktree of the current HEAD and run the owning property's quick check on it.
A fixed entry suppresses nothing, so the check must report a VIOLATION again.

  tools/revertall.py [-j 4] [--only COMMIT,COMMIT] [--tier quick]

Results: build/revert_regression.json (commit, property, applies, compiles, caught, violation lines, wall).
Reverts that no longer apply (later fixes rewrote the same lines) are recorded as such, not as misses.
Runs each check from a private copy of /verif (like tools/seedtest.py); worktrees and copies live under /tmp and are removed."""
import argparse, json, os, shutil, subprocess, sys, time
from concurrent.futures import ThreadPoolExecutor
ROOT = os.path.dirname(os.path.dirname(os.path.abspath(__file__)))

def sh(cmd, **kw):
    return subprocess.run(cmd, shell=True, capture_output=True, text=True, **kw)

def one(job):
    commit, props, tier = job
    wt = "/tmp/rev_" + commit; vcopy = "/tmp/vrev_" + commit
    res = {"commit": commit, "properties": props, "subject": sh("git -C /repo log -1 --format=%%s %s" % commit).stdout.strip()}
    sh("git -C /repo worktree remove --force %s" % wt); shutil.rmtree(wt, ignore_errors=True)
    r = sh("git -C /repo worktree add -q --detach %s HEAD" % wt)
    if r.returncode != 0:
        res["error"] = r.stderr[-300:]; return res
    try:
        r = sh("git -C /repo show -R --format= %s > %s.patch && git -C %s apply %s.patch" % (commit, wt, wt, wt))
        if r.returncode != 0:
            r = sh("git -C %s apply -3 %s.patch" % (wt, wt))
        res["applies"] = r.returncode == 0
        if not res["applies"]:
            return res
        shutil.rmtree(vcopy, ignore_errors=True)
        sh("rsync -a --exclude build --exclude .git %s/ %s/" % (ROOT, vcopy))
        res["checks"] = {}
        for c in props:
            t0 = time.time()
            r = subprocess.run(["./check", c, "--tier", tier], cwd=vcopy, env=dict(os.environ, VERIF_REPO=wt), capture_output=True, text=True)
            vio = [l for l in r.stdout.splitlines() if l.startswith("VIOLATION")]
            res["checks"][c] = {"exit": r.returncode, "violation_lines": [v.replace(vcopy, "<copy>") for v in vio][:4],
                                "no_failing_input": any("no-failing-input-found" in v for v in vio),
                                "wall_s": round(time.time() - t0, 1), "caught": r.returncode == 1 and bool(vio)}
        res["caught"] = any(v["caught"] for v in res["checks"].values())
    finally:
        shutil.rmtree(vcopy, ignore_errors=True)
        sh("git -C /repo worktree remove --force %s" % wt); shutil.rmtree(wt, ignore_errors=True)
        try: os.remove(wt + ".patch")
        except OSError: pass
    return res

def main():
    ap = argparse.ArgumentParser(); ap.add_argument("-j", type=int, default=4); ap.add_argument("--only", default=None); ap.add_argument("--tier", default="quick")
    a = ap.parse_args()
    kf = json.load(open(os.path.join(ROOT, "known_findings.json")))["findings"]
    by_commit = {}
    for f in kf:
        if f.get("status") == "fixed":
            c = f.get("commit")
            if not c:
                import re
                m = re.search(r"fixed: property=C\d+ (?:/repo )?([0-9a-f]{7,40})\b", f.get("what", ""))
                c = m.group(1) if m else None
            if not c: continue
            c = c[:7]
            by_commit.setdefault(c, [])
            if f["property"] not in by_commit[c]: by_commit[c].append(f["property"])
    if a.only: by_commit = {c: p for c, p in by_commit.items() if c in a.only.split(",")}
    jobs = [(c, p, a.tier) for c, p in by_commit.items()]
    out = []
    outp = os.path.join(ROOT, "build", "revert_regression.json")
    if a.only and os.path.exists(outp):
        # partial re-run: keep the other rows of the last sweep
        out = [r for r in json.load(open(outp))["results"] if r["commit"] not in by_commit]
    with ThreadPoolExecutor(a.j) as ex:
        for res in ex.map(one, jobs):
            out.append(res)
            print(res["commit"], ",".join(res["properties"]), "applies=%s" % res.get("applies"), "caught=%s" % res.get("caught"), res.get("subject", "")[:70], flush=True)
            json.dump({"head": sh("git -C /repo rev-parse --short HEAD").stdout.strip(), "results": out}, open(outp, "w"), indent=1)
    sh("git -C /repo worktree prune")
    shutil.copy(outp, os.path.join(ROOT, "seeded", "_reverts.json"))
    n = len(out); ap_ = [r for r in out if r.get("applies")]
    print("%d fix commits; %d reverts apply on HEAD; %d of those re-detected; missed: %s" %
          (n, len(ap_), sum(1 for r in ap_ if r.get("caught")), [r["commit"] for r in ap_ if not r.get("caught")]))

if __name__ == "__main__":
    main()
