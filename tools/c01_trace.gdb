set pagination off
set confirm off
set breakpoint pending on
set print frame-arguments none
break reb_whfast_kepler_step
commands
silent
printf "OP K %.17g\n", _dt
continue
end
break reb_whfast_interaction_step
commands
silent
printf "OP I %.17g\n", _dt
continue
end
break reb_whfast_com_step
commands
silent
printf "OP C %.17g\n", _dt
continue
end
break reb_whfast_jump_step
commands
silent
printf "OP J %.17g\n", _dt
continue
end
break reb_integrator_eos_drift_shell0
commands
silent
printf "OP D0 %.17g\n", _dt
continue
end
break reb_integrator_eos_interaction_shell0
commands
silent
printf "OP I0 %.17g %.17g\n", y, v
continue
end
break reb_integrator_eos_drift_shell1
commands
silent
printf "OP D1 %.17g\n", dt
continue
end
break reb_integrator_eos_interaction_shell1
commands
silent
printf "OP I1 %.17g %.17g\n", y, v
continue
end
break integrator_janus.c:drift
commands
silent
printf "OP JD %.17g\n", dt
continue
end
break integrator_janus.c:kick
commands
silent
printf "OP JK %.17g\n", dt
continue
end
break reb_integrator_mercurius_interaction_step
commands
silent
printf "OP HI %.17g\n", dt
continue
end
break reb_integrator_mercurius_jump_step
commands
silent
printf "OP HJ %.17g\n", dt
continue
end
break reb_integrator_mercurius_kepler_step
commands
silent
printf "OP HK %.17g\n", dt
continue
end
break reb_integrator_mercurius_com_step
commands
silent
printf "OP HC %.17g\n", dt
continue
end
break reb_integrator_trace_interaction_step
commands
silent
printf "OP HI %.17g\n", dt
continue
end
break reb_integrator_trace_jump_step
commands
silent
printf "OP HJ %.17g\n", dt
continue
end
break reb_integrator_trace_kepler_step
commands
silent
printf "OP HK %.17g\n", _dt
continue
end
break reb_integrator_trace_com_step
commands
silent
printf "OP HC %.17g\n", dt
continue
end
break reb_integrator_whfast_from_inertial
commands
silent
printf "OP F 0\n"
continue
end
run
quit
