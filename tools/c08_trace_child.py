"""C08 child process: TRACE integrating BACKWARD through a pericentre switch (the sub-integration must follow the direction
of time).  A run to -T must be the mirror image of the velocity-reversed run to +T.  Child process: an older library
segfaulted here (reb_ode_free(NULL)).  argv: libdir peri_mode dt T ; prints 'maxdiff <x> t <t> status <s>'."""
import sys
libdir, peri, dt, T = sys.argv[1], sys.argv[2], float(sys.argv[3]), float(sys.argv[4])
sys.path.insert(0, libdir)
import rebound, warnings
warnings.simplefilter("ignore")
def mk(flip):
    sim = rebound.Simulation()
    sim.add(m=1.0); sim.add(m=1e-3, a=1.0, e=0.05); sim.add(m=1e-4, a=2.7, e=0.3, f=1.0)
    sim.move_to_com()
    if flip:
        for p in sim.particles: p.vx, p.vy, p.vz = -p.vx, -p.vy, -p.vz
    sim.integrator = "trace"; sim.ri_trace.peri_mode = peri; sim.dt = dt if not flip else -dt
    return sim
a = mk(False); b = mk(True)
sa = sb = 0
try: a.integrate(-T)
except Exception: pass
try: b.integrate(+T)
except Exception: pass
d = 0.0
for p, q in zip(a.particles, b.particles):
    d = max(d, abs(p.x - q.x), abs(p.y - q.y), abs(p.z - q.z), abs(p.vx + q.vx), abs(p.vy + q.vy), abs(p.vz + q.vz))
print("maxdiff %r t %r %r status %d %d" % (d, a.t, b.t, a._status, b._status))
