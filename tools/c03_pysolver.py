"""Python (binary64) transcription of reb_whfast_kepler_solver, used ONLY to steer case generation
(predict which solver branch an input takes, so that the generator can balance the branch histogram
before the expensive Coq evaluation).  It is not part of the trusted chain: the branch labels recorded in
the evidence come from the Coq model, the comparison is Coq model vs compiled library."""
import math

TWOPI = 2.0 * math.pi
INVF = [1.0, 1.0] + [1.0 / math.factorial(k) for k in range(2, 16)]
QFUEL = 540
BFUEL = 2200


def fastabs(x):
    return x if x > 0.0 else -x


def cs3(z):
    n = 0
    if not math.isfinite(z):          # fix 805dfda: if (!isfinite(z)) { cs[0..3] = nan; return; }
        nan = float("nan")
        return nan, nan, nan, nan
    while abs(z) > 0.1:
        z = z / 4.0
        n += 1
        if n > QFUEL:
            raise OverflowError("hang")
    c_odd = INVF[13]
    c_even = INVF[12]
    for np_ in (11, 9, 7, 5, 3):
        c_odd = INVF[np_] - z * c_odd
        c_even = INVF[np_ - 1] - z * c_even
    c3 = c_odd
    c2 = c_even
    c1 = INVF[1] - z * c_odd
    c0 = INVF[0] - z * c_even
    for _ in range(n):
        c3 = (c2 + c0 * c3) * 0.25
        c2 = c1 * c1 * 0.5
        c1 = c0 * c1
        c0 = 2.0 * c0 * c0 - 1.0
    return c0, c1, c2, c3


def gs3(beta, X):
    X2 = X * X
    c0, c1, c2, c3 = cs3(beta * X2)
    return c0, c1 * X, c2 * X2, c3 * (X2 * X)


def div(a, b):
    try:
        return a / b
    except ZeroDivisionError:
        if a != a or a == 0.0:
            return float("nan")
        s = math.copysign(1.0, a) * math.copysign(1.0, b)
        return s * float("inf")


def sqrt(x):
    if x != x:
        return x
    if x < 0:
        return float("nan")
    return math.sqrt(x)


def solve(p, M, dt):
    """returns (new state, code, iters, biters); code as in coq/C03/Run.v code_of"""
    x, y, z, vx, vy, vz = p
    r0 = sqrt(x * x + y * y + z * z)
    r0i = div(1.0, r0)
    v2 = vx * vx + vy * vy + vz * vz
    beta = 2.0 * M * r0i - v2
    eta0 = x * vx + y * vy + z * vz
    zeta0 = M - beta * r0
    ell = beta > 0.0
    invperiod = 0.0
    Xpp = float("nan")
    if ell:
        sb = sqrt(beta)
        invperiod = div(sb * beta, TWOPI * M)
        Xpp = div(TWOPI, sb)
        dtr0i = dt * r0i
        X = dtr0i * (1.0 - dtr0i * eta0 * 0.5 * r0i)
    else:
        X = 0.0
    conv = False
    oldX = X
    G = gs3(beta, X)
    e12 = eta0 * G[1] + zeta0 * G[2]
    ri = div(1.0, r0 + e12)
    X = ri * (X * e12 - eta0 * G[2] - zeta0 * G[3] + dt)
    iters = 0
    biters = 0
    quart = fastabs(X - oldX) > 0.01 * Xpp
    if quart:
        X = div(beta * dt, M)
        prev = []
        for n_lag in range(1, 64):
            G = gs3(beta, X)
            f = r0 * X + eta0 * G[2] + zeta0 * G[3] - dt
            fp = r0 + eta0 * G[1] + zeta0 * G[2]
            fpp = eta0 * G[0] + zeta0 * G[1]
            denom = fp + sqrt(abs(16.0 * fp * fp - 20.0 * f * fpp))
            X = div(X * denom - 5.0 * f, denom)
            iters += 1
            if any(X == q for q in prev):
                conv = True
                break
            prev.append(X)
        e12 = eta0 * G[1] + zeta0 * G[2]
        ri = div(1.0, r0 + e12)
    else:
        for n_hg in range(1, 32):
            oldX2 = oldX
            oldX = X
            G = gs3(beta, X)
            e12 = eta0 * G[1] + zeta0 * G[2]
            ri = div(1.0, r0 + e12)
            X = ri * (X * e12 - eta0 * G[2] - zeta0 * G[3] + dt)
            iters += 1
            if X == oldX or X == oldX2:
                conv = True
                break
    bfuel = False
    if not conv:
        shrink_far = False
        if ell:
            Xmin = Xpp * math.floor(dt * invperiod) if math.isfinite(dt * invperiod) else Xpp * (dt * invperiod)
            Xmax = Xmin + Xpp
        else:
            h2 = r0 * r0 * v2 - eta0 * eta0
            e2 = 1.0 - div(h2 * beta, M * M)
            q = div(div(h2, M), 1.0 + sqrt(e2))
            shrink_far = e2 < 1e16          # fix 0366be3
            vq = math.copysign(div(sqrt(h2), q), dt)
            Xmin = div(dt, fastabs(vq * dt) + r0)
            Xmax = div(dt, q)
            if dt < 0.0:
                Xmin, Xmax = Xmax, Xmin
        X = (Xmax + Xmin) / 2.0
        while True:
            G = gs3(beta, X)
            s = r0 * X + eta0 * G[2] + zeta0 * G[3] - dt
            if shrink_far and not math.isfinite(s):
                if dt > 0.0:
                    Xmax = X
                else:
                    Xmin = X
            elif s >= 0.0:
                Xmax = X
            else:
                Xmin = X
            X = (Xmax + Xmin) / 2.0
            biters += 1
            if not (fastabs(Xmax - Xmin) > fastabs((Xmax + Xmin) * 1e-15)):
                break
            if biters >= BFUEL:
                bfuel = True
                break
        e12 = eta0 * G[1] + zeta0 * G[2]
        ri = div(1.0, r0 + e12)
    rescue = ri != ri
    G = list(G)
    if rescue:
        ri = 0.0
        G[1] = G[2] = G[3] = 0.0
    f = -M * G[2] * r0i
    g = dt - M * G[3]
    fd = -M * G[1] * r0i * ri
    gd = -M * G[2] * ri
    out = (x + (f * x + g * vx), y + (f * y + g * vy), z + (f * z + g * vz),
           vx + (fd * x + gd * vx), vy + (fd * y + gd * vy), vz + (fd * z + gd * vz))
    path = (1 if quart else 0) if conv else (4 if quart else (2 if ell else 3))
    code = path + (10 if rescue else 0) + (1000 if bfuel else 0)
    return out, code, iters, biters


def predict(p, M, dt):
    try:
        return solve(p, M, dt)[1]
    except OverflowError as e:
        return 100 if str(e) == "hang" else -1
    except (ValueError, ZeroDivisionError):
        return -1
