#!/venv/bin/python
"""Regenerate coq/Gen/UsesTree.v from $VERIF_REPO/src (fail-closed).

Every place where the C code DECIDES whether the spatial tree is maintained, and every module that CONSUMES the tree:

  * enum values of REB_GRAVITY_* / REB_COLLISION_* from rebound.h;
  * decision sites: every `if (...)` condition in src/*.c (outside `case` labels) that compares r->gravity / r->collision
    with a *_TREE / *_LINETREE constant.  The condition TEXT is parsed by a small grammar
        cond := conj ('||' conj)* ; conj := atom ('&&' atom)* ;
        atom := r->gravity==REB_GRAVITY_X | r->collision==REB_COLLISION_X | r->tree_needs_update | r->tree_root!=NULL | '(' cond ')'
    and emitted as a Coq term; anything else -> exit 1.  The enclosing function must be one of the KNOWN sites with a known
    role (maintain / maintain-or-pending-update / gravity-data); a new or vanished site -> exit 1 (the model has to be
    extended by hand, the check fails closed until then);
  * consumers: the `case REB_COLLISION_X:` blocks of reb_collision_search and the `case REB_GRAVITY_X:` blocks of
    reb_calculate_acceleration whose text mentions tree_root / reb_simulation_update_tree or calls a file-level function of
    the same file that does;
  * the callers of reb_tree_delete (must be exactly the known, unconditional ones).
"""
import os, re, sys

REPO = os.environ.get("VERIF_REPO", "/repo")
ROOT = os.path.dirname(os.path.dirname(os.path.abspath(__file__)))
SRC = os.path.join(REPO, "src")
OUT = os.path.join(ROOT, "coq", "Gen", "UsesTree.v")

# function -> list of roles, in source order
KNOWN_SITES = {
    ("input.c", "reb_input_fields"): ["maintain"],                      # rebuild after restore / copy
    ("particle.c", "reb_simulation_add_local_store"): ["maintain"],     # insert a particle (new: reb_simulation_add_local; re-inserted by the tree update: reb_simulation_reinsert_particle)
    ("rebound.c", "reb_simulation_step"): ["maintain_or_pending", "gravity_data", "maintain_or_pending"],   # mid-step, gravity data, end of step
    ("tools.c", "reb_simulation_move_to_com"): ["maintain"],
}
KNOWN_DELETE_CALLERS = {("input.c", "reb_input_fields"), ("rebound.c", "reb_simulation_free_pointers"),
                        ("particle.c", "reb_simulation_remove_all_particles")}


def die(m):
    print("translate_usestree: " + m, file=sys.stderr)
    sys.exit(1)


def strip_comments(s):
    s = re.sub(r"/\*.*?\*/", lambda m: re.sub(r"[^\n]", " ", m.group(0)), s, flags=re.S)
    return re.sub(r"//[^\n]*", "", s)


def functions(text):
    """[(name, start, end)] of file-level function bodies (brace matching from a column-0 definition line)."""
    out = []
    for m in re.finditer(r"^(?:static\s+)?[A-Za-z_][\w\s\*]*?\b(\w+)\s*\([^;{}]*\)\s*\{", text, re.M):
        if m.group(1) in ("if", "for", "while", "switch"):
            continue
        i = m.end() - 1
        depth = 0
        j = i
        while j < len(text):
            if text[j] == "{":
                depth += 1
            elif text[j] == "}":
                depth -= 1
                if depth == 0:
                    break
            j += 1
        if depth != 0:
            die("unbalanced braces in function %s" % m.group(1))
        out.append((m.group(1), m.start(), j + 1))
    return out


def enclosing(funcs, pos):
    for name, a, b in funcs:
        if a <= pos < b:
            return name
    return None


# ---------------------------------------------------------------- enums
hdr = strip_comments(open(os.path.join(SRC, "rebound.h")).read())
grav = dict((m.group(1), int(m.group(2))) for m in re.finditer(r"\bREB_GRAVITY_(\w+)\s*=\s*(\d+)", hdr))
coll = dict((m.group(1), int(m.group(2))) for m in re.finditer(r"\bREB_COLLISION_(\w+)\s*=\s*(\d+)", hdr))
if "TREE" not in grav or "TREE" not in coll or "LINETREE" not in coll or len(grav) < 4 or len(coll) < 4:
    die("enums REB_GRAVITY_* / REB_COLLISION_* not found as expected in rebound.h")


# ---------------------------------------------------------------- condition grammar
class P:
    def __init__(self, s, where):
        self.toks = re.findall(r"\|\||&&|==|!=|\(|\)|->|[A-Za-z_]\w*|\S", s)
        self.i = 0; self.where = where; self.s = s

    def peek(self):
        return self.toks[self.i] if self.i < len(self.toks) else None

    def eat(self, t=None):
        x = self.peek()
        if x is None or (t is not None and x != t):
            die("%s: cannot parse condition %r (expected %r, found %r)" % (self.where, self.s, t, x))
        self.i += 1
        return x

    def cond(self):
        a = self.conj()
        while self.peek() == "||":
            self.eat(); a = "(COr %s %s)" % (a, self.conj())
        return a

    def conj(self):
        a = self.atom()
        while self.peek() == "&&":
            self.eat(); a = "(CAnd %s %s)" % (a, self.atom())
        return a

    def atom(self):
        if self.peek() == "(":
            self.eat(); a = self.cond(); self.eat(")"); return a
        self.eat("r"); self.eat("->")
        f = self.eat()
        if f == "tree_needs_update":
            return "CPending"
        if f == "tree_root":
            self.eat("!="); self.eat("NULL"); return "CRoot"
        if f == "gravity":
            self.eat("=="); c = self.eat()
            if not c.startswith("REB_GRAVITY_") or c[12:] not in grav:
                die("%s: unknown gravity constant %r" % (self.where, c))
            return "(CGrav %d)" % grav[c[12:]]
        if f == "collision":
            self.eat("=="); c = self.eat()
            if not c.startswith("REB_COLLISION_") or c[14:] not in coll:
                die("%s: unknown collision constant %r" % (self.where, c))
            return "(CColl %d)" % coll[c[14:]]
        die("%s: cannot parse condition %r (member %r)" % (self.where, self.s, f))


def parse_cond(s, where):
    p = P(s, where)
    t = p.cond()
    if p.peek() is not None:
        die("%s: trailing tokens in condition %r" % (where, s))
    return t


# ---------------------------------------------------------------- decision sites
sites = {}
delete_callers = set()
TREEK = re.compile(r"REB_GRAVITY_TREE|REB_COLLISION_TREE|REB_COLLISION_LINETREE")
for fn in sorted(os.listdir(SRC)):
    if not fn.endswith(".c"):
        continue
    text = strip_comments(open(os.path.join(SRC, fn)).read())
    funcs = None
    for m in TREEK.finditer(text):
        line_start = text.rfind("\n", 0, m.start()) + 1
        line_end = text.find("\n", m.end())
        line = text[line_start:line_end]
        if re.match(r"\s*case\s+REB_(GRAVITY|COLLISION)_\w+\s*:", line):
            continue
        # must be inside an if-condition on this line
        mi = re.match(r"\s*(?:\}\s*else\s+)?if\s*\((.*)\)\s*\{\s*$", line)
        if not mi:
            die("%s: use of a tree constant outside an `if (...) {` condition or a case label: %r" % (fn, line.strip()))
        if funcs is None:
            funcs = functions(text)
        f = enclosing(funcs, m.start())
        if f is None:
            die("%s: tree condition outside a function: %r" % (fn, line.strip()))
        key = (fn, f)
        lst = sites.setdefault(key, [])
        if not lst or lst[-1][0] != line_start:
            lst.append((line_start, parse_cond(mi.group(1), "%s:%s" % (fn, f)), mi.group(1).strip()))
    if fn != "tree.c":
        for m in re.finditer(r"\breb_tree_delete\s*\(", text):
            if funcs is None:
                funcs = functions(text)
            f = enclosing(funcs, m.start())
            if f is None:
                die("%s: reb_tree_delete called outside a function" % fn)
            delete_callers.add((fn, f))

if set(sites) != set(KNOWN_SITES):
    die("the set of functions deciding on the tree changed: found %s, known %s (extend KNOWN_SITES and the model by hand)"
        % (sorted(sites), sorted(KNOWN_SITES)))
for k, roles in KNOWN_SITES.items():
    if len(sites[k]) != len(roles):
        die("%s:%s has %d tree conditions, expected %d (%s)" % (k[0], k[1], len(sites[k]), len(roles), roles))
if delete_callers != KNOWN_DELETE_CALLERS:
    die("callers of reb_tree_delete changed: %s (known %s)" % (sorted(delete_callers), sorted(KNOWN_DELETE_CALLERS)))


# ---------------------------------------------------------------- consumers
def consumers(fn, func, prefix, table):
    text = strip_comments(open(os.path.join(SRC, fn)).read())
    funcs = functions(text)
    uses = set(n for n, a, b in funcs if re.search(r"\btree_root\b|\breb_simulation_update_tree\b", text[a:b]) and n != func)
    body = [(a, b) for n, a, b in funcs if n == func]
    if len(body) != 1:
        die("%s: function %s not found exactly once" % (fn, func))
    a, b = body[0]
    t = text[a:b]
    marks = [(m.start(), m.group(1)) for m in re.finditer(r"\bcase\s+%s(\w+)\s*:" % prefix, t)]
    if not marks:
        die("%s:%s has no `case %s*:` labels" % (fn, func, prefix))
    ends = [m.start() for m in re.finditer(r"\bdefault\s*:", t)]
    out = {}
    for k, (pos, name) in enumerate(marks):
        if name not in table:
            die("%s:%s: unknown constant %s%s" % (fn, func, prefix, name))
        nxt = min([p for p, _ in marks[k + 1:]] + [e for e in ends if e > pos] + [len(t)])
        blk = t[pos:nxt]
        # fall-through labels (case A: case B: body) share the body of the next label
        is_c = bool(re.search(r"\btree_root\b|\breb_simulation_update_tree\b", blk)) or any(re.search(r"\b%s\s*\(" % re.escape(u), blk) for u in uses)
        out[name] = out.get(name, False) or is_c
        if re.fullmatch(r"case\s+%s\w+\s*:\s*" % prefix, blk):        # empty block: falls through
            out[name] = None
    # resolve fall-through
    names = [n for _, n in marks]
    for k in range(len(names) - 1, -1, -1):
        if out[names[k]] is None:
            out[names[k]] = out[names[k + 1]] if k + 1 < len(names) and out[names[k + 1]] is not None else False
    return sorted(table[n] for n, v in out.items() if v)


ccons = consumers("collision.c", "reb_collision_search", "REB_COLLISION_", coll)
gcons = consumers("gravity.c", "reb_calculate_acceleration", "REB_GRAVITY_", grav)
if not ccons or not gcons:
    die("no tree consumer found in reb_collision_search / reb_calculate_acceleration (ccons=%s gcons=%s)" % (ccons, gcons))

# ---------------------------------------------------------------- emit
L = []
L.append("(* GENERATED by tools/translate_usestree.py from %s/src -- do not edit. *)" % "$VERIF_REPO")
L.append("From Coq Require Import ZArith List String.\nImport ListNotations.\nOpen Scope Z_scope.\nOpen Scope string_scope.\n")
L.append("Inductive tcond := CGrav (v : Z) | CColl (v : Z) | CPending | CRoot | COr (a b : tcond) | CAnd (a b : tcond).\n")
L.append("Definition gravity_values : list (string * Z) := [%s]." % "; ".join('("%s", %d)' % kv for kv in sorted(grav.items(), key=lambda kv: kv[1])))
L.append("Definition collision_values : list (string * Z) := [%s]." % "; ".join('("%s", %d)' % kv for kv in sorted(coll.items(), key=lambda kv: kv[1])))
L.append("Definition GRAVITY_TREE : Z := %d.\nDefinition COLLISION_TREE : Z := %d.\nDefinition COLLISION_LINETREE : Z := %d.\n" % (grav["TREE"], coll["TREE"], coll["LINETREE"]))
for role in ("maintain", "maintain_or_pending", "gravity_data"):
    items = []
    for k in sorted(KNOWN_SITES):
        for r_, (pos, term, txt) in zip(KNOWN_SITES[k], sites[k]):
            if r_ == role:
                items.append('(* %s *)\n   ("%s:%s", %s)' % (txt.replace("*)", "* )"), k[0], k[1], term))
    L.append("Definition sites_%s : list (string * tcond) := [\n   %s]." % (role, ";\n   ".join(items)))
L.append("\n(* modules whose search / force loop walks tree_root *)")
L.append("Definition collision_consumers : list Z := [%s]." % "; ".join(str(v) for v in ccons))
L.append("Definition gravity_consumers : list Z := [%s]." % "; ".join(str(v) for v in gcons))
L.append("Definition tree_delete_callers : list string := [%s]." % "; ".join('"%s:%s"' % k for k in sorted(delete_callers)))
os.makedirs(os.path.dirname(OUT), exist_ok=True)
new = "\n".join(L) + "\n"
if not os.path.exists(OUT) or open(OUT).read() != new:
    open(OUT, "w").write(new)
print("translate_usestree: %d decision sites, collision consumers %s, gravity consumers %s" % (sum(len(v) for v in sites.values()), ccons, gcons))
