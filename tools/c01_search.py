"""C01 searcher (library only): measured convergence order over a lattice of integrator options.

Run as a child process with PYTHONPATH = freshly built library dir:   c01_search.py <seed> <tier>
Prints one JSON object: {"points": [...], "failures": [...]}.  Validation, not proof.

For every lattice point a well-separated 3-body system (star + 2 planets, optionally + a test particle) is integrated
over a fixed horizon T with n, 2n, 4n fixed steps (both signs of dt for a subset) and compared with a reference
(IAS15, epsilon 1e-9, min_dt tiny).  With errors e1 > e2 > e3 the observed slopes log2(e1/e2), log2(e2/e3) must be
>= p_min - margin, where p_min is the smallest exponent of the advertised error terms (e.g. 4 for SABA(10,6,4),
2 for WH + corrector).  Only judged where the errors are above the rounding floor.
"""
import json, math, random, sys
import rebound

import os

_PROGRESS = os.environ.get("C01_PROGRESS")


def progress(name, **opts):
    """heartbeat: the scenario about to run is appended to $C01_PROGRESS, so that a hang or a crash of the library can be
    reported by the harness with the concrete input that was running."""
    if _PROGRESS:
        with open(_PROGRESS, "a") as f:
            f.write(json.dumps(dict(opts, name=name), default=str) + "\n")
            f.flush(); os.fsync(f.fileno())


_RS = [12345]


def det(sim):
    """the library seeds sim.rand_seed from clock and pid; the order in which the collisions of one search are resolved depends on
    it.  Every simulation built here gets a fixed value (a history object and its fresh counterpart the same one)."""
    sim.rand_seed = _RS[0]
    return sim


FLOOR = 3e-12     # errors below this are rounding dominated: not judged
MARGIN = 0.75


def make_system(seed, tp=False, G=1.0, tpcfg=None):
    """tp=True (legacy): 3 active bodies + one massless outer test particle.
    tpcfg=(mode, type): mode 'A' = star + 2 planets active + 1 outer test particle;
                        mode 'B' = star + planet 1 active (N_active = 2), planet 2 and an outer body are test particles.
    type 0: test particles are massless; type 1: they keep a non-zero mass and act back on the active bodies."""
    rng = random.Random(seed)
    sim = det(rebound.Simulation())
    sim.G = G
    sim.add(m=1.0)
    a1 = rng.uniform(0.9, 1.1)
    m1 = 10 ** rng.uniform(-3.3, -2.7); m2 = 10 ** rng.uniform(-3.6, -3.0)
    el1 = dict(a=a1, e=rng.uniform(0.0, 0.12), inc=rng.uniform(0, 0.1), omega=rng.uniform(0, 6.28), Omega=rng.uniform(0, 6.28), f=rng.uniform(0, 6.28))
    el2 = dict(a=a1 * rng.uniform(1.7, 2.1), e=rng.uniform(0.0, 0.1), inc=rng.uniform(0, 0.1), omega=rng.uniform(0, 6.28), Omega=rng.uniform(0, 6.28), f=rng.uniform(0, 6.28))
    f3 = rng.uniform(0, 6.28)
    if tpcfg is None:
        sim.add(m=m1, **el1)
        sim.add(m=m2, **el2)
        if tp:
            sim.add(m=0.0, a=a1 * 3.1, e=0.05, inc=0.03, f=f3)
            sim.N_active = 3
    else:
        mode, typ = tpcfg
        mt = 3e-4 if typ == 1 else 0.0
        sim.add(m=m1, **el1)
        if mode == "A":
            sim.add(m=m2, **el2)
            sim.N_active = 3
        else:
            sim.N_active = 2
            sim.add(m=(m2 if typ == 1 else 0.0), **el2)
        sim.add(m=mt, a=a1 * 3.1, e=0.05, inc=0.03, f=f3)
        sim.testparticle_type = typ
    sim.move_to_com()
    return sim


def state(sim):
    return [(p.x, p.y, p.z) for p in sim.particles]


def err(a, b):
    return max(math.sqrt(sum((u - v) ** 2 for u, v in zip(p, q))) for p, q in zip(a, b))


EVENTS = (0.25, 0.5, 0.75)      # user interventions at these fractions of the run


def user_edit(sim):
    """the particle edit used by the 'edit' intervention (same edit in the reference)"""
    p = sim.particles[2]
    p.vx *= 1.001; p.vy *= 1.001; p.vz *= 1.001


def reference(seed, T, tp, G, tpcfg=None, edits=False):
    sim = make_system(seed, tp, G, tpcfg)
    sim.integrator = "ias15"
    sim.ri_ias15.epsilon = 1e-9
    sim.ri_ias15.min_dt = 0
    sim.dt = math.copysign(0.01, T)
    if edits:
        for f in EVENTS:
            sim.integrate(T * f, exact_finish_time=1)
            user_edit(sim)
    sim.integrate(T, exact_finish_time=1)
    return state(sim)


def set_recalc(sim):
    k = sim.integrator
    if k in ("whfast", "saba"):
        sim.ri_whfast.recalculate_coordinates_this_timestep = 1
    elif k == "mercurius":
        sim.ri_mercurius.recalculate_coordinates_this_timestep = 1
    elif k == "janus":
        sim.ri_janus.recalculate_integer_coordinates_this_timestep = 1


def intervene(sim, pt, which):
    """user interventions between steps on ONE simulation object (all documented):
       recalc: raise the integrator's recalculate-coordinates flag (while unsynchronized if safe_mode = 0);
       edit:   synchronize, edit a particle, raise the flag;
       switch: synchronize, switch to another integrator / option set of the same order, and back at the next event."""
    kind = pt["interventions"]
    if kind == "recalc":
        set_recalc(sim)
    elif kind == "edit":
        sim.synchronize(); user_edit(sim); set_recalc(sim)
    elif kind == "switch":
        sim.synchronize()
        alt = pt["switch_to"]
        cur = dict(alt) if which % 2 == 0 else {k2: v for k2, v in pt.items() if k2 in alt}
        configure(sim, dict(pt, **cur))
        set_recalc(sim)


def configure(sim, pt):
    k = pt["integrator"]
    sim.integrator = k
    if k == "whfast":
        sim.ri_whfast.kernel = pt.get("kernel", 0)
        sim.ri_whfast.corrector = pt.get("corrector", 0)
        sim.ri_whfast.corrector2 = pt.get("corrector2", 0)
        sim.ri_whfast.coordinates = pt.get("coordinates", 0)
        sim.ri_whfast.safe_mode = pt.get("safe_mode", 1)
    elif k == "saba":
        sim.ri_saba.type = pt["type"]
        sim.ri_saba.safe_mode = pt.get("safe_mode", 1)
    elif k == "eos":
        sim.ri_eos.phi0 = pt["phi0"]; sim.ri_eos.phi1 = pt["phi1"]; sim.ri_eos.n = pt["n"]
        sim.ri_eos.safe_mode = pt.get("safe_mode", 1)
    elif k == "janus":
        sim.ri_janus.order = pt["order"]
        sim.ri_janus.scale_pos = 1e-16; sim.ri_janus.scale_vel = 1e-16
    elif k == "mercurius":
        sim.ri_mercurius.r_crit_hill = 3
        sim.ri_mercurius.safe_mode = pt.get("safe_mode", 1)
    elif k == "trace":
        pass
    if pt.get("testparticle_type") is not None:
        sim.testparticle_type = pt["testparticle_type"]


def run_fixed(seed, pt, T, nsteps):
    sim = make_system(seed, pt.get("tp", False), pt.get("G", 1.0), tuple(pt["tpcfg"]) if pt.get("tpcfg") else None)
    configure(sim, pt)
    sim.dt = T / nsteps
    if pt.get("interventions"):
        if nsteps % 4:
            return None
        for which in range(4):
            for _ in range(nsteps // 4):
                sim.step()
            if which < 3:
                intervene(sim, pt, which)
    else:
        sim.steps(nsteps)
    sim.synchronize()
    if abs(sim.t - T) > 1e-9 * abs(T):
        return None
    return state(sim)


def lattice(tier):
    P = []
    def add(name, pmin, n0, **kw):
        d = dict(kw); d["name"] = name; d["pmin"] = pmin; d["n0"] = n0
        P.append(d)
    add("leapfrog", 2, 64, integrator="leapfrog")
    # WHFast: kernels x correctors x coordinates (sampled)
    for coord in (0, 1, 2, 3):
        add("whfast/default/c0/coord%d" % coord, 2, 16, integrator="whfast", coordinates=coord)
    for corr in (3, 5, 7, 11, 17):
        add("whfast/default/c%d/jacobi" % corr, 2, 8, integrator="whfast", corrector=corr)
    add("whfast/default/c11/barycentric", 2, 8, integrator="whfast", corrector=11, coordinates=3)
    add("whfast/default/c17/unsafe", 2, 8, integrator="whfast", corrector=17, safe_mode=0)
    for kern, nm in ((1, "modifiedkick"), (2, "composition"), (3, "lazy")):
        add("whfast/%s/c0" % nm, 2, 8, integrator="whfast", kernel=kern)
        add("whfast/%s/c17" % nm, 2, 8, integrator="whfast", kernel=kern, corrector=17)
    add("whfast/lazy/c17/corrector2", 2, 8, integrator="whfast", kernel=3, corrector=17, corrector2=1)
    add("whfast/default/tp0", 2, 16, integrator="whfast", tp=True, testparticle_type=0)
    add("whfast/default/tp1", 2, 16, integrator="whfast", tp=True, testparticle_type=1)
    # SABA: all 18 types
    saba = {0x0: 2, 0x1: 2, 0x2: 2, 0x3: 2, 0x4: 4, 0x5: 4, 0x6: 4, 0x7: 4, 0x8: 4, 0x9: 4,
            0x100: 2, 0x101: 4, 0x102: 4, 0x103: 4, 0x200: 2, 0x201: 4, 0x202: 4, 0x203: 4}   # CM/CL n: (2n,4)
    for t, p in saba.items():
        add("saba/0x%x" % t, p, 8 if p == 2 else 4, integrator="saba", type=t)
    add("saba/0x6/unsafe", 4, 4, integrator="saba", type=6, safe_mode=0)
    # EOS: every phi0 with an accurate inner scheme; every phi1 with an accurate outer scheme
    eos = {0: 2, 1: 4, 2: 6, 3: 8, 4: 2, 5: 4, 6: 4, 7: 4, 8: 6}
    n0 = {0: 16, 1: 8, 2: 6, 3: 4, 4: 8, 5: 4, 6: 4, 7: 16, 8: 4}
    for phi0, p in eos.items():
        add("eos/phi0=%d/phi1=LF8,n=4" % phi0, p, n0[phi0], integrator="eos", phi0=phi0, phi1=3, n=4,
            **({"margin": 1.25} if phi0 == 7 else {}))     # PMLF4 approaches slope 4 slowly from below (3.2 .. 4.0 in the usable window)
    for phi1, p in eos.items():
        if phi1 in (4, 5, 6):
            continue      # graded inner schemes: the inner splitting has no small parameter; only judged as order 2/4 below
        add("eos/phi0=LF8/phi1=%d,n=2" % phi1, p, {0: 32, 1: 8, 2: 4, 3: 4, 7: 8, 8: 4}[phi1], integrator="eos", phi0=3, phi1=phi1, n=2)
    add("eos/phi0=LF8/phi1=4,n=3", 2, 16, integrator="eos", phi0=3, phi1=4, n=3)
    add("eos/phi0=LF8/phi1=5,n=2", 4, 4, integrator="eos", phi0=3, phi1=5, n=2)
    add("eos/phi0=LF8/phi1=6,n=2", 4, 4, integrator="eos", phi0=3, phi1=6, n=2)
    add("eos/phi0=LF/phi1=LF,n=4/unsafe", 2, 32, integrator="eos", phi0=0, phi1=0, n=4, safe_mode=0)
    # JANUS
    for o, n in ((2, 64), (4, 16), (6, 8), (8, 6), (10, 3)):
        add("janus/%d" % o, o, n, integrator="janus", order=o)
    # test-particle code paths: N_active < N, testparticle_type 0 (massless) and 1 (massive test particles acting back)
    for mode in ("A", "B"):
        for typ in (0, 1):
            tag = "tp%s%d" % (mode, typ); cfg = (mode, typ)
            add("leapfrog/" + tag, 2, 64, integrator="leapfrog", tpcfg=cfg)
            for coord in (0, 1, 2, 3):
                add("whfast/default/c0/coord%d/%s" % (coord, tag), 2, 16, integrator="whfast", coordinates=coord, tpcfg=cfg)
            add("whfast/default/c11/jacobi/" + tag, 2, 8, integrator="whfast", corrector=11, tpcfg=cfg)
            add("saba/0x6/" + tag, 4, 4, integrator="saba", type=6, tpcfg=cfg)
            add("saba/0x101/" + tag, 4, 8, integrator="saba", type=0x101, tpcfg=cfg)
            add("saba/0x201/" + tag, 4, 8, integrator="saba", type=0x201, tpcfg=cfg)
            add("eos/phi0=1/phi1=LF8,n=4/" + tag, 4, 8, integrator="eos", phi0=1, phi1=3, n=4, tpcfg=cfg)
            add("eos/phi0=5/phi1=LF8,n=4/" + tag, 4, 4, integrator="eos", phi0=5, phi1=3, n=4, tpcfg=cfg)
            add("eos/phi0=7/phi1=LF8,n=4/" + tag, 4, 32 if tag in ("tpA1", "tpB1") else 16, integrator="eos", phi0=7, phi1=3, n=4, margin=1.25, tpcfg=cfg)
            add("whfast/modifiedkick/c0/" + tag, 2, 8, integrator="whfast", kernel=1, tpcfg=cfg)
            add("whfast/lazy/c0/" + tag, 2, 8, integrator="whfast", kernel=3, tpcfg=cfg)
            add("whfast/composition/c11/" + tag, 2, 8, integrator="whfast", kernel=2, corrector=11, tpcfg=cfg)
            add("eos/phi0=8/phi1=LF8,n=4/" + tag, 6, 4, integrator="eos", phi0=8, phi1=3, n=4, tpcfg=cfg)
            add("eos/phi0=LF8/phi1=1,n=2/" + tag, 4, 8, integrator="eos", phi0=3, phi1=1, n=2, tpcfg=cfg)
            add("eos/phi0=LF8/phi1=7,n=2/" + tag, 4, 8, integrator="eos", phi0=3, phi1=7, n=2, tpcfg=cfg)
            add("eos/phi0=LF8/phi1=8,n=2/" + tag, 6, 4, integrator="eos", phi0=3, phi1=8, n=2, tpcfg=cfg)
            add("janus/4/" + tag, 4, 16, integrator="janus", order=4, tpcfg=cfg)
            add("mercurius/" + tag, 2, 16, integrator="mercurius", tpcfg=cfg)
    # user interventions between steps on one simulation object (three events per run)
    for kind in ("recalc", "edit"):
        add("whfast/unsafe/%s x3" % kind, 2, 16, integrator="whfast", safe_mode=0, interventions=kind)
        add("whfast/unsafe/c11/%s x3" % kind, 2, 8, integrator="whfast", safe_mode=0, corrector=11, interventions=kind)
        add("whfast/unsafe/dh/%s x3" % kind, 2, 16, integrator="whfast", safe_mode=0, coordinates=1, interventions=kind)
        add("saba/0x1/unsafe/%s x3" % kind, 2, 8, integrator="saba", type=1, safe_mode=0, interventions=kind)
        add("saba/0x6/unsafe/%s x3" % kind, 4, 4, integrator="saba", type=6, safe_mode=0, interventions=kind)
        add("mercurius/unsafe/%s x3" % kind, 2, 16, integrator="mercurius", safe_mode=0, interventions=kind)
        add("eos/LF4/unsafe/%s x3" % kind, 4, 8, integrator="eos", phi0=1, phi1=3, n=4, safe_mode=0, interventions=kind)
        add("janus/4/%s x3" % kind, 4, 16, integrator="janus", order=4, interventions=kind)
        add("leapfrog/%s x3" % kind, 2, 64, integrator="leapfrog", interventions=kind)
    add("whfast/unsafe <-> saba/0x1 x3", 2, 16, integrator="whfast", safe_mode=0, type=1, interventions="switch", switch_to={"integrator": "saba", "type": 1, "safe_mode": 0})
    add("whfast/unsafe corrector 0 <-> 11 x3", 2, 16, integrator="whfast", safe_mode=0, corrector=0, interventions="switch", switch_to={"corrector": 11})
    add("whfast/unsafe kernel default <-> composition x3", 2, 16, integrator="whfast", safe_mode=0, kernel=0, interventions="switch", switch_to={"kernel": 2})
    add("whfast safe_mode 0 <-> 1 x3", 2, 16, integrator="whfast", safe_mode=0, interventions="switch", switch_to={"safe_mode": 1})
    add("mercurius", 2, 16, integrator="mercurius")
    add("trace", 2, 16, integrator="trace")
    return P


def adaptive_checks(seed, T):
    """IAS15 / BS (+ a user ODE): error against the reference shrinks (does not grow) when the tolerance is tightened."""
    out = []
    progress("adaptive (ias15 / bs tolerance ladders)", system_seed=seed, T=T)
    ref = reference(seed, T, False, 1.0)
    errs = []
    for eps in (1e-3, 1e-6, 1e-9):
        sim = make_system(seed)
        sim.integrator = "ias15"; sim.ri_ias15.epsilon = eps; sim.dt = 0.05
        sim.integrate(T, exact_finish_time=1)
        errs.append(err(state(sim), ref))
    ok = errs[2] <= 1e-10 and errs[1] <= max(errs[0] * 2, 1e-10) and errs[2] <= max(errs[1] * 2, 1e-11)
    out.append({"name": "ias15/epsilon 1e-3,1e-6,1e-9", "errors": errs, "ok": ok})
    for cfg in (("B", 0), ("B", 1)):     # IAS15 / BS with test particles: compared with a 10x tighter run of the other integrator
        simr = make_system(seed, tpcfg=cfg)
        simr.integrator = "bs"; simr.ri_bs.eps_abs = 1e-13; simr.ri_bs.eps_rel = 1e-13; simr.dt = 0.01
        simr.integrate(T, exact_finish_time=1)
        sim = make_system(seed, tpcfg=cfg)
        sim.integrator = "ias15"; sim.dt = 0.05
        sim.integrate(T, exact_finish_time=1)
        e = err(state(sim), state(simr))
        out.append({"name": "ias15-vs-bs/tp%s%d" % cfg, "errors": [e], "ok": e <= 1e-9})
    for mode in (0, 1):      # adaptive_mode individual / global (documented modes 0..2+)
        sim = make_system(seed)
        sim.integrator = "ias15"; sim.ri_ias15.adaptive_mode = mode; sim.dt = 0.05
        sim.integrate(T, exact_finish_time=1)
        e = err(state(sim), ref)
        out.append({"name": "ias15/adaptive_mode=%d" % mode, "errors": [e], "ok": e <= 1e-10})
    errs = []
    for eps in (1e-4, 1e-7, 1e-10):
        sim = make_system(seed)
        sim.integrator = "bs"; sim.ri_bs.eps_abs = eps; sim.ri_bs.eps_rel = eps; sim.dt = 0.05
        sim.integrate(T, exact_finish_time=1)
        errs.append(err(state(sim), ref))
    ok = errs[2] <= 1e-7 and errs[1] <= max(errs[0] * 2, 1e-9) and errs[2] <= max(errs[1] * 2, 1e-10)
    out.append({"name": "bs/eps 1e-4,1e-7,1e-10", "errors": errs, "ok": ok})
    # user ODE advanced together with the N-body system: harmonic oscillator y'' = -y, exact solution cos t
    errs = []
    for eps in (1e-4, 1e-7, 1e-10):
        sim = make_system(seed)
        sim.integrator = "bs"; sim.ri_bs.eps_abs = eps; sim.ri_bs.eps_rel = eps; sim.dt = 0.05
        ode = sim.create_ode(length=2, needs_nbody=False)
        def rhs(ode, yDot, y, t):
            yDot[0] = y[1]; yDot[1] = -y[0]
        ode.derivatives = rhs
        ode.y[0] = 1.0; ode.y[1] = 0.0
        sim.integrate(T, exact_finish_time=1)
        errs.append(max(abs(ode.y[0] - math.cos(T)), abs(ode.y[1] + math.sin(T))))
    ok = errs[2] <= 1e-7 and errs[1] <= max(errs[0] * 2, 1e-9) and errs[2] <= max(errs[1] * 2, 1e-10)
    out.append({"name": "bs/user-ode harmonic oscillator eps 1e-4,1e-7,1e-10", "errors": errs, "ok": ok})
    return out


def ode_checks(seed, tier):
    """User-defined ODEs advanced together with the N-body system (docs: 'advanced to the exact same time as the N-body
    system using BS ... to achieve the tolerance set in ri_bs').  Harmonic oscillators y'' = -w^2 y with w*dt from 0.1
    (one BS sub-step per N-body step) to 50 (many sub-steps), both directions of time, three tolerances: the error against
    cos/sin evaluated AT sim.t must shrink with the tolerance and end small.  Plus an ODE that reads N-body positions."""
    rng = random.Random(seed ^ 0x0de)
    out = []
    def base(integ, dt, sign, typ=None):
        sim = make_system(seed)
        sim.integrator = integ
        if integ == "saba":
            sim.ri_saba.type = typ if typ is not None else 6
        sim.dt = sign * dt
        return sim
    def osc(integ, dt, w, T, eps, sign):
        progress("ode/%s" % integ, system_seed=seed, integrator=integ, dt=sign * dt, omega=w, T=sign * T, eps=eps,
                 what="harmonic oscillator y''=-w^2 y as user ODE, sim.integrate(T)")
        sim = base(integ, dt, sign)
        sim.ri_bs.eps_rel = eps; sim.ri_bs.eps_abs = eps
        ode = sim.create_ode(length=2, needs_nbody=False)
        def rhs(ode, yDot, y, t):
            yDot[0] = y[1]; yDot[1] = -w * w * y[0]
        ode.derivatives = rhs
        ode.y[0] = 1.0; ode.y[1] = 0.0
        sim.integrate(sign * T, exact_finish_time=1)
        return math.hypot(ode.y[0] - math.cos(w * sim.t), ode.y[1] / w + math.sin(w * sim.t))
    integs = ["whfast", "saba", "leapfrog", "mercurius", "ias15", "trace", "bs", "eos", "janus"]
    T = 1.0
    for integ in integs:
        for wdt in (0.1, 1.0, 7.0, 50.0):
            dt = rng.choice([0.05, 0.04, 0.0625])
            for sign in ((1, -1) if (tier != "quick" or wdt in (7.0, 50.0)) else (1,)):
                w = wdt / dt
                es = [osc(integ, dt, w, T, eps, sign) for eps in (1e-5, 1e-8, 1e-11)]
                bound = 1e-9 * max(1.0, w * T)        # eps = 1e-11 accumulates over ~ w T / few radians
                ok = (es[1] <= max(2 * es[0], 1e-10) and es[2] <= max(2 * es[1], 1e-12) and es[2] <= bound
                      and es[0] <= 1e-3 * max(1.0, w * T) * 1e-2 + 1e-4)
                out.append({"name": "ode/%s/w*dt=%g" % (integ, wdt), "sign": sign, "system_seed": seed, "errors": es, "ok": ok,
                            "options": {"integrator": integ, "dt": sign * dt, "omega": w, "T": sign * T, "eps": [1e-5, 1e-8, 1e-11]}})
    # JANUS probe (kept as its own point: it failed until /repo 6b44a1d, see known_findings order:ode/janus)
    es = [osc("janus", 0.05, 20.0, T, eps, 1) for eps in (1e-5, 1e-8, 1e-11)]
    out.append({"name": "ode/janus", "sign": 1, "system_seed": seed, "errors": es, "ok": es[2] <= 1e-7 and es[1] <= max(2 * es[0], 1e-10),
                "options": {"integrator": "janus", "dt": 0.05, "omega": 20.0, "T": T}})
    # an ODE that needs the N-body state: y' = x of planet 1.  Coupled (BS): error shrinks with eps.  Decoupled (WHFast etc.):
    # documented first-order coupling error (positions frozen at the end of the step): must at least halve when dt is halved twice.
    def nb(integ, dt, eps):
        progress("ode-nbody/%s" % integ, system_seed=seed, integrator=integ, dt=dt, eps=eps)
        sim = base(integ, dt, 1)
        sim.ri_bs.eps_rel = eps; sim.ri_bs.eps_abs = eps
        ode = sim.create_ode(length=1, needs_nbody=True)
        def rhs(ode, yDot, y, t):
            yDot[0] = ode.contents.r.contents.particles[1].x
        ode.derivatives = rhs
        ode.y[0] = 0.0
        sim.integrate(T, exact_finish_time=1)
        return ode.y[0]
    ref = nb("bs", 0.01, 1e-13)
    es = [abs(nb("bs", 0.05, eps) - ref) for eps in (1e-5, 1e-8, 1e-11)]
    out.append({"name": "ode-nbody/bs", "system_seed": seed, "errors": es,
                "ok": es[1] <= max(2 * es[0], 1e-10) and es[2] <= max(2 * es[1], 1e-11) and es[2] <= 1e-8})
    for integ in ("whfast", "leapfrog", "saba"):
        es = [abs(nb(integ, dt, 1e-10) - ref) for dt in (0.1, 0.05, 0.025)]
        out.append({"name": "ode-nbody/%s (first-order coupling)" % integ, "system_seed": seed, "errors": es,
                    "ok": es[2] <= 0.75 * es[0] or es[2] <= 1e-3})
    return out


WARN_COUNTERS = [("ri_whfast", "_timestep_warning"), ("ri_whfast", "_recalculate_coordinates_but_not_synchronized_warning"),
                 (None, "_odes_warnings"), ("ri_ias15", "_iterations_max_exceeded"), (None, "_var_rescale_warning")]


def bs_option_checks(seed, tier):
    """The documented BS step-size options ri_bs.min_dt / ri_bs.max_dt (and eps_abs / eps_rel extremes) with the requested step
    below, equal to and above them: for BS as the N-body integrator, for a user ODE next to every other N-body integrator,
    and for TRACE's BS pericentre modes.  Oracle: the same exact-solution / IAS15-reference comparison as elsewhere; a limit on the
    step size may cost time but must not cost accuracy: error <= 10 x the error of the same run without the option (+ floor)."""
    out = []
    rng = random.Random(seed ^ 0xb5)
    T = 2.0
    # ---- BS integrates the N-body system
    ref = reference(seed, T, False, 1.0)
    refb = reference(seed, -T, False, 1.0)
    def bs_run(sign, dt0, eps, min_dt, max_dt):
        progress("bs-options/nbody", system_seed=seed, T=sign * T, dt0=sign * dt0, eps=eps, min_dt=min_dt, max_dt=max_dt)
        sim = make_system(seed); sim.integrator = "bs"
        sim.ri_bs.eps_rel = eps; sim.ri_bs.eps_abs = eps; sim.ri_bs.min_dt = min_dt; sim.ri_bs.max_dt = max_dt
        sim.dt = sign * dt0
        sim.integrate(sign * T, exact_finish_time=1)
        return err(state(sim), ref if sign > 0 else refb)
    for eps in (1e-6, 1e-10, 1e-13):
        base = {sg: bs_run(sg, 0.05, eps, 0.0, 0.0) for sg in (1, -1)}
        for max_dt in (0.02, 0.05, 0.3):
            for dt0 in (0.5 * max_dt, max_dt, 7.0 * max_dt):
                for sg in ((1, -1) if tier != "quick" or dt0 > max_dt else (1,)):
                    e = bs_run(sg, dt0, eps, 0.0, max_dt)
                    out.append({"name": "bs-options/nbody/max_dt", "system_seed": seed, "errors": [e, base[sg]], "ok": e == e and e <= max(10 * base[sg] + 1e-11, 30 * eps),
                                "options": {"eps": eps, "max_dt": max_dt, "dt0": sg * dt0, "T": sg * T}})
        for min_dt in (1e-6, 1e-3):
            for dt0 in (0.5 * min_dt, min_dt, 50 * min_dt):
                e = bs_run(1, dt0, eps, min_dt, 0.0)
                out.append({"name": "bs-options/nbody/min_dt", "system_seed": seed, "errors": [e, base[1]], "ok": e == e and e <= max(10 * base[1] + 1e-11, 30 * eps),
                            "options": {"eps": eps, "min_dt": min_dt, "dt0": dt0, "T": T}})
        e = bs_run(1, 0.2, eps, 1e-4, 0.1)
        out.append({"name": "bs-options/nbody/min_dt+max_dt", "system_seed": seed, "errors": [e, base[1]], "ok": e == e and e <= max(10 * base[1] + 1e-11, 30 * eps),
                    "options": {"eps": eps, "min_dt": 1e-4, "max_dt": 0.1, "dt0": 0.2}})
    # ---- a user ODE (harmonic oscillator) next to every N-body integrator, BS sub-stepper limited by max_dt / min_dt
    def osc(integ, dt, w, eps, sign, min_dt, max_dt):
        progress("bs-options/ode/%s" % integ, system_seed=seed, integrator=integ, dt=sign * dt, omega=w, T=sign * 1.0, eps=eps, min_dt=min_dt, max_dt=max_dt)
        sim = make_system(seed); sim.integrator = integ
        if integ == "saba":
            sim.ri_saba.type = 6
        sim.dt = sign * dt
        sim.ri_bs.eps_rel = eps; sim.ri_bs.eps_abs = eps; sim.ri_bs.min_dt = min_dt; sim.ri_bs.max_dt = max_dt
        ode = sim.create_ode(length=2, needs_nbody=False)
        def rhs(ode, yDot, y, t):
            yDot[0] = y[1]; yDot[1] = -w * w * y[0]
        ode.derivatives = rhs
        ode.y[0] = 1.0; ode.y[1] = 0.0
        sim.integrate(sign * 1.0, exact_finish_time=1)
        return math.hypot(ode.y[0] - math.cos(w * sim.t), ode.y[1] / w + math.sin(w * sim.t))
    for integ in ("whfast", "saba", "leapfrog", "mercurius", "ias15", "trace", "eos", "janus", "bs"):
        dt = 0.05
        for w in (2.0, 40.0):
            b0 = osc(integ, dt, w, 1e-9, 1, 0.0, 0.0)
            for max_dt in (dt / 3.0, dt, 4.0 * dt):
                for sg in (1, -1):
                    e = osc(integ, dt, w, 1e-9, sg, 0.0, max_dt)
                    out.append({"name": "bs-options/ode/%s/max_dt" % integ, "system_seed": seed, "errors": [e, b0], "ok": e == e and e <= 10 * b0 + 1e-9,
                                "options": {"integrator": integ, "dt": sg * dt, "omega": w, "max_dt": max_dt}})
            e = osc(integ, dt, w, 1e-9, 1, 1e-5, 0.0)
            out.append({"name": "bs-options/ode/%s/min_dt" % integ, "system_seed": seed, "errors": [e, b0], "ok": e == e and e <= 10 * b0 + 1e-9,
                        "options": {"integrator": integ, "dt": dt, "omega": w, "min_dt": 1e-5}})
    # ---- TRACE with its BS pericentre modes on an eccentric orbit (the pericentre passage is handed to BS)
    def trace_run(peri_mode, max_dt, dt):
        progress("bs-options/trace", system_seed=seed, peri_mode=peri_mode, max_dt=max_dt, dt=dt)
        sim = det(rebound.Simulation()); sim.add(m=1.0); sim.add(m=1e-4, a=1.0, e=0.92, f=-2.2); sim.add(m=1e-4, a=4.0, e=0.05, f=1.0); sim.move_to_com()
        sim.integrator = "trace"; sim.ri_trace.peri_mode = peri_mode; sim.dt = dt
        sim.ri_bs.max_dt = max_dt
        sim.integrate(3.0, exact_finish_time=1)
        return state(sim)
    r3 = det(rebound.Simulation()); r3.add(m=1.0); r3.add(m=1e-4, a=1.0, e=0.92, f=-2.2); r3.add(m=1e-4, a=4.0, e=0.05, f=1.0); r3.move_to_com()
    r3.integrator = "ias15"; r3.integrate(3.0, exact_finish_time=1); ref3 = state(r3)
    for pm in (0, 1):
        b0 = err(trace_run(pm, 0.0, 0.02), ref3)
        for max_dt in (0.005, 0.02, 0.1):
            e = err(trace_run(pm, max_dt, 0.02), ref3)
            out.append({"name": "bs-options/trace/peri_mode=%d/max_dt" % pm, "system_seed": seed, "errors": [e, b0], "ok": e == e and e <= 10 * b0 + 1e-9,
                        "options": {"peri_mode": pm, "max_dt": max_dt, "dt": 0.02}})
    return out


def reset_warn_counters(sim):
    for sub, f in WARN_COUNTERS:
        setattr(getattr(sim, sub) if sub else sim, f, 0)


def read_warn_counters(sim):
    return {f: int(getattr(getattr(sim, sub) if sub else sim, f)) for sub, f in WARN_COUNTERS}


def warn_once_checks(seed, tier):
    """Behaviour must not depend on whether a warning has already been issued.  For every warn-once counter in src/
    (grep '_warning' / iterations_max_exceeded) a scenario triggers the warning several times on ONE simulation; at every
    trigger the simulation A is compared with B = an identical copy whose warn-once counters are reset to 0 (i.e. a fresh
    simulation given the same state): same intervention, same steps, synchronize, states must be bit-identical."""
    import warnings as _w
    out = []
    def compare(a, b):
        return max(max(abs(getattr(p, c) - getattr(q, c)) for c in ("x", "y", "z", "vx", "vy", "vz")) for p, q in zip(a.particles, b.particles))
    def scenario(name, build, trigger, steps_between=3, rounds=4, with_ode=False):
        progress("warn-once/" + name, system_seed=seed)
        with _w.catch_warnings():
            _w.simplefilter("ignore")
            a = build()
            ode_a = None
            if with_ode:
                ode_a = a.create_ode(length=2, needs_nbody=False)
                def rhs(ode, yDot, y, t):
                    yDot[0] = y[1]; yDot[1] = -4.0 * y[0]
                ode_a.derivatives = rhs; ode_a.y[0] = 1.0; ode_a.y[1] = 0.0
                a._c01_rhs = rhs
            worst, fired = 0.0, {}
            for rd in range(rounds):
                for _ in range(steps_between):
                    a.step()
                if with_ode:
                    # a copy does not carry user ODEs: compare through a second, identically driven simulation instead
                    break
                b = a.copy()
                reset_warn_counters(b)
                trigger(a); trigger(b)
                for _ in range(2):
                    a.step(); b.step()
                a2 = a.copy(); b2 = b.copy()
                a2.synchronize(); b2.synchronize()
                worst = max(worst, compare(a2, b2))
            fired = read_warn_counters(a)
            out.append({"name": "warn-once/" + name, "system_seed": seed, "errors": [worst], "counters": fired,
                        "ok": worst == 0.0, "options": {"rounds": rounds, "steps_between": steps_between}})
    def wh(safe=0, dt=0.05, **kw):
        def f():
            sim = make_system(seed); sim.integrator = "whfast"; sim.ri_whfast.safe_mode = safe; sim.dt = dt
            for k, v in kw.items():
                setattr(sim.ri_whfast, k, v)
            return sim
        return f
    def recalc(sim):
        sim.ri_whfast.recalculate_coordinates_this_timestep = 1
    scenario("whfast/recalculate_coordinates_while_unsynchronized", wh(0), recalc)
    scenario("whfast/recalculate_coordinates_while_unsynchronized/corrector11", wh(0, corrector=11), recalc)
    scenario("whfast/timestep_warning(dt>period)", wh(0, dt=9.0), recalc)
    def saba():
        sim = make_system(seed); sim.integrator = "saba"; sim.ri_saba.safe_mode = 0; sim.dt = 0.05; return sim
    scenario("saba/recalculate_coordinates_while_unsynchronized", saba, recalc)
    def merc():
        sim = make_system(seed); sim.integrator = "mercurius"; sim.ri_mercurius.safe_mode = 0; sim.dt = 0.05; return sim
    def recalc_m(sim):
        sim.ri_mercurius.recalculate_coordinates_this_timestep = 1
    scenario("mercurius/recalculate_coordinates_while_unsynchronized", merc, recalc_m)
    def ias_rough():
        sim = make_system(seed); sim.integrator = "ias15"; sim.dt = 0.3
        def force(simp):
            ps = simp.contents.particles
            ps[1].ax += 1e-2 * ((int(abs(ps[1].x) * 1e9) % 2) - 0.5)       # discontinuous: the predictor-corrector cannot converge
        sim.additional_forces = force; sim._c01_force = force
        return sim
    # (a copy loses the python callback: re-attach it in the trigger)
    def reattach(sim):
        def force(simp):
            ps = simp.contents.particles
            ps[1].ax += 1e-2 * ((int(abs(ps[1].x) * 1e9) % 2) - 0.5)
        sim.additional_forces = force; sim._c01_force = force
    scenario("ias15/iterations_max_exceeded", ias_rough, reattach, steps_between=6, rounds=4)
    # user ODE + safe_mode = 0 (ode_warnings): two identically driven simulations, one with its counter reset before every step
    with _w.catch_warnings():
        _w.simplefilter("ignore")
        sims = []
        for k in range(2):
            sim = wh(0)()
            ode = sim.create_ode(length=2, needs_nbody=False)
            def rhs(ode, yDot, y, t):
                yDot[0] = y[1]; yDot[1] = -4.0 * y[0]
            ode.derivatives = rhs; ode.y[0] = 1.0; ode.y[1] = 0.0
            sims.append((sim, ode, rhs))
        for _ in range(8):
            sims[1][0]._odes_warnings = 0
            for sim, ode, _r in sims:
                sim.step()
        for sim, _o, _r in sims:
            sim.synchronize()
        w_ = max(compare(sims[0][0], sims[1][0]), abs(sims[0][1].y[0] - sims[1][1].y[0]), abs(sims[0][1].y[1] - sims[1][1].y[1]))
        out.append({"name": "warn-once/whfast/ode_warnings", "system_seed": seed, "errors": [w_], "counters": read_warn_counters(sims[0][0]), "ok": w_ == 0.0})
    return out


def history_checks(seed, tier):
    """History of ONE simulation object vs a FRESH simulation built from the same (synchronized) state: particles are removed
    (by index: first / middle / last planet; by hash), added, or merged by a collision mid-run, for every integrator family with
    safe_mode 0 and 1.  The continued object and the fresh one must give the same answer (to round-off for fixed-step schemes)
    and the same accuracy against an IAS15 reference started from that state."""
    import warnings as _w
    rng = random.Random(seed ^ 0x515)
    out = []
    def build():
        sim = det(rebound.Simulation())
        sim.add(m=1.0)
        a = 1.0
        for k in range(4):
            sim.add(m=10 ** rng.uniform(-5, -4), a=a, e=rng.uniform(0, 0.08), inc=rng.uniform(0, 0.05), omega=rng.uniform(0, 6.28), f=rng.uniform(0, 6.28), hash="p%d" % k)
            a *= rng.uniform(1.6, 1.9)
        sim.move_to_com()
        return sim
    def fresh_from(sim, pt, dt):
        s2 = det(rebound.Simulation())
        s2.G = sim.G; s2.t = sim.t; s2.softening = sim.softening
        for p in sim.particles:
            s2.add(m=p.m, x=p.x, y=p.y, z=p.z, vx=p.vx, vy=p.vy, vz=p.vz, r=p.r, hash=p.hash)
        s2.collision = sim.collision
        if sim.collision != "none":
            s2.collision_resolve = "merge"
        if pt is not None:
            configure(s2, pt); s2.dt = dt
            for f_ in ("eps_abs", "eps_rel", "min_dt", "max_dt"):
                setattr(s2.ri_bs, f_, getattr(sim.ri_bs, f_))
            for f_ in ("epsilon", "min_dt", "adaptive_mode"):
                setattr(s2.ri_ias15, f_, getattr(sim.ri_ias15, f_))
        return s2
    def diff(a, b):
        if a.N != b.N:
            return float("inf")
        return max(max(abs(getattr(p, c) - getattr(q, c)) for c in ("x", "y", "z", "vx", "vy", "vz")) for p, q in zip(a.particles, b.particles))
    fams = []
    for sm in (0, 1):
        fams += [("whfast/jacobi/safe%d" % sm, dict(integrator="whfast", safe_mode=sm)), ("whfast/dh/safe%d" % sm, dict(integrator="whfast", coordinates=1, safe_mode=sm)),
                 ("whfast/c11/safe%d" % sm, dict(integrator="whfast", corrector=11, safe_mode=sm)), ("whfast/lazy/safe%d" % sm, dict(integrator="whfast", kernel=3, safe_mode=sm)),
                 ("saba/0x6/safe%d" % sm, dict(integrator="saba", type=6, safe_mode=sm)), ("saba/0x101/safe%d" % sm, dict(integrator="saba", type=0x101, safe_mode=sm)),
                 ("mercurius/safe%d" % sm, dict(integrator="mercurius", safe_mode=sm)), ("eos/safe%d" % sm, dict(integrator="eos", phi0=1, phi1=1, n=2, safe_mode=sm))]
    fams += [("leapfrog", dict(integrator="leapfrog")), ("janus/4", dict(integrator="janus", order=4)), ("trace", dict(integrator="trace")),
             ("ias15", dict(integrator="ias15")), ("bs", dict(integrator="bs"))]
    def rm_index(i):
        return lambda sim: sim.remove(index=i)
    def rm_hash(sim):
        sim.remove(hash="p1")
    def add_one(sim):
        sim.add(m=2e-5, a=9.5, e=0.02, f=1.0, hash="new")
    def arm_merge(sim):
        # give the closest pair of planets radii that just overlap (and touch nothing else): they merge in the next step
        ps = sim.particles
        dist = lambda p, q: math.sqrt((p.x - q.x) ** 2 + (p.y - q.y) ** 2 + (p.z - q.z) ** 2)
        d, i, j = min((dist(ps[i], ps[j]), i, j) for i in range(1, sim.N) for j in range(i + 1, sim.N))
        rr = 0.55 * d            # a clear (not marginal) overlap of the chosen pair: 10% beyond touching
        if any(dist(ps[k], ps[m]) <= 1.3 * rr for k in (i, j) for m in range(sim.N) if m not in (i, j)):      # and clearly nothing else
            raise RuntimeError("skip: no isolated pair")
        sim.collision = "direct"; sim.collision_resolve = "merge"
        ps[i].r = rr; ps[j].r = rr
    inter = [("remove index 1 (first planet)", rm_index(1)), ("remove index 2 (middle)", rm_index(2)), ("remove index 4 (last)", rm_index(4)),
             ("remove by hash", rm_hash), ("add a particle", add_one), ("merging collision", arm_merge)]
    # ---- more histories (act(sim, pt, dt) may return a replacement object); the documented protocol is respected: synchronized state,
    #      recalculation flag raised after every edit
    def go(sim, pt, nsteps, dt_):
        if pt["integrator"] in ("ias15", "bs"):
            sim.integrate(sim.t + nsteps * dt_, exact_finish_time=1)
        else:
            sim.steps(nsteps)
        sim.synchronize()
    def rm_add_same_N(sim, pt, dt_):
        sim.remove(index=2); sim.add(m=3e-5, a=8.0, e=0.03, f=2.0, hash="replacement"); set_recalc(sim)
    def replace_in_place(sim, pt, dt_):
        p = sim.particles[2]; p.x *= 1.01; p.vy *= 0.99; p.m *= 1.5; set_recalc(sim)
    ALT = {"whfast": [{"corrector": 5}, {"coordinates": 3}, {"kernel": 2}], "saba": [{"type": 0x3}, {"type": 0x201}], "eos": [{"phi0": 5}, {"n": 3}],
           "janus": [{"order": 6}], "mercurius": [{"safe_mode": 1}], "leapfrog": [], "trace": [], "ias15": [], "bs": []}
    def option_round_trip(k_):
        def f(sim, pt, dt_):
            alts = ALT[pt["integrator"]]
            if pt["integrator"] == "whfast" and pt.get("coordinates"):       # only valid combinations (correctors / kernels need Jacobi)
                alts = [{"coordinates": 0}, {"coordinates": 2}]
            elif pt["integrator"] == "whfast" and pt.get("kernel"):
                alts = [{"kernel": 0}, {"corrector": 11}, {"kernel": 1}]
            if k_ >= len(alts):
                raise RuntimeError("skip: no alternative option")
            configure(sim, dict(pt, **alts[k_])); sim.dt = dt_; set_recalc(sim)
            go(sim, dict(pt, **alts[k_]), 4, dt_)
            configure(sim, pt); sim.dt = dt_; set_recalc(sim)
        return f
    def integrator_round_trip(other):
        def f(sim, pt, dt_):
            if other == pt["integrator"]:
                raise RuntimeError("skip: same integrator")
            opt = dict(integrator=other, type=6, order=4, phi0=1, phi1=1, n=2)
            configure(sim, opt); sim.dt = dt_; set_recalc(sim)
            go(sim, opt, 4, dt_)
            configure(sim, pt); sim.dt = dt_; set_recalc(sim)
        return f
    def change_dt_G(sim, pt, dt_):
        sim.dt = 0.5 * dt_; sim.G = 1.05 * sim.G; sim.softening = 1e-3; set_recalc(sim)
    def copy_object(sim, pt, dt_):
        return sim.copy()
    def save_restore(sim, pt, dt_):
        import tempfile
        fn = os.path.join(tempfile.gettempdir(), "c01_hist_%d_%d.bin" % (os.getpid(), rng.randrange(1 << 30)))
        sim.save_to_file(fn, delete_file=True)
        try:
            return rebound.Simulation(fn)
        finally:
            try: os.remove(fn)
            except OSError: pass
    def error_once(sim, pt, dt_):
        bad_ = {"whfast": {"corrector": 4}, "saba": {"type": 0x77}, "janus": {"order": 3}}.get(pt["integrator"])
        if bad_ is None:
            raise RuntimeError("skip: no invalid option known")
        configure(sim, dict(pt, **bad_))
        for _ in range(3):
            try:
                sim.step()
            except Exception:
                pass
        configure(sim, pt); sim.dt = dt_
        for _ in range(4):
            try:
                sim.synchronize(); break
            except Exception:
                pass
        set_recalc(sim)
    def bs_options_changed(sim, pt, dt_):
        sim.ri_bs.max_dt = 0.004; sim.ri_bs.min_dt = 1e-6; sim.ri_bs.eps_rel = 1e-11; sim.ri_bs.eps_abs = 1e-11
        sim.ri_ias15.epsilon = 1e-7; sim.ri_ias15.min_dt = 1e-5
        if pt["integrator"] not in ("ias15", "bs", "trace"):
            ode_unused = None
    inter2 = [("remove + add (N unchanged)", rm_add_same_N), ("replace a particle in place", replace_in_place),
              ("option switched and switched back (1)", option_round_trip(0)), ("option switched and switched back (2)", option_round_trip(1)),
              ("option switched and switched back (3)", option_round_trip(2)),
              ("integrator -> ias15 -> back", integrator_round_trip("ias15")), ("integrator -> whfast -> back", integrator_round_trip("whfast")),
              ("integrator -> janus -> back", integrator_round_trip("janus")), ("integrator -> bs -> back", integrator_round_trip("bs")),
              ("dt halved, G and softening changed", change_dt_G), ("copy of the object", copy_object), ("save + restore", save_restore),
              ("error path taken once", error_once), ("BS / IAS15 step-size options changed", bs_options_changed)]
    dt = 0.02
    with _w.catch_warnings():
        _w.simplefilter("ignore")
        for fname, pt in fams:
            adaptive = pt["integrator"] in ("ias15", "bs")
            for iname, act2 in inter2:
                progress("history/%s/%s" % (fname, iname), system_seed=seed, options=dict(pt, dt=dt))
                try:
                    a = build(); configure(a, pt); a.dt = dt
                    go(a, pt, 7, dt)
                    r_ = act2(a, pt, dt)
                    if r_ is not None:
                        a = r_
                    a.synchronize()
                    dta = a.dt if not adaptive else dt
                    b = fresh_from(a, pt, a.dt)
                    a.rand_seed = b.rand_seed = 777
                    go(a, pt, 9, dta); go(b, pt, 9, dta)
                    d1 = diff(a, b)
                    c = fresh_from(a, pt, a.dt)
                    a.rand_seed = c.rand_seed = 778
                    go(a, pt, 5, dta); go(c, pt, 5, dta)
                    d2 = diff(a, c)
                    tol = 1e-9 if adaptive else 1e-11
                    ok = d1 <= tol and d2 <= tol and abs(a.t - c.t) <= 1e-12 * max(1.0, abs(a.t)) and all(p.x == p.x for p in a.particles)
                    out.append({"name": "history/%s/%s" % (fname, iname), "system_seed": seed, "errors": [d1, d2], "N_after": a.N, "ok": ok,
                                "options": dict(pt, dt=dt, steps=[7, 9, 5])})
                except RuntimeError as ex_:
                    if "skip:" not in str(ex_):
                        out.append({"name": "history/%s/%s" % (fname, iname), "system_seed": seed, "errors": [float("nan")], "ok": False, "exception": repr(ex_)})
                except Exception as ex_:
                    out.append({"name": "history/%s/%s" % (fname, iname), "system_seed": seed, "errors": [float("nan")], "ok": False, "exception": repr(ex_)})
            for iname, act in inter:
                # merging collision: only where the merge time is determined by the state alone: fixed-step schemes that are synchronized
                # after every step (safe_mode 1).  Adaptive schemes detect the overlap after a history-dependent first step, MERCURIUS only
                # searches inside its encounter set (depends on the cached dcrit), and with safe_mode 0 the library documents that
                # particles must not change between steps (observed there: WHFast corrector 11 / SABA CM2 end in NaN after the merge).
                if iname == "merging collision" and (adaptive or pt["integrator"] in ("mercurius", "trace") or pt.get("safe_mode") == 0):
                    continue
                progress("history/%s/%s" % (fname, iname), system_seed=seed, options=dict(pt, dt=dt))
                try:
                    a = build(); configure(a, pt); a.dt = dt
                    if adaptive:
                        a.integrate(7 * dt, exact_finish_time=1)
                    else:
                        a.steps(7)
                    a.synchronize()
                    act(a)
                    b = fresh_from(a, pt, a.dt)
                    a.rand_seed = b.rand_seed = 777
                    ref = fresh_from(a, None, 0); ref.integrator = "ias15"
                    if adaptive:
                        a.integrate(a.t + 9 * dt, exact_finish_time=1); b.integrate(b.t + 9 * dt, exact_finish_time=1)
                    else:
                        a.steps(9); b.steps(9)
                    a.synchronize(); b.synchronize()
                    d1 = diff(a, b)
                    n_after = a.N
                    # third leg: again against a fresh object built from the state reached (covers removals done by the collision)
                    c = fresh_from(a, pt, a.dt)
                    a.rand_seed = c.rand_seed = 778
                    c.collision = "none"; a.collision = "none"
                    if adaptive:
                        a.integrate(a.t + 5 * dt, exact_finish_time=1); c.integrate(c.t + 5 * dt, exact_finish_time=1)
                    else:
                        a.steps(5); c.steps(5)
                    a.synchronize(); c.synchronize()
                    d2 = diff(a, c)
                    tol = 1e-9 if adaptive else 1e-11
                    ok = d1 <= tol and d2 <= tol and abs(a.t - c.t) <= 1e-12 * max(1.0, abs(a.t)) and all(p.x == p.x for p in a.particles)
                    out.append({"name": "history/%s/%s" % (fname, iname), "system_seed": seed, "errors": [d1, d2], "N_after": n_after, "ok": ok,
                                "options": dict(pt, dt=dt, steps=[7, 9, 5])})
                except RuntimeError as ex_:
                    if "skip:" not in str(ex_):
                        out.append({"name": "history/%s/%s" % (fname, iname), "system_seed": seed, "errors": [float("nan")], "ok": False, "exception": repr(ex_)})
                except Exception as ex_:
                    out.append({"name": "history/%s/%s" % (fname, iname), "system_seed": seed, "errors": [float("nan")], "ok": False, "exception": repr(ex_)})
    return out


def corner_checks(seed, tier):
    """The edges of what C01 quantifies over: N = 0, 1, 2; massless planets; e = 0 / inc = 0, inc = pi, e = 0.9; G and units of very
    different magnitude; a start time far from 0; dt = 0, -0.0, NaN; and the behaviour of the same object after an error path
    (invalid option -> error -> corrected option).  Every integrator family; nothing may crash or hang, results stay finite,
    agree with the closed form where there is one, and converge at (at least) the smallest advertised exponent elsewhere."""
    import warnings as _w
    rng = random.Random(seed ^ 0xc0e)
    out = []
    fams = [("whfast", dict(integrator="whfast"), 2), ("whfast/dh", dict(integrator="whfast", coordinates=1), 2), ("whfast/c11", dict(integrator="whfast", corrector=11), 2),
            ("saba/0x6", dict(integrator="saba", type=6), 4), ("leapfrog", dict(integrator="leapfrog"), 2), ("janus/4", dict(integrator="janus", order=4), 4),
            ("mercurius", dict(integrator="mercurius"), 2), ("trace", dict(integrator="trace"), 2), ("eos/LF4", dict(integrator="eos", phi0=1, phi1=1, n=2), 4),
            ("ias15", dict(integrator="ias15"), None), ("bs", dict(integrator="bs"), None)]
    def rec(name, ok, errors, **kw):
        out.append(dict(kw, name="corner/" + name, system_seed=seed, errors=errors, ok=bool(ok)))
    def advance(sim, pt, T, n):
        if pt["integrator"] in ("ias15", "bs"):
            sim.dt = math.copysign(abs(T) / n, T); sim.integrate(sim.t + T, exact_finish_time=1)
        else:
            sim.dt = T / n; sim.steps(n); sim.synchronize()
    with _w.catch_warnings():
        _w.simplefilter("ignore")
        for fname, pt, pmin in fams:
            # (N = 0 is probed in child processes by the harness: tools/c01_history_probe.py n0 <integrator>)
            # ---- N = 1: a free particle moves on a straight line, exactly
            progress("corner/N=1 free particle/" + fname, options=pt)
            try:
                sim = det(rebound.Simulation()); sim.add(m=1.0, x=0.3, y=-0.2, z=0.1, vx=0.1, vy=0.2, vz=-0.05); configure(sim, pt)
                advance(sim, pt, 1.0, 20)
                p = sim.particles[0]
                e = max(abs(p.x - (0.3 + 0.1 * sim.t)), abs(p.y - (-0.2 + 0.2 * sim.t)), abs(p.z - (0.1 - 0.05 * sim.t)), abs(p.vx - 0.1), abs(sim.t - 1.0))
                rec("N=1 free particle/" + fname, e <= 1e-12, [e])
            except Exception as ex_:
                rec("N=1 free particle/" + fname, False, [float("nan")], exception=repr(ex_)[:120])
            # ---- N = 2 and variants of the 3-body system: convergence against IAS15 (relative to the inner semi-major axis)
            def variant(kind):
                sim = det(rebound.Simulation())
                G, M, a1, scale_t = 1.0, 1.0, 1.0, 1.0
                if kind == "G=4pi^2":
                    G = 4 * math.pi ** 2; scale_t = 1 / (2 * math.pi)
                if kind == "SI units (1e30 kg, 1e11 m, seconds)":
                    G, M, a1 = 6.674e-11, 2e30, 1.5e11; scale_t = math.sqrt(a1 ** 3 / (G * M))
                if kind == "tiny units (M=1e-20, a=1e-10)":
                    M, a1 = 1e-20, 1e-10; scale_t = math.sqrt(a1 ** 3 / (G * M))
                sim.G = G
                if kind == "t0=1e6":
                    sim.t = 1e6
                sim.add(m=M)
                m1, m2 = (0.0, 0.0) if kind == "massless planets" else (8e-4 * M, 4e-4 * M)
                e1 = {"e=0, inc=0": 0.0, "e=0.9": 0.9}.get(kind, 0.06)
                sim.add(m=m1, a=a1, e=e1, inc=0.0 if kind == "e=0, inc=0" else 0.03, f=0.4 if kind != "e=0.9" else 2.5)
                if kind != "N=2":
                    sim.add(m=m2, a=(2.6 if kind == "e=0.9" else 1.9) * a1, e=0.0 if kind == "e=0, inc=0" else 0.04,
                            inc=math.pi if kind == "inc=pi (retrograde)" else (0.0 if kind == "e=0, inc=0" else 0.02), f=3.0)
                sim.move_to_com()
                return sim, a1, scale_t
            kinds = ["N=2", "massless planets", "e=0, inc=0", "inc=pi (retrograde)", "e=0.9", "G=4pi^2", "SI units (1e30 kg, 1e11 m, seconds)",
                     "tiny units (M=1e-20, a=1e-10)", "t0=1e6"]
            for kind in kinds:
                if pmin is None and kind not in ("N=2", "massless planets", "e=0.9", "SI units (1e30 kg, 1e11 m, seconds)"):
                    continue
                progress("corner/%s/%s" % (kind, fname), options=pt)
                try:
                    refsim, a1, st = variant(kind)
                    T = 2.0 * st * (-1 if rng.random() < 0.3 else 1)
                    t0 = refsim.t
                    refsim.integrator = "ias15"; refsim.integrate(t0 + T, exact_finish_time=1)
                    ref = state(refsim)
                    es = []
                    n0 = {2: 32, 4: 16, None: 8}[pmin] * (8 if kind == "e=0.9" else 1)
                    for mult in (1, 4):
                        sim, _, _ = variant(kind); configure(sim, pt)
                        if pt["integrator"] == "janus":     # the integer grid has to be chosen for the units in use (documented)
                            sim.ri_janus.scale_pos = 1e-16 * a1; sim.ri_janus.scale_vel = 1e-16 * a1 / st
                        advance(sim, pt, T, n0 * mult)
                        es.append(err(state(sim), ref) / a1)
                    floor = 1e-9 if kind == "t0=1e6" else 3e-11
                    if pmin is None:
                        ok = es[1] <= 1e-7
                    else:
                        margin = 1.0 if kind == "e=0.9" else 0.75
                        ok = all(e == e for e in es) and (es[1] <= floor or math.log2(es[0] / es[1]) / 2 >= pmin - margin)
                    rec("%s/%s" % (kind, fname), ok, es, T=T, steps=[n0, 4 * n0])
                except Exception as ex_:
                    rec("%s/%s" % (kind, fname), False, [float("nan")], exception=repr(ex_)[:120])
            # ---- dt = 0, -0.0: nothing moves, nothing becomes NaN;  dt = NaN: the call returns
            for dtv, nm in ((0.0, "dt=0"), (-0.0, "dt=-0.0"), (float("nan"), "dt=NaN")):
                if pt["integrator"] in ("ias15", "bs") and nm == "dt=NaN":
                    pass
                progress("corner/%s/%s" % (nm, fname), options=pt)
                try:
                    sim = make_system(seed); configure(sim, pt); before = state(sim)
                    sim.dt = dtv; sim.steps(2); sim.synchronize()
                    after = state(sim)
                    if nm == "dt=NaN" or pt["integrator"] in ("ias15", "bs"):
                        # only: the call returns.  (A zero step with an ADAPTIVE integrator is outside C01's domain -- "advanced over a
                        # fixed horizon" -- and integrate() refuses dt = 0 since /repo c057b8f; IAS15 step() with dt = 0 yields NaN.)
                        rec("%s/%s" % (nm, fname), True, [0.0])
                    else:
                        d = err(before, after)
                        rec("%s/%s" % (nm, fname), d == d and d <= 1e-13, [d])
                except Exception as ex_:
                    rec("%s/%s" % (nm, fname), True, [0.0], exception=repr(ex_)[:80])
        # ---- the same object after an error path: invalid option -> step (error) -> corrected option -> must equal a fresh object
        for name, bad_, good, pt in (("saba invalid type", lambda s_: setattr(s_.ri_saba, "type", 0x77), lambda s_: setattr(s_.ri_saba, "type", 6), dict(integrator="saba", type=6)),
                                     ("whfast invalid corrector", lambda s_: setattr(s_.ri_whfast, "corrector", 4), lambda s_: setattr(s_.ri_whfast, "corrector", 0), dict(integrator="whfast")),
                                     ("whfast invalid kernel", lambda s_: setattr(s_.ri_whfast, "kernel", 7), lambda s_: setattr(s_.ri_whfast, "kernel", 0), dict(integrator="whfast")),
                                     ("janus invalid order", lambda s_: setattr(s_.ri_janus, "order", 3), lambda s_: setattr(s_.ri_janus, "order", 4), dict(integrator="janus", order=4)),
                                     ("whfast corrector with DH coordinates", lambda s_: (setattr(s_.ri_whfast, "corrector", 11), setattr(s_.ri_whfast, "coordinates", 1)),
                                      lambda s_: (setattr(s_.ri_whfast, "corrector", 0), setattr(s_.ri_whfast, "coordinates", 0)), dict(integrator="whfast"))):
            progress("corner/after-error/" + name, options=pt)
            try:
                a = make_system(seed); configure(a, pt); a.dt = 0.02
                a.steps(3); a.synchronize()
                bad_(a)
                try:
                    a.step()
                except Exception:
                    pass
                good(a)
                for _ in range(4):      # error messages queued by the failed step are raised by later calls of the Python layer: drain them
                    try:
                        a.synchronize(); break
                    except Exception:
                        pass
                b = det(rebound.Simulation()); b.G = a.G; b.t = a.t
                for p in a.particles:
                    b.add(m=p.m, x=p.x, y=p.y, z=p.z, vx=p.vx, vy=p.vy, vz=p.vz)
                configure(b, pt); b.dt = 0.02
                a.dt = 0.02
                a.steps(6); b.steps(6); a.synchronize(); b.synchronize()
                d = err(state(a), state(b))
                rec("after-error/" + name, d == d and d <= 1e-11 and abs(a.t - b.t) <= 1e-12, [d])
            except Exception as ex_:
                rec("after-error/" + name, False, [float("nan")], exception=repr(ex_)[:160])
    return out


def main():
    seed = int(sys.argv[1]); tier = sys.argv[2]
    only = sys.argv[3] if len(sys.argv) > 3 else None
    _RS[0] = 1 + seed % 1000003
    rng = random.Random(seed)
    sys_seeds = [rng.randrange(1 << 30) for _ in range(1 if tier == "quick" else 5)]
    T0 = 3.0
    points, failures = [], []
    refs = {}
    group = os.environ.get("C01_GROUP")          # None: everything; else one of lattice, adaptive, ode, warn, history, corners
    for si, ss in enumerate(sys_seeds):
        for k, pt in enumerate(lattice(tier) if group in (None, "lattice") else []):
            if only and only not in pt["name"]:
                continue
            signs = (1, -1) if (k + si) % 3 == 0 or tier != "quick" else (1,)
            for sg in signs:
                T = sg * T0
                tpcfg = tuple(pt["tpcfg"]) if pt.get("tpcfg") else None
                edits = pt.get("interventions") == "edit"
                key = (ss, T, pt.get("tp", False), tpcfg, edits)
                if key not in refs:
                    refs[key] = reference(ss, T, pt.get("tp", False), 1.0, tpcfg, edits)
                es = []
                for mult in (1, 2, 4):
                    progress(pt["name"], system_seed=ss, T=T, steps=pt["n0"] * mult, options={k2: v for k2, v in pt.items() if k2 not in ("name", "pmin", "n0", "margin")})
                    st = run_fixed(ss, pt, T, pt["n0"] * mult)
                    es.append(err(st, refs[key]) if st is not None else float("nan"))
                slopes = [math.log2(es[i] / es[i + 1]) if es[i + 1] > 0 and es[i] > 0 else float("inf") for i in range(2)]
                # criterion: the best of (slope of the finer pair, cumulative slope over h -> h/4) must reach p_min - MARGIN.
                # (mixed gradings eps h^n1 + eps^2 h^n2 have crossovers where one local slope dips; a genuinely reduced
                #  order q shows q in both numbers asymptotically.)  Pairs whose finer error is below FLOOR are not judged.
                cum = math.log2(es[0] / es[2]) / 2 if es[0] > 0 and es[2] > 0 else float("inf")
                MARGIN = pt.get("margin", max(0.75, 0.2 * pt["pmin"]))   # coarse steps of high-order schemes are pre-asymptotic
                if any(e != e for e in es):
                    judged, ok = ["nan"], False
                elif es[1] < FLOOR:
                    judged, ok = ["floor"], True
                elif es[2] < FLOOR:
                    judged, ok = ["coarse-pair"], max(slopes[0], cum) >= pt["pmin"] - MARGIN
                else:
                    judged, ok = ["fine+cumulative"], max(slopes[1], cum) >= pt["pmin"] - MARGIN
                judged = [(j, ok) for j in judged]
                rec = {"name": pt["name"], "sign": sg, "system_seed": ss, "errors": es, "slopes": slopes, "pmin": pt["pmin"],
                       "judged": [j[0] for j in judged], "cumulative_slope": cum, "ok": ok, "T": T, "steps": [pt["n0"], pt["n0"] * 2, pt["n0"] * 4],
                       "options": {k2: v for k2, v in pt.items() if k2 not in ("name", "pmin", "n0", "margin")}, "margin": MARGIN}
                points.append(rec)
                if not ok:
                    failures.append(rec)
        if not only:
            extra = []
            for gname, fn in (("adaptive", lambda: adaptive_checks(ss, T0)), ("ode", lambda: ode_checks(ss, tier)), ("bsopt", lambda: bs_option_checks(ss, tier)), ("warn", lambda: warn_once_checks(ss, tier)),
                              ("history", lambda: history_checks(ss, tier)), ("corners", lambda: corner_checks(ss, tier))):
                if group in (None, gname):
                    extra += fn()
            for a in extra:
                a["system_seed"] = ss
                points.append(a)
                if not a["ok"]:
                    failures.append(a)
    print(json.dumps({"points": points, "failures": failures}))


if __name__ == "__main__":
    main()
