"""Shared machinery for the /verif checks (see DESIGN.md section 1).

Every property harness tools/cNN.py exposes   run(ctx: Ctx) -> None   and uses only this module to
  * build librebound from /repo's CURRENT working tree (cached by a hash of the sources),
  * (re)generate Coq files from the source, build Coq targets under a timeout,
  * evaluate generated case files with coqc/vm_compute (the correspondence tie),
  * record obligations, correspondence results, violations and write evidence/<id>.json.

Environment:  VERIF_REPO (default /repo)  VERIF_SEED  VERIF_TIER  VERIF_JOBS
"""
import ctypes, fcntl, hashlib, json, os, random, re, shutil, struct, subprocess, sys, time, glob, sysconfig

ROOT = os.path.dirname(os.path.dirname(os.path.abspath(__file__)))
REPO = os.environ.get("VERIF_REPO", "/repo")
BUILD = os.path.join(ROOT, "build")
# evidence/<id>.json is written by runs against /repo only; runs against another tree (VERIF_REPO, seeded mutations)
# write their evidence elsewhere so that they can never overwrite the committed evidence
EVIDENCE_DIR = os.environ.get("VERIF_EVIDENCE_DIR") or (os.path.join(ROOT, "evidence") if REPO == "/repo"
                                                         else os.path.join(ROOT, "build", "evidence-other-tree"))
COQ = os.path.join(ROOT, "coq")
PY = "/venv/bin/python"
JOBS = int(os.environ.get("VERIF_JOBS", "16"))
SUFFIX = subprocess.run([PY, "-c", "import sysconfig;print(sysconfig.get_config_var('EXT_SUFFIX'))"],
                        capture_output=True, text=True).stdout.strip() or ".so"

LIB_SOURCES = ["rebound", "integrator_ias15", "integrator_whfast", "integrator_whfast512", "integrator_saba",
               "integrator_mercurius", "integrator_trace", "integrator_eos", "integrator_leapfrog",
               "integrator_bs", "integrator_janus", "integrator_sei", "integrator", "gravity", "server",
               "boundary", "display", "collision", "tools", "fmemopen", "rotations", "derivatives", "tree",
               "particle", "binarydiff", "output", "input", "simulationarchive", "transformations"]
# flags of setup.py + the CFLAGS python's sysconfig adds when setuptools builds the extension
CFLAGS = ["-fno-strict-overflow", "-Wsign-compare", "-DNDEBUG", "-g", "-O3", "-Wall", "-fPIC",
          "-DLIBREBOUND", "-fstrict-aliasing", "-std=c99", "-Wno-unknown-pragmas",
          "-DGITHASH=verif", "-DLIBREBOUND", "-D_GNU_SOURCE", "-DSERVER", "-fPIC", "-O3", "-w"]
VARIANTS = {
    "default": [],
    "avx512": ["-march=native", "-DAVX512"],
}


class Lock:
    def __init__(self, name):
        os.makedirs(BUILD, exist_ok=True)
        self.path = os.path.join(BUILD, "." + name + ".lock")
    def __enter__(self):
        self.f = open(self.path, "w")
        fcntl.flock(self.f, fcntl.LOCK_EX)
    def __exit__(self, *a):
        fcntl.flock(self.f, fcntl.LOCK_UN)
        self.f.close()


def tree_hash(extra=""):
    h = hashlib.sha256()
    for p in sorted(glob.glob(os.path.join(REPO, "src", "*.[ch]"))):
        h.update(p.encode()); h.update(open(p, "rb").read())
    h.update(extra.encode())
    return h.hexdigest()[:16]


def build_lib(variant="default", cc="gcc", extra_flags=(), tag=None):
    """Compile /repo/src into BUILD/lib-<variant>-<hash>/librebound<suffix> (+ 'rebound' -> /repo/rebound).
    Returns the directory (use as PYTHONPATH). Raises RuntimeError if the tree does not compile."""
    flags = CFLAGS + VARIANTS[variant] + list(extra_flags)
    hsh = tree_hash(variant + cc + " ".join(flags) + REPO)
    rh = hashlib.sha256(REPO.encode()).hexdigest()[:6]     # builds of different trees (VERIF_REPO) never purge each other
    d = os.path.join(BUILD, "lib-%s-%s-%s" % (tag or variant, rh, hsh))
    so = os.path.join(d, "librebound" + SUFFIX)
    with Lock("lib-%s-%s" % (tag or variant, rh)):
        if os.path.exists(so):
            return d
        # remove stale builds of this variant of this tree (disk)
        # (only builds not touched for 20 minutes: a check that started before the tree changed may still be using its build)
        for old in glob.glob(os.path.join(BUILD, "lib-%s-%s-*" % (tag or variant, rh))):
            try:
                if time.time() - os.path.getmtime(old) > 1200:
                    shutil.rmtree(old, ignore_errors=True)
            except OSError:
                pass
        os.makedirs(os.path.join(d, "obj"), exist_ok=True)
        procs = []
        objs = []
        for s in LIB_SOURCES:
            o = os.path.join(d, "obj", s + ".o")
            objs.append(o)
            procs.append((s, subprocess.Popen([cc] + flags + ["-I" + os.path.join(REPO, "src"), "-c",
                                              os.path.join(REPO, "src", s + ".c"), "-o", o],
                                              stdout=subprocess.PIPE, stderr=subprocess.STDOUT, text=True)))
        errs = []
        for s, p in procs:
            out, _ = p.communicate()
            if p.returncode != 0:
                errs.append(s + ": " + out[-2000:])
        if errs:
            shutil.rmtree(d, ignore_errors=True)
            raise RuntimeError("librebound does not compile:\n" + "\n".join(errs))
        r = subprocess.run([cc, "-shared"] + list(extra_flags) + objs + ["-lm", "-lpthread", "-o", so + ".tmp"],
                           capture_output=True, text=True)
        if r.returncode != 0:
            shutil.rmtree(d, ignore_errors=True)
            raise RuntimeError("link failed: " + r.stderr[-2000:])
        link = os.path.join(d, "rebound")
        if not os.path.islink(link):
            os.symlink(os.path.join(REPO, "rebound"), link)
        shutil.rmtree(os.path.join(d, "obj"), ignore_errors=True)
        os.rename(so + ".tmp", so)
    return d


def load_clib(libdir):
    """ctypes handle on the freshly built library (no Python layer)."""
    return ctypes.CDLL(os.path.join(libdir, "librebound" + SUFFIX))


def pyenv(libdir):
    e = dict(os.environ)
    e["PYTHONPATH"] = libdir
    e["PYTHONHASHSEED"] = "0"
    e["PYTHONDONTWRITEBYTECODE"] = "1"
    return e


def run_py(libdir, script, args=(), timeout=600, input=None, cwd=None):
    """Run a driver script with the freshly built library + /repo's python package."""
    return subprocess.run([PY, script] + [str(a) for a in args], env=pyenv(libdir), capture_output=True,
                          text=True, timeout=timeout, input=input, cwd=cwd)


# ----------------------------------------------------------------------------- floats <-> Coq
def fhex(x):
    """Python float -> Coq primitive-float literal (exact)."""
    if x != x:
        return "nan"
    if x == float("inf"):
        return "infinity"
    if x == float("-inf"):
        return "neg_infinity"
    s = float(x).hex()
    if s.startswith("-"):
        return "(-" + s[1:] + ")"
    return s


def flist(xs):
    return "[" + "; ".join(fhex(x) for x in xs) + "]"


def bits(x):
    return struct.unpack("<Q", struct.pack("<d", x))[0]


def same_bits(a, b):
    if a != a and b != b:
        return True
    return bits(a) == bits(b)


# ----------------------------------------------------------------------------- Coq
FORBIDDEN = re.compile(r"\bAdmitted\b|\badmit\b|^\s*(Local\s+|Global\s+)?(Axiom|Axioms|Parameter|Parameters|Conjecture|Conjectures)\b"
                       r"|Guard Checking|Positivity Checking|Universe Checking|bypass_check|type-in-type|impredicative-set|Admit Obligations",
                       re.M)


def strip_comments(s):
    out = []; depth = 0; i = 0
    while i < len(s):
        if s.startswith("(*", i):
            depth += 1; i += 2
        elif s.startswith("*)", i) and depth > 0:
            depth -= 1; i += 2
        else:
            if depth == 0:
                out.append(s[i])
            i += 1
    return "".join(out)


def audit_coq(files):
    """Fail-closed scan for declared axioms / admitted proofs / switched-off checks / Variables outside sections."""
    bad = []
    for f in files:
        src = strip_comments(open(f).read())
        for m in FORBIDDEN.finditer(src):
            bad.append("%s: forbidden '%s'" % (os.path.relpath(f, ROOT), m.group(0).strip()))
        depth = 0
        for line in src.splitlines():
            t = line.strip()
            if re.match(r"(Section|Module)\s+\w+\s*\.", t) and t.startswith("Section"):
                depth += 1
            elif re.match(r"End\s+\w+\s*\.", t) and depth > 0:
                depth -= 1
            elif depth == 0 and re.match(r"(Variable|Variables|Hypothesis|Hypotheses|Context)\b", t):
                bad.append("%s: '%s' outside a section" % (os.path.relpath(f, ROOT), t[:40]))
    return bad


def coq_files(subdir):
    return sorted(glob.glob(os.path.join(COQ, subdir, "*.v")))


def count_statements(files):
    n = 0
    names = []
    for f in files:
        src = strip_comments(open(f).read())
        for m in re.finditer(r"^\s*(Theorem|Lemma|Corollary|Example|Fact|Remark|Proposition)\s+(\w+)", src, re.M):
            n += 1; names.append(m.group(2))
    return n, names


def coq_make(targets, timeout=900, sub=None):
    """make the given .vo targets (paths relative to coq/) under a shell timeout, with a project file that contains
    only Common + the property's own FILES (so other properties' files cannot interfere). Returns (ok, log)."""
    if sub is None:
        sub = targets[0].split("/")[0] if targets else "Common"
    with Lock("coq"):
        r0 = subprocess.run([sys.executable, os.path.join(ROOT, "tools", "mkcoqproject.py"), sub], capture_output=True, text=True)
        proj = os.path.join(COQ, "_CoqProject." + sub)
        mk = os.path.join(COQ, "Makefile." + sub)
        if (not os.path.exists(mk)) or os.path.getmtime(mk) < os.path.getmtime(proj):
            subprocess.run(["coq_makefile", "-f", "_CoqProject." + sub, "-o", "Makefile." + sub], cwd=COQ, capture_output=True)
        r = subprocess.run(["timeout", str(timeout), "make", "-f", "Makefile." + sub, "-j%d" % JOBS] + list(targets), cwd=COQ,
                           capture_output=True, text=True)
    return r.returncode == 0, (r.stdout + r.stderr)


def coq_props(prop_v, timeout=600):
    """Re-check a Props file from scratch (always recompiles it) and return (ok, log, assumptions).
    assumptions: dict theorem -> list of axiom names printed by Print Assumptions."""
    vo = prop_v[:-2] + ".vo"
    for ext in (".vo", ".glob", ".vos", ".vok"):
        try: os.remove(os.path.join(COQ, prop_v[:-2] + ext))
        except OSError: pass
    ok, log = coq_make([vo], timeout)
    assum = {}
    if ok:
        src = open(os.path.join(COQ, prop_v)).read()
        names = re.findall(r"Print Assumptions\s+(\w+)\s*\.", src)
        blocks = re.split(r"^(?=Axioms:|Closed under the global context)", log, flags=re.M)
        blocks = [b for b in blocks if b.startswith("Axioms:") or b.startswith("Closed under")]
        for nme, b in zip(names, blocks):
            if b.startswith("Closed"):
                assum[nme] = []
            else:
                assum[nme] = sorted(set(m.group(1) for m in re.finditer(r"^([A-Za-z_][\w\.']*)\s*(?::|$)", b, re.M)
                                        if m.group(1) not in ("Axioms", "Warning", "File", "make", "COQC", "COQDEP", "Finished")))
    return ok, log, assum


def coq_eval(name, body, timeout=300, requires=()):
    """Write build/cases/<name>.v with the given body, compile it, return (ok, stdout).
    The body should print its results with  Eval vm_compute in ...  ."""
    d = os.path.join(BUILD, "cases")
    os.makedirs(d, exist_ok=True)
    path = os.path.join(d, name + ".v")
    with open(path, "w") as f:
        f.write(body)
    r = subprocess.run(["timeout", str(timeout), "coqc", "-Q", COQ, "RV", "-w", "-inexact-float,-notation-overridden,-deprecated-hint-without-locality", path],
                       capture_output=True, text=True, cwd=d)
    for ext in (".vo", ".glob", ".vos", ".vok"):
        try: os.remove(path[:-2] + ext)
        except OSError: pass
    try: os.remove(os.path.join(d, "." + name + ".aux"))
    except OSError: pass
    return r.returncode == 0, r.stdout + r.stderr


def coq_eval_many(jobs, timeout=300):
    """jobs: list of (name, body). Runs up to JOBS coqc processes in parallel. Returns list of (name, ok, out)."""
    from concurrent.futures import ThreadPoolExecutor
    with ThreadPoolExecutor(max_workers=JOBS) as ex:
        res = list(ex.map(lambda nb: (nb[0],) + coq_eval(nb[0], nb[1], timeout), jobs))
    return res


def parse_coq_list_nat(out):
    """Parse the result of  Eval vm_compute in (... : list nat)  printed as  = [1; 2]  (possibly wrapped)."""
    m = re.search(r"=\s*(\[[^\]]*\])\s*:\s*list nat", out, re.S)
    if not m:
        return None
    inner = m.group(1).strip()[1:-1].strip()
    if not inner:
        return []
    return [int(x.replace("%nat", "")) for x in re.split(r"\s*;\s*", inner.replace("\n", " ")) if x.strip()]


# ----------------------------------------------------------------------------- known findings
def known_findings():
    p = os.path.join(ROOT, "known_findings.json")
    if not os.path.exists(p):
        return []
    return json.load(open(p)).get("findings", [])


# ----------------------------------------------------------------------------- run context
class Ctx:
    def __init__(self, pid, tier, seed):
        self.pid = pid; self.tier = tier; self.seed = seed
        self.t0 = time.time()
        self.rng = random.Random(seed)
        self.obligations = []          # (name, ok, detail)
        self.trusted = []
        self.assumptions = []
        self.evaluations = 0
        self.nontrivial = set()
        self.samples = []
        self.rule = ""
        self.extra = {}
        self.violations = []           # dict(key, replay_path, found_input)
        self.known = []
        self.checker_cmd = ""
        self.level = "proof"
        self.traces = 0
        self.libdir = None
        os.makedirs(EVIDENCE_DIR, exist_ok=True)
        os.makedirs(os.path.join(BUILD, "replay"), exist_ok=True)

    @property
    def thorough(self):
        return self.tier == "thorough"

    def scale(self, quick, thorough):
        return thorough if self.thorough else quick

    def log(self, *a):
        print("[%s %6.1fs]" % (self.pid, time.time() - self.t0), *a, flush=True)

    def lib(self, variant="default", **kw):
        try:
            d = build_lib(variant, **kw)
        except RuntimeError as e:
            self.log(str(e))
            raise
        if variant == "default":
            self.libdir = d
        return d

    def regen(self, script, timeout=300):
        """Run a translator tools/<script> (regenerates coq/Gen/*.v from the current tree). Fail-closed."""
        os.makedirs(os.path.join(COQ, "Gen"), exist_ok=True)
        r = subprocess.run([PY, os.path.join(ROOT, "tools", script)], cwd=ROOT, capture_output=True, text=True,
                           timeout=timeout, env=dict(os.environ, VERIF_REPO=REPO))
        self.obligation("regenerate:" + script, r.returncode == 0, (r.stdout + r.stderr)[-2000:])
        if r.returncode == 0:
            self.trusted.append("translator tools/%s (fail-closed; output re-checked by Coq on every run)" % script)
        return r.returncode == 0

    # --- proof obligations
    def obligation(self, name, ok, detail=""):
        self.obligations.append((name, bool(ok), detail))
        if not ok:
            self.log("OBLIGATION FAILED:", name, detail[-1500:])

    def prove(self, subdir, extra_targets=(), timeout=900):
        """Audit + compile coq/<subdir>/*.v; Props.v is always rechecked. Records one obligation per
        statement (all discharged iff the build succeeds). Returns ok."""
        files = coq_files(subdir) + coq_files("Common")
        bad = audit_coq(files + sorted(glob.glob(os.path.join(COQ, "Gen", "*.v"))))
        self.obligation(subdir + ":audit(no Admitted/Axiom/Parameter/unchecked)", not bad, "; ".join(bad))
        targets = [os.path.relpath(f, COQ)[:-2] + ".vo" for f in coq_files(subdir) if not f.endswith("Props.v")]
        targets += list(extra_targets)
        ok, log = coq_make(targets, timeout)
        n, names = count_statements([f for f in coq_files(subdir) if not f.endswith("Props.v")])
        if not ok:
            self.obligation(subdir + ":lemmas(%d statements)" % n, False, log[-3000:])
            return False
        for nm in names:
            self.obligations.append((subdir + "." + nm, True, ""))
        propv = os.path.join(subdir, "Props.v")
        ok2, log2, assum = coq_props(propv, timeout)
        pn, pnames = count_statements([os.path.join(COQ, propv)])
        if not ok2:
            self.obligation(subdir + ":Props.v", False, log2[-3000:])
            return False
        for nm in pnames:
            self.obligations.append((subdir + ".Props." + nm, True, ""))
        ax = sorted({a for v in assum.values() for a in v})
        self.trusted.append("Print Assumptions over %d property theorems of coq/%s/Props.v: %s"
                            % (len(assum), subdir, ", ".join(ax) if ax else "closed under the global context"))
        self.extra.setdefault("print_assumptions", {}).update(assum)
        self.checker_cmd = "cd /verif/coq && make -j16 %s/Props.vo  (coq_makefile, Coq 8.16.1, full .vo build)" % subdir
        if self.thorough and os.environ.get("VERIF_COQCHK", "1") != "0":
            # independent re-check of the compiled property file and everything it depends on
            r = subprocess.run(["timeout", "2400", "coqchk", "-silent", "-o", "-Q", ".", "RV", "RV.%s.Props" % subdir],
                               cwd=COQ, capture_output=True, text=True)
            out = r.stdout + r.stderr
            m = re.search(r"\* Axioms:(.*?)\n\s*\n\* Constants/Inductives relying on type-in-type:(.*?)\n\s*\n\* Constants/Inductives relying on unsafe \(co\)fixpoints:(.*?)\n\s*\n\* Inductives whose positivity is assumed:(.*?)\n", out + "\n\n", re.S)
            axioms = sorted(set(a.strip() for a in m.group(1).split("\n") if a.strip())) if m else []
            clean = bool(m) and all("<none>" in m.group(i) for i in (2, 3, 4))
            self.obligation("coqchk:RV.%s.Props (independent checker: no type-in-type, no unsafe fixpoints, no assumed positivity)" % subdir,
                            r.returncode == 0 and clean, out[-1500:])
            self.trusted.append("coqchk -o RV.%s.Props: axioms of everything loaded = %s" % (subdir, ", ".join(axioms) or "none"))
            self.extra["coqchk_axioms"] = axioms
            self.checker_cmd += " ; coqchk -silent -o -Q . RV RV.%s.Props" % subdir
        return ok and ok2

    # --- coverage bookkeeping
    def case(self, key=None, nontrivial=True, sample=None):
        self.evaluations += 1
        if nontrivial and key is not None:
            self.nontrivial.add(key)
        if sample is not None and len(self.samples) < 6:
            self.samples.append(sample)

    # --- violations
    def violation(self, key, replay, found_input=True, what=""):
        """key: stable identification of the failing input/call site (matched against known_findings.json).
        replay: JSON-serialisable object describing how to reproduce."""
        for kf in known_findings():
            if kf.get("property") == self.pid and kf.get("status", "open") == "open" and kf.get("key") == key:
                if key not in [k for k, _ in self.known]:
                    self.known.append((key, kf.get("what", what)))
                return
        path = os.path.join(BUILD, "replay", "%s_%d.json" % (self.pid, len(self.violations)))
        json.dump({"property": self.pid, "key": key, "what": what, "found_input": found_input,
                   "seed": self.seed, "tier": self.tier, "replay": replay}, open(path, "w"), indent=1, default=str)
        self.violations.append({"key": key, "path": path, "found_input": found_input, "what": what})

    def finish(self):
        failed = [o for o in self.obligations if not o[1]]
        if failed and not self.violations:
            # an obligation broke and no searcher produced a concrete input
            self.violation("obligation:" + failed[0][0], {"broken_obligations": [(n, d[-800:]) for n, _, d in failed]},
                           found_input=False, what="proof obligation / correspondence no longer checks")
        wall = time.time() - self.t0
        cov = {
            "obligations": max(1, len(self.obligations)),
            "discharged": len([o for o in self.obligations if o[1]]),
            "checker_cmd": self.checker_cmd or "./check %s --tier %s" % (self.pid, self.tier),
            "trusted_base": self.trusted + [
                "Coq 8.16.1 kernel + vm_compute (no native_compute); no Axiom/Parameter/Admitted in /verif/coq (audited on every run)",
                "tools/vlib.py + tools/%s.py harness (generation, canonicalisation, comparison); gcc 12 -O3 -std=c99 as in setup.py"
                % self.pid.lower()],
            "evaluations": max(self.evaluations, 0),
            "distinct_nontrivial": len(self.nontrivial),
            "rule": self.rule,
            "samples": self.samples[:6] if self.samples else [o[0] for o in self.obligations[:3]],
            "traces_validated_against_impl": self.traces,
            "failed_obligations": [o[0] for o in failed],
            "known_findings_seen": [k for k, _ in self.known],
        }
        cov.update(self.extra)
        ev = {"property_id": self.pid, "tier": self.tier, "seed": self.seed, "level": self.level,
              "coverage": cov, "assumptions": self.assumptions, "wall_s": round(wall, 2),
              "violations": len(self.violations)}
        with open(os.path.join(EVIDENCE_DIR, self.pid + ".json"), "w") as f:
            json.dump(ev, f, indent=1, default=str)
        for key, what in self.known:
            print("KNOWN-FINDING: property=%s %s [%s]" % (self.pid, what, key))
        for v in self.violations:
            tail = "" if v["found_input"] else " no-failing-input-found"
            print("VIOLATION property=%s replay=%s%s" % (self.pid, v["path"], tail))
        self.log("done: %d obligations (%d failed), %d evaluations, %d violations, %.1fs"
                 % (len(self.obligations), len(failed), self.evaluations, len(self.violations), wall))
        return 1 if self.violations else 0
