"""Edge-of-domain states for C05 / C17 (library only, shared by tools/c05.py and tools/c17.py).

States: N = 0, 1, 2 for every integrator (before and after steps), degenerate values (zero mass / radius, dt = 0 and < 0, t != 0,
-0.0, subnormal and huge magnitudes, NaN / inf in particle members and in scalar settings, equal hashes, coincident positions),
integer limits of every persisted counter, a single variation set, a single Simulationarchive snapshot, and simulations that
keep being used AFTER an error path (a step that raised).
Checks per state: the save stream parses strictly; restore / copy / pickle resave the same canonical stream; == holds in both
directions (also for NaN payloads: comparison is bitwise); snapshot 0 and a delta snapshot of an archive restore equal to live;
where stepping is possible the original, the restored simulation and the copy continue bitwise for 1 and 3 steps."""
import ctypes, math, os, pickle, tempfile, warnings

INTEGRATORS = ("ias15", "whfast", "saba", "eos", "leapfrog", "sei", "janus", "mercurius", "trace", "bs", "none")
SUB = 5e-324
BIG = 1.7e308


def _add(sim, n, **kw):
    base = [dict(m=1.), dict(m=1e-3, a=1., e=0.05), dict(m=5e-4, a=1.9, e=0.1, f=1.)]
    for i in range(n):
        sim.add(**dict(base[i], **(kw if i == n - 1 else {})))


def states(rebound):
    """yield (label, builder); builder() -> sim (may raise: then the state is skipped and counted)"""
    out = []
    def S(label, f, reattach=None, can_step=True):
        out.append((label, f, reattach, can_step))
    # LIBRARY DEFECT (reported, /tmp/c08_empty_sim_patch.diff): stepping a simulation without particles segfaults with these
    # integrators (N_active = 0 was fixed in e83f542); such states are saved / restored / compared here but never stepped
    NO_EMPTY_STEP = ("whfast", "saba", "mercurius", "trace")
    for integ in INTEGRATORS:
        for n in (0, 1, 2):
            for k in (0, 2):
                if n == 0 and k and integ in NO_EMPTY_STEP:
                    continue
                def mk(integ=integ, n=n, k=k):
                    s = rebound.Simulation(); s.rand_seed = 5; s.integrator = integ; s.dt = 0.01
                    if integ == "sei": s.ri_sei.OMEGA = 1.0
                    _add(s, n)
                    if k: s.steps(k)
                    return s
                S("N=%d/%s/k=%d" % (n, integ, k), mk, can_step=not (n == 0 and integ in NO_EMPTY_STEP))
    def plain(integ="leapfrog", n=3):
        s = rebound.Simulation(); s.rand_seed = 5; s.integrator = integ; s.dt = 0.01; _add(s, n); return s
    # degenerate values
    def val(label, edit, integ="leapfrog", steps=2, reattach=None, can_step=True):
        def mk():
            s = plain(integ); edit(s)
            if steps and can_step: s.steps(steps)
            return s
        S(label + "/" + integ, mk, reattach, can_step)
    for integ in ("leapfrog", "whfast", "ias15"):
        val("zero-mass-all", lambda s: [setattr(p, "m", 0.0) for p in s.particles], integ)
        val("zero-radius+direct-collisions", lambda s: (setattr(s, "collision", "direct"), setattr(s, "collision_resolve", "merge")), integ,
            reattach=lambda d: setattr(d, "collision_resolve", "merge"))
        val("dt=0", lambda s: setattr(s, "dt", 0.0), integ)
        val("dt<0", lambda s: setattr(s, "dt", -0.01), integ)
        val("dt=subnormal", lambda s: setattr(s, "dt", SUB), integ)
        val("t=-0.0", lambda s: setattr(s, "t", -0.0), integ)
        val("t=1e300", lambda s: setattr(s, "t", 1e300), integ)
        val("x=-0.0", lambda s: setattr(s.particles[1], "x", -0.0), integ)
        val("x=subnormal", lambda s: setattr(s.particles[1], "x", SUB), integ)
        val("x=huge", lambda s: setattr(s.particles[2], "x", BIG), integ)
        val("x=nan", lambda s: setattr(s.particles[1], "x", float("nan")), integ)
        val("vx=inf", lambda s: setattr(s.particles[1], "vx", float("inf")), integ)
        val("m=nan", lambda s: setattr(s.particles[2], "m", float("nan")), integ)
        val("G=nan", lambda s: setattr(s, "G", float("nan")), integ)
        val("G=0", lambda s: setattr(s, "G", 0.0), integ)
        val("softening=inf", lambda s: setattr(s, "softening", float("inf")), integ)
        val("coincident", lambda s: [setattr(s.particles[2], c, getattr(s.particles[1], c)) for c in ("x", "y", "z")], integ)
        val("equal-hashes", lambda s: [setattr(p, "hash", 7) for p in s.particles], integ)
        val("e->1", lambda s: s.add(m=1e-6, a=3., e=1. - 1e-12), integ)
        val("inc=pi", lambda s: s.add(m=1e-6, a=3., inc=math.pi), integ)
        val("N_active=0", lambda s: setattr(s, "N_active", 0), integ)
        val("N_active=1+tp_type1", lambda s: (setattr(s, "N_active", 1), setattr(s, "testparticle_type", 1)), integ)
    # integer limits of persisted counters (set through ctypes on a simulation at rest)
    limits = [("steps_done", 2 ** 64 - 1), ("collisions_log_n", 2 ** 63 - 1), ("megno_n", -2 ** 63), ("rand_seed", 2 ** 32 - 1),
              ("hash_ctr", 2 ** 31 - 1), ("python_unit_l", 2 ** 32 - 1), ("python_unit_m", 2 ** 32 - 1), ("python_unit_t", 2 ** 32 - 1),
              ("simulationarchive_auto_step", 2 ** 64 - 1), ("simulationarchive_next_step", 2 ** 64 - 1), ("N_var", 0), ("status", -2 ** 31)]
    for name, v in limits:
        def mk(name=name, v=v):
            s = plain()
            cands = [name, "_" + name]
            for c in cands:
                if any(f[0] == c for f in type(s)._fields_):
                    setattr(s, c, v); return s
            raise KeyError(name)
        S("limit/%s=%d" % (name, v), mk)
    # a single variation set, MEGNO alone, variation on N=1
    def var1():
        s = plain("ias15", 2); s.add_variation(); s.steps(2); return s
    def megno1():
        s = plain("leapfrog", 2); s.init_megno(seed=1); s.steps(2); return s
    def var_on_one():
        s = plain("ias15", 1); s.add_variation(); s.steps(1); return s
    S("single-variation", var1); S("megno-only", megno1); S("variation-on-N=1", var_on_one)
    # the same object keeps being used after an error / warning path was taken once
    def after_error(integ, breaker, repair):
        def mk():
            s = plain(integ); s.steps(1)
            breaker(s)
            try:
                s.steps(1)
            except Exception:
                pass
            for _ in range(10):          # the failed step may have queued several messages: drain them like a user's next calls would
                try:
                    s.process_messages(); break
                except Exception:
                    continue
            repair(s)
            return s
        return mk
    S("after-error/whfast-corrector-with-dh", after_error("whfast", lambda s: (setattr(s.ri_whfast, "coordinates", "democraticheliocentric"), setattr(s.ri_whfast, "corrector", 5)),
                                                          lambda s: setattr(s.ri_whfast, "corrector", 0)))
    S("after-error/saba-bad-then-good", after_error("saba", lambda s: setattr(s.ri_saba, "keep_unsynchronized", 1), lambda s: setattr(s.ri_saba, "keep_unsynchronized", 0)))
    S("after-error/eos-then-leapfrog", after_error("eos", lambda s: setattr(s.ri_eos, "n", 0), lambda s: (setattr(s.ri_eos, "n", 2), setattr(s, "integrator", "leapfrog"))))
    S("after-error/exit_max_distance", after_error("leapfrog", lambda s: setattr(s, "exit_max_distance", 1e-3), lambda s: setattr(s, "exit_max_distance", 0.)))
    S("after-error/remove-bad-index", after_error("ias15", lambda s: [None for _ in [0] if not _try(lambda: s.remove(99))], lambda s: None))
    return out


def _try(f):
    try:
        f(); return True
    except Exception:
        return False


def check_state(rebound, gen, label, mk, reattach=None, can_step=True):
    """-> (ran: bool, failures, stream or None)"""
    fails = []
    with warnings.catch_warnings():
        warnings.simplefilter("ignore")
        try:
            s = mk()
        except Exception as e:
            return False, [], None
        tag = {"state": label}
        try:
            b = gen.save_bytes(rebound, s)
            gen.parse(b)
        except Exception as e:
            return True, [dict(tag, key="edge:save-or-parse", detail=repr(e))], None
        derived = []
        for how, f in (("restore", lambda: gen.load_bytes(rebound, b)), ("copy", lambda: s.copy()), ("pickle", lambda: pickle.loads(pickle.dumps(s)))):
            try:
                derived.append((how, f()))
            except Exception as e:
                fails.append(dict(tag, key="edge:%s-raises" % how, detail=repr(e)))
        cb = gen.canon(rebound, b)
        if reattach:                       # property hypothesis: the user re-attaches the same callbacks
            for how, d in derived:
                reattach(d)
        for how, d in derived:
            db = gen.save_bytes(rebound, d)
            df = gen.diff_fields(cb, gen.canon(rebound, db))
            if df:
                fails.append(dict(tag, key="edge:%s-stream-differs" % how, fields=df))
            if not (d == s) or not (s == d):
                fails.append(dict(tag, key="edge:%s!=source" % how))
        # archive: single snapshot, then a delta snapshot
        dname = tempfile.mkdtemp(prefix="c05edge"); fn = os.path.join(dname, "a.bin")
        try:
            s.save_to_file(fn, delete_file=True)
            r0 = rebound.Simulation(fn)                       # archive with ONE snapshot
            if reattach: reattach(r0)
            if not (r0 == s):
                fails.append(dict(tag, key="edge:single-snapshot!=live"))
            s.save_to_file(fn)
            r1 = rebound.Simulation(fn, snapshot=1)
            if reattach: reattach(r1)
            if not (r1 == s) or not (s == r1):
                fails.append(dict(tag, key="edge:delta-snapshot!=live"))
        except Exception as e:
            fails.append(dict(tag, key="edge:archive-raises", detail=repr(e)))
        finally:
            if os.path.exists(fn): os.remove(fn)
            os.rmdir(dname)
        # bitwise continuation where stepping is possible
        for k in ((1, 3) if can_step else ()):
            errs = []
            for q in [s] + [d for _, d in derived]:
                try:
                    q.steps(k); errs.append(None)
                except Exception as e:
                    errs.append(type(e).__name__ + ":" + str(e)[:60])
            if len(set(errs)) > 1:
                fails.append(dict(tag, key="edge:continue-error-differs", k=k, detail=str(errs)))
                break
            if errs[0] is not None:
                break
            cs = gen.canon(rebound, gen.save_bytes(rebound, s), mask_unread=True)
            for how, d in derived:
                df = gen.diff_fields(cs, gen.canon(rebound, gen.save_bytes(rebound, d), mask_unread=True))
                if df:
                    fails.append(dict(tag, key="edge:continue:%s" % how, k=k, fields=df))
        return True, fails, b
